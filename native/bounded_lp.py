"""Bounded stand-in for LinearProgramExtractor.extract (C05 / C08) -- labelled bounded, never counted as proved.

The coefficient and constant extraction routines are proved; what `extract` adds is the assembly: which constraints become
rows of A_ub / A_eq, the sign normalisation of >= rows, the right-hand sides, the bounds list and the variable order.  Seeded
random linear problems are built from the shapes on which the proved routines are exact (literal Constant factors, no `**`,
LinearCombination over a VectorVariable) and the extracted arrays are compared with the model at random points:

    c . x  =  objective(x) - objective(0)             A_ub x - b_ub  =  g(x)   for  g <= 0   (sign-flipped for >=)
    A_eq x - b_eq  =  h(x)  for  h == 0                bounds[k] = (lb, ub) of variables[k], variables in natural order
Bounds: 150 (quick) / 2000 (thorough) problems with up to 4 constraints, expression depth <= 3, 3 points each.
"""
from __future__ import annotations

import json
import random
import sys
import time
from collections import Counter

import numpy as np

import build as B
import oracle as O

NAMES = ("x", "y", "v[0]", "v[1]", "v[2]")


def lin(rng, depth):
    if depth <= 0 or rng.random() < 0.25:
        return {"cls": "Variable", "name": rng.choice(NAMES)} if rng.random() < 0.65 else {"cls": "Constant", "value": rng.choice([0.0, 1.0, 2.0, -3.0, 0.5])}
    r = rng.random()
    c = {"cls": "Constant", "value": rng.choice([2.0, -1.0, 0.5, 3.0, -4.0])}
    if r < 0.4:
        return {"cls": "BinaryOp", "left": lin(rng, depth - 1), "right": lin(rng, depth - 1), "op": rng.choice(["+", "-"])}
    if r < 0.6:
        a, b = c, lin(rng, depth - 1)
        if rng.random() < 0.5:
            a, b = b, a
        return {"cls": "BinaryOp", "left": a, "right": b, "op": "*"}
    if r < 0.7:
        return {"cls": "BinaryOp", "left": lin(rng, depth - 1), "right": c, "op": "/"}
    if r < 0.8:
        return {"cls": "UnaryOp", "operand": lin(rng, depth - 1), "op": "neg"}
    n = rng.randint(1, 3)
    vec = {"cls": "VectorVariable", "name": "v", "vars": [{"cls": "Variable", "name": f"v[{i}]", "lb": 0.0, "ub": 5.0} for i in sorted(rng.sample(range(3), n))]}     # in column order: out-of-order views are the known finding D12
    if r < 0.9:
        return {"cls": "VectorSum", "vector": vec}
    return {"cls": "LinearCombination", "coefficients": [rng.choice([1.0, -2.0, 0.5, 3.0]) for _ in range(n)], "vector": vec}


def natural_key(name):
    import re
    return [int(t) if t.isdigit() else t for t in re.split(r"(\d+)", name)]


def main():
    job = json.loads(sys.stdin.read())
    tier = job.get("tier", "quick")
    rng = random.Random(job.get("seed", 0) + 31)
    N = 150 if tier != "thorough" else 2000
    t0 = time.time()
    from optyx import Problem
    from optyx.analysis import LinearProgramExtractor
    stats = Counter()
    fails = []
    B._vars.clear()
    for name in ("x", "y"):
        B.build({"cls": "Variable", "name": name, "lb": -2.0, "ub": None if name == "y" else 7.0})
    for i in range(3):
        B.build({"cls": "Variable", "name": f"v[{i}]", "lb": 0.0, "ub": 5.0})

    def fix(rc):
        """all Variable recipes refer to the interned objects with bounds"""
        if isinstance(rc, dict):
            if rc.get("cls") == "Variable":
                nm = rc["name"]
                rc.update({"lb": -2.0, "ub": None if nm == "y" else 7.0} if nm in ("x", "y") else {"lb": 0.0, "ub": 5.0})
            for v in rc.values():
                fix(v)
        elif isinstance(rc, list):
            for v in rc:
                fix(v)
        return rc
    for case in range(N):
        obj_rc = fix(lin(rng, 3))
        cons = [(fix(lin(rng, 2)), rng.choice(["<=", ">=", "=="]), rng.choice([0.0, 1.0, -2.0, 4.0])) for _ in range(rng.randint(0, 4))]
        try:
            obj = B.build(obj_rc)
            p = Problem()
            sense = rng.choice(["min", "max"])
            (p.minimize if sense == "min" else p.maximize)(obj)
            built = []
            for rc, rel, rhs in cons:
                e = B.build(rc)
                if not O.variables_of(e):
                    continue        # constant constraints are rejected / meaningless
                con = (e <= rhs) if rel == "<=" else (e >= rhs) if rel == ">=" else e.eq(rhs)
                p.subject_to(con)
                built.append((e, rel, rhs))
            if not (O.variables_of(obj) or built):
                continue
            lp = LinearProgramExtractor().extract(p)
        except Exception as ex:     # noqa: BLE001
            stats["raises:" + type(ex).__name__] += 1
            continue
        stats["problems"] += 1
        names = list(lp.variables)
        want_names = sorted(set().union(O.variables_of(obj), *[O.variables_of(e) for e, _, _ in built]), key=natural_key)
        sig = None
        if names != want_names:
            sig = ("variables", f"LPData.variables {names} vs natural order of the model's variables {want_names}")
        bounds = {"x": (-2.0, 7.0), "y": (-2.0, None)}
        for k, nm in enumerate(names):
            want = bounds.get(nm, (0.0, 5.0))
            if sig is None and tuple(lp.bounds[k]) != want:
                sig = ("bounds", f"bounds[{k}] = {lp.bounds[k]} for {nm}, model says {want}")
        ub_rows = [(e, rel, rhs) for e, rel, rhs in built if rel != "=="]
        eq_rows = [(e, rel, rhs) for e, rel, rhs in built if rel == "=="]
        n_ub = 0 if lp.A_ub is None else len(lp.A_ub)
        n_eq = 0 if lp.A_eq is None else len(lp.A_eq)
        if sig is None and (n_ub != len(ub_rows) or n_eq != len(eq_rows)):
            sig = ("rows", f"{n_ub} inequality / {n_eq} equality rows for {len(ub_rows)} / {len(eq_rows)} constraints")
        for _ in range(3):
            if sig is not None:
                break
            env = {n_: rng.choice([0.5, 1.5, -1.0, 2.0, 3.5]) for n_ in NAMES}
            x = np.array([env[n_] for n_ in names])
            zero = {n_: 0.0 for n_ in NAMES}
            stats["points"] += 1
            if abs(float(lp.c @ x) - (O.den(obj, env) - O.den(obj, zero))) > 1e-8:
                sig = ("objective", f"c.x = {float(lp.c @ x)} but objective(x)-objective(0) = {O.den(obj, env) - O.den(obj, zero)}")
                break
            for i, (e, rel, rhs) in enumerate(ub_rows):
                g = O.den(e, env) - rhs
                got = float(lp.A_ub[i] @ x - lp.b_ub[i])
                if abs(got - (g if rel == "<=" else -g)) > 1e-8:
                    sig = ("A_ub", f"row {i} ({rel} {rhs}): A x - b = {got}, model gives {g if rel == '<=' else -g}")
                    break
            for i, (e, rel, rhs) in enumerate(eq_rows):
                if sig is not None:
                    break
                h = O.den(e, env) - rhs
                got = float(lp.A_eq[i] @ x - lp.b_eq[i])
                if abs(got - h) > 1e-8:
                    sig = ("A_eq", f"row {i}: A x - b = {got}, model gives {h}")
        if sig is None and lp.sense != sense:
            sig = ("sense", f"sense {lp.sense} for a {sense} problem")
        if sig is not None:
            fails.append((sig[0], sig[1] + " | objective " + json.dumps(obj_rc)[:200] + " | constraints " + json.dumps(cons)[:300]))
    out, seen = [], set()
    for name, what in fails:
        if name in seen:
            continue
        seen.add(name)
        out.append({"signature": name, "what": f"LP extraction, {name}: {what}", "job": {}})
    print(json.dumps({"cases": stats["problems"], "distinct": stats["problems"], "exhaustive": False, "seconds": round(time.time() - t0, 2),
                      "failures": out, "stats": dict(stats)}))


if __name__ == "__main__":
    main()
