"""Spec functions over engine values and their unfolding tables (single source for the z3 side).

Every rule below has a Lean/Mathlib counterpart in spec/OptyxSpec.lean (names in the comments); the z3 step proves
*code result = table formula*, Lean proves *table formula = mathematics*.  Entries without a finished Lean proof are
listed by contracts/lean_status.py and surface in every evidence file that uses them.

Unfolding is demand driven and kind specific: an instance for object `r` is emitted only once the exact class of `r` is
known on the path (spec case, isinstance fork, allocation); requests made earlier are parked and replayed when the
class is learned.  Emitting fewer instances only weakens the assumptions, so it is sound for proving.
"""
from __future__ import annotations

import z3

from pyvc import sym
from pyvc.sym import Ref, Name, R, I, B, fn
from pyvc.spec import BINARY_OPS, UNARY_OPS, VEC_UNARY_OPS, Schema
from pyvc.values import Obj, Opaque, SReal, SInt, SSeq, Unsupported, real_term, num_term

UF = sym.UF
LN2 = UF["log"](sym.rv(2.0))
LN10 = UF["log"](sym.rv(10.0))
POWDOM = fn("POWDOM", R, R, B)
NODIV0 = fn("NODIV0", Ref, B)   # no division by a literal Constant(0) anywhere in the tree (A7)
SYN = fn("SYN", Ref, B)         # LPX: the syntactic class LP extraction is specified on; "degree <= 1" may only be reported inside it
WF = fn("WF", Ref, B)           # well-formed scalar expression tree (precondition vocabulary, see unfold_wf)


def lit(s):
    return sym.lit(s)


class Spec:
    """Helper bound to one interpreter (one path)."""

    def __init__(self, ip):
        self.ip = ip
        self.S: Schema = ip.schema
        self.K = ip.schema.kinds

    def ref(self, v):
        r = self.ip.models.ref_of(self.ip, v)
        if r is None:
            raise Unsupported(f"spec function applied to non-object {v!r}")
        return r

    @property
    def E(self):
        return self.S.E

    @property
    def PV(self):
        return self.S.PV(self.ip)

    @property
    def PVX(self):
        """An arbitrary parameter valuation unrelated to the current store: statements made at PVX hold for every later
        heap (C12); code that reads a parameter's *current* value while building a tree cannot satisfy them."""
        g = self.ip.path.ghost
        if "PVX" not in g:
            g["PVX"] = sym.fresh("PVX", sym.PVSort)
        return g["PVX"]

    def kind_is(self, v, cls: str):
        return self.K.is_kind(self.ref(v), cls)

    def den(self, v, E=None, PV=None):
        if isinstance(v, (int, float)):
            return sym.rv(v)
        if isinstance(v, SReal):
            return v.t
        if isinstance(v, SInt):
            return sym.to_real(v.t)
        E = self.E if E is None else E
        PV = self.PV if PV is None else PV
        r = self.ref(v)
        unfold(self, "den", r, (E, PV))
        return self.S.DEN(r, E, PV)

    def dv(self, v, w, E=None, PV=None):
        E = self.E if E is None else E
        PV = self.PV if PV is None else PV
        r = self.ref(v)
        unfold(self, "dv", r, (w, E, PV))
        return self.S.DV(r, w, E, PV)

    def reg(self, v, w, E=None, PV=None):
        E = self.E if E is None else E
        PV = self.PV if PV is None else PV
        r = self.ref(v)
        unfold(self, "dv", r, (w, E, PV))
        return self.S.REG(r, w, E, PV)

    def dom(self, v, E=None, PV=None):
        E = self.E if E is None else E
        PV = self.PV if PV is None else PV
        r = self.ref(v)
        unfold(self, "dom", r, (E, PV))
        return self.S.DOM(r, E, PV)

    def occ(self, v, w):
        r = self.ref(v)
        unfold(self, "occ", r, (w,))
        return self.S.OCC(r, w)

    def ispoly(self, v):
        r = self.ref(v)
        unfold(self, "deg", r, ())
        return self.S.ISPOLY(r)

    def sdeg(self, v):
        r = self.ref(v)
        unfold(self, "deg", r, ())
        return self.S.SDEG(r)

    def nodiv0(self, v):
        r = self.ref(v)
        unfold(self, "nd0", r, ())
        return NODIV0(r)

    def syn(self, v):
        r = self.ref(v)
        unfold(self, "syn", r, ())
        return SYN(r)

    def wf(self, v):
        r = self.ref(v)
        unfold(self, "wf", r, ())
        return WF(r)

    def value(self, v):
        return self.S.F("value", R)(self.ref(v))

    def name(self, v):
        if isinstance(v, str):
            return lit(v)
        return self.S.F("name", Name)(self.ref(v))

    def op(self, v):
        return self.S.F("op", Name)(self.ref(v))

    def child(self, v, field: str):
        return self.S.F(field, Ref)(self.ref(v))

    def if_kind(self, v, cls: str, fams=("den",)):
        """Make the unfolding instances of `v` for class `cls` available under the guard kind(v) == cls."""
        r = self.ref(v)
        if self.ip.path.kinds.get(str(r)) is not None:
            return
        for fam in fams:
            params = {"den": (self.E, self.PV), "deg": (), "wf": ()}[fam]
            key = f"guarded:{fam}:{cls}:{r}:{params}"
            if key in self.ip.path.unfolded:
                continue
            self.ip.path.unfolded.add(key)
            self.ip.path.guards.append(self.K.is_kind(r, cls))
            try:
                for f in TABLES[fam].get(cls, []):
                    f(self, r, *params)
            finally:
                self.ip.path.guards.pop()

    def is_const(self, v):
        self.if_kind(v, "Constant", ("den", "deg", "wf"))
        return self.kind_is(v, "Constant")

    def is_zero(self, v):
        self.if_kind(v, "Constant", ("den", "deg", "wf"))
        return z3.And(self.kind_is(v, "Constant"), self.value(v) == 0)

    def is_one(self, v):
        self.if_kind(v, "Constant", ("den", "deg", "wf"))
        return z3.And(self.kind_is(v, "Constant"), self.value(v) == 1)


# ------------------------------------------------------------------------------------------- machinery
TABLES: dict[str, dict[str, list]] = {"den": {}, "dv": {}, "dom": {}, "occ": {}, "deg": {}, "wf": {}, "nd0": {}, "syn": {}, "cov": {}}


def rule(fam: str, *kinds: str):
    def deco(f):
        for k in kinds:
            TABLES[fam].setdefault(k, []).append(f)
        return f
    return deco


def unfold(sp: Spec, fam: str, r, params: tuple) -> None:
    path = sp.ip.path
    kind = path.kinds.get(str(r))
    if kind is None:
        key = f"park:{fam}:{r}:{params}"
        if key not in path.unfolded:
            path.unfolded.add(key)
            sp.S.park(sp.ip, r, lambda: unfold(sp, fam, r, params))
            if fam == "den":
                # the class may become known to the solver only (an alias `a is b` of an object of known class): the
                # denotation of the three leaf classes is stated under a class guard straight away
                E_, PV_ = params
                K_ = sp.K
                path.assume(z3.Implies(K_.is_kind(r, "Variable"), sp.S.DEN(r, E_, PV_) == z3.Select(E_, sp.S.F("name", Name)(r))))
                path.assume(z3.Implies(K_.is_kind(r, "Constant"), sp.S.DEN(r, E_, PV_) == sp.S.F("value", R)(r)))
        return
    key = f"unf:{fam}:{r}:{params}"
    if key in path.unfolded:
        return
    path.unfolded.add(key)
    if fam in ("dv", "dom"):
        unfold(sp, "den", r, params[-2:])
    for f in TABLES[fam].get(kind, []):
        f(sp, r, *params)
    # objects allocated on this path: their children are known objects, unfold them too
    for child in path.ghost.get("children", {}).get(str(r), []):
        unfold(sp, fam, child, params)
    # children of opaque operator nodes: request their instances too (parked until their class is learned)
    if kind == "BinaryOp":
        l, rr, _a = kids(sp, r)
        unfold(sp, fam, l, params)
        unfold(sp, fam, rr, params)
    elif kind == "UnaryOp":
        unfold(sp, fam, kids(sp, r)[2], params)


def ops_of(sp: Spec, r, table: list[str]) -> list[str]:
    op = sp.S.known_op(sp.ip, r)
    return [op] if op is not None else list(table)


def guard_op(sp: Spec, r, op: str):
    if sp.S.known_op(sp.ip, r) is not None:
        return z3.BoolVal(True)
    return sp.S.F("op", Name)(r) == lit(op)


def uf_facts(ip, opname: str, arg, res) -> None:
    """True facts about the real elementary functions, instantiated at the terms that occur (lean: uf_*)."""
    p = ip.path
    key = f"uf:{opname}:{arg}"
    if key in p.unfolded:
        return
    p.unfolded.add(key)
    if opname == "sqrt":
        p.assume(z3.Implies(arg >= 0, z3.And(res >= 0, res * res == arg)))     # Real.sqrt_nonneg, Real.mul_self_sqrt
        p.assume(z3.Implies(arg > 0, res > 0))                                  # Real.sqrt_pos
    elif opname == "exp":
        p.assume(res > 0)                                                       # Real.exp_pos
    elif opname == "cosh":
        p.assume(res >= 1)                                                      # Real.one_le_cosh
    elif opname == "log":
        p.assume(z3.Implies(arg > 1, res > 0))                                  # Real.log_pos
        p.assume(z3.Implies(arg == 1, res == 0))                                # Real.log_one


def ufapp(sp: Spec, opname: str, a):
    if opname == "neg":
        return -a
    if opname == "abs":
        return sym.zabs(a)
    t = UF[opname](a)
    uf_facts(sp.ip, opname, a, t)
    return t


def powapp(sp: Spec, a, b):
    return sp.ip.models.pow_term(sp.ip, a, b)


def BIN_DEN(sp, op, a, b):
    return {"+": lambda: a + b, "-": lambda: a - b, "*": lambda: a * b, "/": lambda: a / b,
            "**": lambda: powapp(sp, a, b)}[op]()


def kids(sp: Spec, r):
    S = sp.S
    return S.F("left", Ref)(r), S.F("right", Ref)(r), S.F("operand", Ref)(r)


# ------------------------------------------------------------------------------------------- DEN
@rule("den", "Constant")
def _(sp, r, E, PV):
    sp.ip.path.assume(sp.S.DEN(r, E, PV) == sp.S.F("value", R)(r))


@rule("den", "Variable")
def _(sp, r, E, PV):
    sp.ip.path.assume(sp.S.DEN(r, E, PV) == z3.Select(E, sp.S.F("name", Name)(r)))


@rule("den", "Parameter")
def _(sp, r, E, PV):
    sp.ip.path.assume(sp.S.DEN(r, E, PV) == z3.Select(PV, r))


@rule("den", "BinaryOp")
def _(sp, r, E, PV):
    l, rr, _ = kids(sp, r)
    D = lambda x: sp.S.DEN(x, E, PV)
    for op in ops_of(sp, r, BINARY_OPS):
        sp.ip.path.assume(z3.Implies(guard_op(sp, r, op), D(r) == BIN_DEN(sp, op, D(l), D(rr))))


@rule("den", "UnaryOp")
def _(sp, r, E, PV):
    _, _, a = kids(sp, r)
    D = lambda x: sp.S.DEN(x, E, PV)
    for op in ops_of(sp, r, UNARY_OPS):
        sp.ip.path.assume(z3.Implies(guard_op(sp, r, op), D(r) == ufapp(sp, op, D(a))))


# ------------------------------------------------------------------------------------------- DV / REG (calculus table)
def unary_dv_rule(sp: Spec, op: str, a, da):
    """Derivative of f(a) given a and da (lean: deriv_<op>)."""
    u = lambda name, x: ufapp(sp, name, x)
    return {
        "neg": lambda: -da,
        "abs": lambda: (a / sym.zabs(a)) * da,
        "sin": lambda: u("cos", a) * da,
        "cos": lambda: -u("sin", a) * da,
        "tan": lambda: da / (u("cos", a) * u("cos", a)),
        "exp": lambda: u("exp", a) * da,
        "log": lambda: da / a,
        "log2": lambda: da / (a * LN2),
        "log10": lambda: da / (a * LN10),
        "sqrt": lambda: da / (2 * u("sqrt", a)),
        "tanh": lambda: (1 - u("tanh", a) * u("tanh", a)) * da,
        "sinh": lambda: u("cosh", a) * da,
        "cosh": lambda: u("sinh", a) * da,
        "asin": lambda: da / u("sqrt", 1 - a * a),
        "acos": lambda: -(da / u("sqrt", 1 - a * a)),
        "atan": lambda: da / (1 + a * a),
        "asinh": lambda: da / u("sqrt", 1 + a * a),
        "acosh": lambda: da / u("sqrt", a * a - 1),
        "atanh": lambda: da / (1 - a * a),
    }[op]()


def unary_regular(sp: Spec, op: str, a):
    """Side condition under which the table entry is the derivative (= hypotheses of the Lean theorem)."""
    u = lambda name, x: ufapp(sp, name, x)
    T_ = z3.BoolVal(True)
    return {
        "neg": lambda: T_, "abs": lambda: a != 0, "sin": lambda: T_, "cos": lambda: T_,
        "tan": lambda: u("cos", a) != 0, "exp": lambda: T_,
        "log": lambda: a > 0, "log2": lambda: a > 0, "log10": lambda: a > 0, "sqrt": lambda: a > 0,
        "tanh": lambda: T_, "sinh": lambda: T_, "cosh": lambda: T_,
        "asin": lambda: z3.And(a > -1, a < 1), "acos": lambda: z3.And(a > -1, a < 1), "atan": lambda: T_,
        "asinh": lambda: T_, "acosh": lambda: a > 1, "atanh": lambda: z3.And(a > -1, a < 1),
    }[op]()


@rule("dv", "Constant", "Parameter")
def _(sp, r, w, E, PV):
    sp.ip.path.assume(z3.And(sp.S.DV(r, w, E, PV) == 0, sp.S.REG(r, w, E, PV)))


@rule("dv", "Variable")
def _(sp, r, w, E, PV):
    nm = sp.S.F("name", Name)(r)
    sp.ip.path.assume(z3.And(sp.S.DV(r, w, E, PV) == z3.If(nm == w, sym.rv(1), sym.rv(0)), sp.S.REG(r, w, E, PV)))


@rule("dv", "BinaryOp")
def _(sp, r, w, E, PV):
    S, K, p = sp.S, sp.K, sp.ip.path
    l, rr, _ = kids(sp, r)
    D = lambda x: S.DEN(x, E, PV)
    DV = lambda x: S.DV(x, w, E, PV)
    REG = lambda x: S.REG(x, w, E, PV)
    A_, B_, dA, dB = D(l), D(rr), DV(l), DV(rr)
    both = z3.And(REG(l), REG(rr))
    for op in ops_of(sp, r, BINARY_OPS):
        g = guard_op(sp, r, op)
        if op == "+":       # lean: deriv_add
            p.assume(z3.Implies(g, z3.And(DV(r) == dA + dB, REG(r) == both)))
        elif op == "-":     # lean: deriv_sub
            p.assume(z3.Implies(g, z3.And(DV(r) == dA - dB, REG(r) == both)))
        elif op == "*":     # lean: deriv_mul
            p.assume(z3.Implies(g, z3.And(DV(r) == A_ * dB + B_ * dA, REG(r) == both)))
        elif op == "/":     # lean: deriv_div
            p.assume(z3.Implies(g, z3.And(DV(r) == (B_ * dA - A_ * dB) / (B_ * B_), REG(r) == z3.And(both, B_ != 0))))
        elif op == "**":
            rc = K.is_kind(rr, "Constant")
            n = S.F("value", R)(rr)
            # constant exponent (lean: deriv_rpow_const) / general exponent (lean: deriv_rpow)
            p.assume(z3.Implies(z3.And(g, rc),
                                z3.And(DV(r) == z3.If(n == 0, sym.rv(0), n * powapp(sp, A_, n - 1) * dA),
                                       REG(r) == z3.And(REG(l), z3.Or(A_ != 0, n >= 1)))))
            p.assume(z3.Implies(z3.And(g, z3.Not(rc)),
                                z3.And(DV(r) == powapp(sp, A_, B_) * (dB * ufapp(sp, "log", A_) + B_ * dA / A_),
                                       REG(r) == z3.And(both, A_ > 0))))


@rule("dv", "UnaryOp")
def _(sp, r, w, E, PV):
    S, p = sp.S, sp.ip.path
    _, _, a = kids(sp, r)
    X, dX = S.DEN(a, E, PV), S.DV(a, w, E, PV)
    for op in ops_of(sp, r, UNARY_OPS):
        p.assume(z3.Implies(guard_op(sp, r, op),
                            z3.And(S.DV(r, w, E, PV) == unary_dv_rule(sp, op, X, dX),
                                   S.REG(r, w, E, PV) == z3.And(S.REG(a, w, E, PV), unary_regular(sp, op, X)))))


# ------------------------------------------------------------------------------------------- DOM
def unary_domain(sp: Spec, op: str, a):
    u = lambda name, x: ufapp(sp, name, x)
    return {
        "log": lambda: a > 0, "log2": lambda: a > 0, "log10": lambda: a > 0, "sqrt": lambda: a >= 0,
        "tan": lambda: u("cos", a) != 0, "asin": lambda: z3.And(a >= -1, a <= 1), "acos": lambda: z3.And(a >= -1, a <= 1),
        "acosh": lambda: a >= 1, "atanh": lambda: z3.And(a > -1, a < 1),
    }.get(op, lambda: z3.BoolVal(True))()


@rule("dom", "Constant", "Variable", "Parameter")
def _(sp, r, E, PV):
    sp.ip.path.assume(sp.S.DOM(r, E, PV))


@rule("dom", "BinaryOp")
def _(sp, r, E, PV):
    S, p = sp.S, sp.ip.path
    l, rr, _ = kids(sp, r)
    DOM = lambda x: S.DOM(x, E, PV)
    D = lambda x: S.DEN(x, E, PV)
    both = z3.And(DOM(l), DOM(rr))
    for op in ops_of(sp, r, BINARY_OPS):
        g = guard_op(sp, r, op)
        if op in ("+", "-", "*"):
            p.assume(z3.Implies(g, DOM(r) == both))
        elif op == "/":
            p.assume(z3.Implies(g, DOM(r) == z3.And(both, D(rr) != 0)))
        else:
            p.assume(z3.Implies(g, DOM(r) == z3.And(both, POWDOM(D(l), D(rr)))))


@rule("dom", "UnaryOp")
def _(sp, r, E, PV):
    S, p = sp.S, sp.ip.path
    _, _, a = kids(sp, r)
    for op in ops_of(sp, r, UNARY_OPS):
        p.assume(z3.Implies(guard_op(sp, r, op),
                            S.DOM(r, E, PV) == z3.And(S.DOM(a, E, PV), unary_domain(sp, op, S.DEN(a, E, PV)))))


# ------------------------------------------------------------------------------------------- OCC
@rule("occ", "Constant", "Parameter")
def _(sp, r, w):
    sp.ip.path.assume(z3.Not(sp.S.OCC(r, w)))


@rule("occ", "Variable")
def _(sp, r, w):
    sp.ip.path.assume(sp.S.OCC(r, w) == (sp.S.F("name", Name)(r) == w))


@rule("occ", "BinaryOp")
def _(sp, r, w):
    l, rr, _ = kids(sp, r)
    sp.ip.path.assume(sp.S.OCC(r, w) == z3.Or(sp.S.OCC(l, w), sp.S.OCC(rr, w)))


@rule("occ", "UnaryOp")
def _(sp, r, w):
    _, _, a = kids(sp, r)
    sp.ip.path.assume(sp.S.OCC(r, w) == sp.S.OCC(a, w))


# ------------------------------------------------------------------------------------------- structural degree bound
# lean: sdeg_sound — ISPOLY e /\ SDEG e = d  ->  den e is (the evaluation of) an MvPolynomial of totalDegree <= d
@rule("deg", "Constant")
def _(sp, r):
    sp.ip.path.assume(z3.And(sp.S.ISPOLY(r), sp.S.SDEG(r) == 0))            # totalDegree_C


@rule("deg", "Variable")
def _(sp, r):
    sp.ip.path.assume(z3.And(sp.S.ISPOLY(r), sp.S.SDEG(r) == 1))            # totalDegree_X


@rule("deg", "Parameter")
def _(sp, r):
    sp.ip.path.assume(z3.Not(sp.S.ISPOLY(r)))     # its value may change between solves: never a frozen number (C12/P3)


@rule("deg", "BinaryOp")
def _(sp, r):
    S, K, p = sp.S, sp.K, sp.ip.path
    P, G = S.ISPOLY, S.SDEG
    l, rr, _ = kids(sp, r)
    both = z3.And(P(l), P(rr))
    val = S.F("value", R)
    rc = K.is_kind(rr, "Constant")
    p.assume(z3.Implies(P(r), G(r) >= 0))
    for op in ops_of(sp, r, BINARY_OPS):
        g = guard_op(sp, r, op)
        if op in ("+", "-"):        # totalDegree_add / totalDegree_sub
            p.assume(z3.Implies(g, z3.And(P(r) == both, z3.Implies(both, G(r) == sym.zmax(G(l), G(rr))))))
        elif op == "*":             # totalDegree_mul
            p.assume(z3.Implies(g, z3.And(P(r) == both, z3.Implies(both, G(r) == G(l) + G(rr)))))
        elif op == "/":             # division by a non-zero Constant node: totalDegree_smul_le
            p.assume(z3.Implies(g, z3.And(P(r) == z3.And(P(l), rc, val(rr) != 0), z3.Implies(P(r), G(r) == G(l)))))
        else:                       # natural-number power: totalDegree_pow
            n = val(rr)
            natpow = z3.And(rc, z3.IsInt(n), n >= 0)
            p.assume(z3.Implies(g, z3.And(P(r) == z3.And(P(l), natpow),
                                          z3.Implies(P(r), sym.to_real(G(r)) == n * sym.to_real(G(l))))))
    p.assume(z3.Implies(P(l), G(l) >= 0))
    p.assume(z3.Implies(P(rr), G(rr) >= 0))


@rule("deg", "UnaryOp")
def _(sp, r):
    S, p = sp.S, sp.ip.path
    P, G = S.ISPOLY, S.SDEG
    _, _, a = kids(sp, r)
    p.assume(z3.Implies(P(a), G(a) >= 0))
    for op in ops_of(sp, r, UNARY_OPS):
        g = guard_op(sp, r, op)
        if op == "neg":             # totalDegree_neg
            p.assume(z3.Implies(g, z3.And(P(r) == P(a), z3.Implies(P(a), G(r) == G(a)))))
        else:                       # f(constant) is constant on its domain; anything else is not polynomial
            p.assume(z3.Implies(g, z3.And(P(r) == z3.And(P(a), G(a) == 0), z3.Implies(P(r), G(r) == 0))))


# ------------------------------------------------------------------------------------------- well-formed scalar trees
# WF(e): e is a scalar-valued expression as the public API builds them: not one of the two element-wise vector kinds,
# operators from the operator tables, children well formed.  It is a *precondition* vocabulary (what "scalar
# expression built through the public API" means), stated as an iff so that allocated results can be shown WF.
@rule("wf", "Constant", "Variable", "Parameter")
def _(sp, r):
    sp.ip.path.assume(WF(r))


@rule("wf", "ElementwisePower", "ElementwiseUnary")
def _(sp, r):
    sp.ip.path.assume(z3.Not(WF(r)))


@rule("wf", "BinaryOp")
def _(sp, r):
    l, rr, _ = kids(sp, r)
    opn = sp.S.F("op", Name)(r)
    okop = z3.BoolVal(True) if sp.S.known_op(sp.ip, r) in BINARY_OPS else z3.Or(*[opn == lit(o) for o in BINARY_OPS])
    sp.ip.path.assume(WF(r) == z3.And(WF(l), WF(rr), okop))


@rule("wf", "UnaryOp")
def _(sp, r):
    _, _, a = kids(sp, r)
    opn = sp.S.F("op", Name)(r)
    okop = z3.BoolVal(True) if sp.S.known_op(sp.ip, r) in UNARY_OPS else z3.Or(*[opn == lit(o) for o in UNARY_OPS])
    sp.ip.path.assume(WF(r) == z3.And(WF(a), okop))


# ------------------------------------------------------------------------------------------- no division by literal 0
@rule("nd0", "Constant", "Variable", "Parameter")
def _(sp, r):
    sp.ip.path.assume(NODIV0(r))


@rule("nd0", "BinaryOp")
def _(sp, r):
    l, rr, _ = kids(sp, r)
    op = sp.S.known_op(sp.ip, r)
    isdiv = (sp.S.F("op", Name)(r) == lit("/")) if op is None else z3.BoolVal(op == "/")
    sp.ip.path.assume(NODIV0(r) == z3.And(NODIV0(l), NODIV0(rr),
                                          z3.Implies(z3.And(isdiv, sp.K.is_kind(rr, "Constant")), sp.S.F("value", R)(rr) != 0)))


@rule("nd0", "UnaryOp")
def _(sp, r):
    _, _, a = kids(sp, r)
    sp.ip.path.assume(NODIV0(r) == NODIV0(a))


# ------------------------------------------------------------------------------------------- SYN: the LP-recognisable class
@rule("syn", "Constant", "Variable")
def _(sp, r):
    sp.ip.path.assume(SYN(r))


@rule("syn", "Parameter")
def _(sp, r):
    sp.ip.path.assume(z3.Not(SYN(r)))


@rule("syn", "BinaryOp")
def _(sp, r):
    S, K, p = sp.S, sp.K, sp.ip.path
    l, rr, _ = kids(sp, r)
    rc = K.is_kind(rr, "Constant")
    n = S.F("value", R)(rr)
    for op in ops_of(sp, r, BINARY_OPS):
        g = guard_op(sp, r, op)
        if op in ("+", "-", "*"):
            p.assume(z3.Implies(g, SYN(r) == z3.And(SYN(l), SYN(rr))))
        elif op == "/":
            p.assume(z3.Implies(g, SYN(r) == z3.And(SYN(l), rc)))
        else:
            # x**0 is the constant 1 whatever x is (the extraction routines never look into the base then)
            p.assume(z3.Implies(g, SYN(r) == z3.And(rc, z3.IsInt(n), n >= 0, z3.Or(n == 0, SYN(l)))))


@rule("syn", "UnaryOp")
def _(sp, r):
    _, _, a = kids(sp, r)
    for op in ops_of(sp, r, UNARY_OPS):
        sp.ip.path.assume(z3.Implies(guard_op(sp, r, op), SYN(r) == (SYN(a) if op == "neg" else z3.BoolVal(False))))


def install(registry):
    @registry.add_unfolder
    def _touch(schema, ip, o):
        return None
    registry.uf_hook = uf_facts
