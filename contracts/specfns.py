"""Spec functions over engine values and their unfolding tables (single source for the z3 side).

Every rule below has a Lean/Mathlib counterpart in spec/OptyxSpec.lean (name in the `lean=` comments); the z3 step
proves *code result = table formula*, Lean proves *table formula = mathematics*.  Entries without a finished Lean
proof are listed in TRUSTED_TABLE_ENTRIES and surface in every evidence file that uses them.
"""
from __future__ import annotations

import z3

from pyvc import sym
from pyvc.sym import Ref, Name, R, I, B, fn
from pyvc.spec import BINARY_OPS, UNARY_OPS, VEC_UNARY_OPS, Schema
from pyvc.values import Obj, Opaque, SReal, SInt, SSeq, Unsupported, real_term, num_term

TRUSTED_TABLE_ENTRIES: list[str] = []   # filled by contracts/lean_status.py after `./check setup`

UF = sym.UF
LN2 = UF["log"](sym.rv(2.0))
LN10 = UF["log"](sym.rv(10.0))


def lit(s):
    return sym.lit(s)


class Spec:
    """Helper bound to one interpreter (one path)."""

    def __init__(self, ip):
        self.ip = ip
        self.S: Schema = ip.schema
        self.K = ip.schema.kinds

    # ---- references
    def ref(self, v):
        r = self.ip.models.ref_of(self.ip, v)
        if r is None:
            raise Unsupported(f"spec function applied to non-object {v!r}")
        return r

    @property
    def E(self):
        return self.S.E

    @property
    def PV(self):
        return self.S.PV(self.ip)

    def kind_is(self, v, cls: str):
        return self.K.is_kind(self.ref(v), cls)

    # ---- scalar spec functions (each makes sure the unfolding instance for its argument exists)
    def den(self, v, E=None, PV=None):
        if isinstance(v, (int, float)):
            return sym.rv(v)
        if isinstance(v, SReal):
            return v.t
        if isinstance(v, SInt):
            return sym.to_real(v.t)
        E = self.E if E is None else E
        PV = self.PV if PV is None else PV
        r = self.ref(v)
        unfold_den(self, r, E, PV)
        return self.S.DEN(r, E, PV)

    def dv(self, v, w, E=None, PV=None):
        E = self.E if E is None else E
        PV = self.PV if PV is None else PV
        r = self.ref(v)
        unfold_dv(self, r, w, E, PV)
        return self.S.DV(r, w, E, PV)

    def reg(self, v, w, E=None, PV=None):
        E = self.E if E is None else E
        PV = self.PV if PV is None else PV
        r = self.ref(v)
        unfold_dv(self, r, w, E, PV)
        return self.S.REG(r, w, E, PV)

    def dom(self, v, E=None, PV=None):
        E = self.E if E is None else E
        PV = self.PV if PV is None else PV
        r = self.ref(v)
        unfold_dom(self, r, E, PV)
        return self.S.DOM(r, E, PV)

    def occ(self, v, w):
        r = self.ref(v)
        unfold_occ(self, r, w)
        return self.S.OCC(r, w)

    def ispoly(self, v):
        r = self.ref(v)
        unfold_deg(self, r)
        return self.S.ISPOLY(r)

    def sdeg(self, v):
        r = self.ref(v)
        unfold_deg(self, r)
        return self.S.SDEG(r)

    def value(self, v):
        return self.S.F("value", R)(self.ref(v))

    def name(self, v):
        if isinstance(v, str):
            return lit(v)
        return self.S.F("name", Name)(self.ref(v))

    def op(self, v):
        return self.S.F("op", Name)(self.ref(v))

    def child(self, v, field: str):
        return self.S.F(field, Ref)(self.ref(v))

    def is_const(self, v):
        return self.kind_is(v, "Constant")

    def is_zero(self, v):
        return z3.And(self.kind_is(v, "Constant"), self.value(v) == 0)

    def is_one(self, v):
        return z3.And(self.kind_is(v, "Constant"), self.value(v) == 1)

    def scalar_kind(self, v):
        """v is one of the scalar-valued expression kinds (everything except the two element-wise vector kinds)."""
        r = self.ref(v)
        return z3.And(z3.Not(self.K.is_kind(r, "ElementwisePower")), z3.Not(self.K.is_kind(r, "ElementwiseUnary")))


# ------------------------------------------------------------------------------------------- unfolding tables
def _once(sp: Spec, key: str) -> bool:
    u = sp.ip.path.unfolded
    if key in u:
        return False
    u.add(key)
    return True


def uf_facts(sp: Spec, opname: str, arg, res) -> None:
    """True facts about the real elementary functions, instantiated at the terms that occur (lean: uf_*)."""
    p = sp.ip.path
    if not _once(sp, f"uf:{opname}:{arg}"):
        return
    if opname == "sqrt":
        p.assume(z3.Implies(arg >= 0, z3.And(res >= 0, res * res == arg)))     # Real.sqrt_nonneg, Real.mul_self_sqrt
        p.assume(z3.Implies(arg > 0, res > 0))                                  # Real.sqrt_pos
    elif opname == "exp":
        p.assume(res > 0)                                                       # Real.exp_pos
    elif opname == "cosh":
        p.assume(res >= 1)                                                      # Real.one_le_cosh
    elif opname == "abs":
        pass


def ufapp(sp: Spec, opname: str, a):
    if opname == "neg":
        return -a
    if opname == "abs":
        return sym.zabs(a)
    t = UF[opname](a)
    uf_facts(sp, opname, a, t)
    return t


def powapp(sp: Spec, a, b):
    return sp.ip.models.pow_term(sp.ip, a, b)


def BIN_DEN(sp, op, a, b):
    return {"+": lambda: a + b, "-": lambda: a - b, "*": lambda: a * b, "/": lambda: a / b,
            "**": lambda: powapp(sp, a, b)}[op]()


def unfold_den(sp: Spec, r, E, PV) -> None:
    if not _once(sp, f"den:{r}:{E}:{PV}"):
        return
    S, K, p = sp.S, sp.K, sp.ip.path
    D = lambda x: S.DEN(x, E, PV)
    val = S.F("value", R)(r)
    nm = S.F("name", Name)(r)
    opn = S.F("op", Name)(r)
    l, rr, a = S.F("left", Ref)(r), S.F("right", Ref)(r), S.F("operand", Ref)(r)
    p.assume(z3.Implies(K.is_kind(r, "Constant"), D(r) == val))
    p.assume(z3.Implies(K.is_kind(r, "Variable"), D(r) == z3.Select(E, nm)))
    p.assume(z3.Implies(K.is_kind(r, "Parameter"), D(r) == z3.Select(PV, r)))
    isb = K.is_kind(r, "BinaryOp")
    for op in BINARY_OPS:
        p.assume(z3.Implies(z3.And(isb, opn == lit(op)), D(r) == BIN_DEN(sp, op, D(l), D(rr))))
    isu = K.is_kind(r, "UnaryOp")
    for op in UNARY_OPS:
        p.assume(z3.Implies(z3.And(isu, opn == lit(op)), D(r) == ufapp(sp, op, D(a))))
    for hook in VECTOR_DEN_HOOKS:
        hook(sp, r, E, PV)


VECTOR_DEN_HOOKS: list = []
VECTOR_DV_HOOKS: list = []
VECTOR_OCC_HOOKS: list = []
VECTOR_DEG_HOOKS: list = []
VECTOR_DOM_HOOKS: list = []


def unary_dv_rule(sp: Spec, op: str, a, da):
    """Calculus table: derivative of f(a) given a and da (lean: deriv_<op>)."""
    u = lambda name, x: ufapp(sp, name, x)
    return {
        "neg": lambda: -da,
        "abs": lambda: (a / sym.zabs(a)) * da,
        "sin": lambda: u("cos", a) * da,
        "cos": lambda: -u("sin", a) * da,
        "tan": lambda: da / (u("cos", a) * u("cos", a)),
        "exp": lambda: u("exp", a) * da,
        "log": lambda: da / a,
        "log2": lambda: da / (a * LN2),
        "log10": lambda: da / (a * LN10),
        "sqrt": lambda: da / (2 * u("sqrt", a)),
        "tanh": lambda: (1 - u("tanh", a) * u("tanh", a)) * da,
        "sinh": lambda: u("cosh", a) * da,
        "cosh": lambda: u("sinh", a) * da,
        "asin": lambda: da / u("sqrt", 1 - a * a),
        "acos": lambda: -(da / u("sqrt", 1 - a * a)),
        "atan": lambda: da / (1 + a * a),
        "asinh": lambda: da / u("sqrt", 1 + a * a),
        "acosh": lambda: da / u("sqrt", a * a - 1),
        "atanh": lambda: da / (1 - a * a),
    }[op]()


def unary_regular(sp: Spec, op: str, a):
    """Side condition under which the table entry is the derivative (= hypotheses of the Lean theorem)."""
    u = lambda name, x: ufapp(sp, name, x)
    return {
        "neg": lambda: z3.BoolVal(True), "abs": lambda: a != 0, "sin": lambda: z3.BoolVal(True),
        "cos": lambda: z3.BoolVal(True), "tan": lambda: u("cos", a) != 0, "exp": lambda: z3.BoolVal(True),
        "log": lambda: a > 0, "log2": lambda: a > 0, "log10": lambda: a > 0, "sqrt": lambda: a > 0,
        "tanh": lambda: z3.BoolVal(True), "sinh": lambda: z3.BoolVal(True), "cosh": lambda: z3.BoolVal(True),
        "asin": lambda: z3.And(a > -1, a < 1), "acos": lambda: z3.And(a > -1, a < 1), "atan": lambda: z3.BoolVal(True),
        "asinh": lambda: z3.BoolVal(True), "acosh": lambda: a > 1, "atanh": lambda: z3.And(a > -1, a < 1),
    }[op]()


def unfold_dv(sp: Spec, r, w, E, PV) -> None:
    if not _once(sp, f"dv:{r}:{w}:{E}:{PV}"):
        return
    unfold_den(sp, r, E, PV)
    S, K, p = sp.S, sp.K, sp.ip.path
    D = lambda x: S.DEN(x, E, PV)
    DV = lambda x: S.DV(x, w, E, PV)
    REG = lambda x: S.REG(x, w, E, PV)
    val = S.F("value", R)
    nm = S.F("name", Name)(r)
    opn = S.F("op", Name)(r)
    l, rr, a = S.F("left", Ref)(r), S.F("right", Ref)(r), S.F("operand", Ref)(r)
    p.assume(z3.Implies(K.is_kind(r, "Constant"), z3.And(DV(r) == 0, REG(r))))
    p.assume(z3.Implies(K.is_kind(r, "Parameter"), z3.And(DV(r) == 0, REG(r))))
    p.assume(z3.Implies(K.is_kind(r, "Variable"), z3.And(DV(r) == z3.If(nm == w, sym.rv(1), sym.rv(0)), REG(r))))
    isb = K.is_kind(r, "BinaryOp")
    A_, B_, dA, dB = D(l), D(rr), DV(l), DV(rr)
    both = z3.And(REG(l), REG(rr))
    # lean: deriv_add, deriv_sub, deriv_mul, deriv_div
    p.assume(z3.Implies(z3.And(isb, opn == lit("+")), z3.And(DV(r) == dA + dB, REG(r) == both)))
    p.assume(z3.Implies(z3.And(isb, opn == lit("-")), z3.And(DV(r) == dA - dB, REG(r) == both)))
    p.assume(z3.Implies(z3.And(isb, opn == lit("*")), z3.And(DV(r) == A_ * dB + B_ * dA, REG(r) == both)))
    p.assume(z3.Implies(z3.And(isb, opn == lit("/")),
                        z3.And(DV(r) == (B_ * dA - A_ * dB) / (B_ * B_), REG(r) == z3.And(both, B_ != 0))))
    # power: constant exponent (lean: deriv_rpow_const) / general exponent (lean: deriv_rpow)
    rc = K.is_kind(rr, "Constant")
    n = val(rr)
    ispow = z3.And(isb, opn == lit("**"))
    p.assume(z3.Implies(z3.And(ispow, rc),
                        z3.And(DV(r) == z3.If(n == 0, sym.rv(0), n * powapp(sp, A_, n - 1) * dA),
                               REG(r) == z3.And(REG(l), z3.Or(A_ != 0, n >= 1)))))
    p.assume(z3.Implies(z3.And(ispow, z3.Not(rc)),
                        z3.And(DV(r) == powapp(sp, A_, B_) * (dB * ufapp(sp, "log", A_) + B_ * dA / A_),
                               REG(r) == z3.And(both, A_ > 0))))
    isu = K.is_kind(r, "UnaryOp")
    X, dX = D(a), DV(a)
    for op in UNARY_OPS:
        p.assume(z3.Implies(z3.And(isu, opn == lit(op)),
                            z3.And(DV(r) == unary_dv_rule(sp, op, X, dX),
                                   REG(r) == z3.And(REG(a), unary_regular(sp, op, X)))))
    for hook in VECTOR_DV_HOOKS:
        hook(sp, r, w, E, PV)


def unary_domain(sp: Spec, op: str, a):
    u = lambda name, x: ufapp(sp, name, x)
    return {
        "log": lambda: a > 0, "log2": lambda: a > 0, "log10": lambda: a > 0, "sqrt": lambda: a >= 0,
        "tan": lambda: u("cos", a) != 0, "asin": lambda: z3.And(a >= -1, a <= 1), "acos": lambda: z3.And(a >= -1, a <= 1),
        "acosh": lambda: a >= 1, "atanh": lambda: z3.And(a > -1, a < 1),
    }.get(op, lambda: z3.BoolVal(True))()


POWDOM = fn("POWDOM", R, R, B)


def unfold_dom(sp: Spec, r, E, PV) -> None:
    if not _once(sp, f"dom:{r}:{E}:{PV}"):
        return
    unfold_den(sp, r, E, PV)
    S, K, p = sp.S, sp.K, sp.ip.path
    D = lambda x: S.DEN(x, E, PV)
    DOM = lambda x: S.DOM(x, E, PV)
    opn = S.F("op", Name)(r)
    l, rr, a = S.F("left", Ref)(r), S.F("right", Ref)(r), S.F("operand", Ref)(r)
    for leaf in ("Constant", "Variable", "Parameter"):
        p.assume(z3.Implies(K.is_kind(r, leaf), DOM(r)))
    isb = K.is_kind(r, "BinaryOp")
    both = z3.And(DOM(l), DOM(rr))
    for op in ("+", "-", "*"):
        p.assume(z3.Implies(z3.And(isb, opn == lit(op)), DOM(r) == both))
    p.assume(z3.Implies(z3.And(isb, opn == lit("/")), DOM(r) == z3.And(both, D(rr) != 0)))
    p.assume(z3.Implies(z3.And(isb, opn == lit("**")), DOM(r) == z3.And(both, POWDOM(D(l), D(rr)))))
    isu = K.is_kind(r, "UnaryOp")
    for op in UNARY_OPS:
        p.assume(z3.Implies(z3.And(isu, opn == lit(op)), DOM(r) == z3.And(DOM(a), unary_domain(sp, op, D(a)))))
    for hook in VECTOR_DOM_HOOKS:
        hook(sp, r, E, PV)


def unfold_occ(sp: Spec, r, w) -> None:
    if not _once(sp, f"occ:{r}:{w}"):
        return
    S, K, p = sp.S, sp.K, sp.ip.path
    OCC = lambda x: S.OCC(x, w)
    nm = S.F("name", Name)(r)
    l, rr, a = S.F("left", Ref)(r), S.F("right", Ref)(r), S.F("operand", Ref)(r)
    p.assume(z3.Implies(K.is_kind(r, "Constant"), z3.Not(OCC(r))))
    p.assume(z3.Implies(K.is_kind(r, "Parameter"), z3.Not(OCC(r))))
    p.assume(z3.Implies(K.is_kind(r, "Variable"), OCC(r) == (nm == w)))
    p.assume(z3.Implies(K.is_kind(r, "BinaryOp"), OCC(r) == z3.Or(OCC(l), OCC(rr))))
    p.assume(z3.Implies(K.is_kind(r, "UnaryOp"), OCC(r) == OCC(a)))
    for hook in VECTOR_OCC_HOOKS:
        hook(sp, r, w)


def unfold_deg(sp: Spec, r) -> None:
    """Structural degree bound (lean: sdeg_sound — ISPOLY e /\\ SDEG e = d  ->  den e is an MvPolynomial of totalDegree <= d)."""
    if not _once(sp, f"deg:{r}"):
        return
    S, K, p = sp.S, sp.K, sp.ip.path
    P, G = S.ISPOLY, S.SDEG
    val = S.F("value", R)
    opn = S.F("op", Name)(r)
    l, rr, a = S.F("left", Ref)(r), S.F("right", Ref)(r), S.F("operand", Ref)(r)
    p.assume(z3.Implies(P(r), G(r) >= 0))
    p.assume(z3.Implies(K.is_kind(r, "Constant"), z3.And(P(r), G(r) == 0)))          # totalDegree_C
    p.assume(z3.Implies(K.is_kind(r, "Variable"), z3.And(P(r), G(r) == 1)))          # totalDegree_X
    p.assume(z3.Implies(K.is_kind(r, "Parameter"), z3.Not(P(r))))                    # value may change: never frozen (C12/P3)
    isb = K.is_kind(r, "BinaryOp")
    both = z3.And(P(l), P(rr))
    for op in ("+", "-"):                                                            # totalDegree_add / _sub
        p.assume(z3.Implies(z3.And(isb, opn == lit(op)),
                            z3.And(P(r) == both, z3.Implies(both, G(r) == sym.zmax(G(l), G(rr))))))
    p.assume(z3.Implies(z3.And(isb, opn == lit("*")),                                # totalDegree_mul
                        z3.And(P(r) == both, z3.Implies(both, G(r) == G(l) + G(rr)))))
    # division by a non-zero constant polynomial (degree-0 *Constant node*)            totalDegree_smul_le
    rc = K.is_kind(rr, "Constant")
    p.assume(z3.Implies(z3.And(isb, opn == lit("/")),
                        z3.And(P(r) == z3.And(P(l), rc, val(rr) != 0), z3.Implies(P(r), G(r) == G(l)))))
    # natural-number power                                                            totalDegree_pow
    n = val(rr)
    natpow = z3.And(rc, z3.IsInt(n), n >= 0)
    p.assume(z3.Implies(z3.And(isb, opn == lit("**")),
                        z3.And(P(r) == z3.And(P(l), natpow), z3.Implies(P(r), sym.to_real(G(r)) == n * sym.to_real(G(l))))))
    isu = K.is_kind(r, "UnaryOp")
    p.assume(z3.Implies(z3.And(isu, opn == lit("neg")), z3.And(P(r) == P(a), z3.Implies(P(a), G(r) == G(a)))))   # totalDegree_neg
    # f(constant) is constant on its domain; anything else under an elementary function is not polynomial
    p.assume(z3.Implies(z3.And(isu, opn != lit("neg")),
                        z3.And(P(r) == z3.And(P(a), G(a) == 0), z3.Implies(P(r), G(r) == 0))))
    for hook in VECTOR_DEG_HOOKS:
        hook(sp, r)


def install(registry):
    """Unfolding is demand-driven from the spec functions; the per-ref `touch` hook only states object invariants."""
    @registry.add_unfolder
    def _touch(schema, ip, o):
        return None
