import Mathlib

open Real

-- product rule in the exact shape the code emits: a*db + b*da
theorem d_mul (f g : ℝ → ℝ) (f' g' x : ℝ)
    (hf : HasDerivAt f f' x) (hg : HasDerivAt g g' x) :
    HasDerivAt (fun y => f y * g y) (f x * g' + g x * f') x := by
  have h := hf.mul hg
  have e : f x * g' + g x * f' = f' * g x + f x * g' := by ring
  rw [e]; exact h

theorem d_div (f g : ℝ → ℝ) (f' g' x : ℝ)
    (hf : HasDerivAt f f' x) (hg : HasDerivAt g g' x) (hx : g x ≠ 0) :
    HasDerivAt (fun y => f y / g y) ((g x * f' - f x * g') / (g x * g x)) x := by
  have h := hf.div hg hx
  have e : (g x * f' - f x * g') / (g x * g x) = (f' * g x - f x * g') / (g x)^2 := by ring
  rw [e]; exact h

theorem d_sin (f : ℝ → ℝ) (f' x : ℝ) (hf : HasDerivAt f f' x) :
    HasDerivAt (fun y => Real.sin (f y)) (Real.cos (f x) * f') x := hf.sin

theorem d_tan (f : ℝ → ℝ) (f' x : ℝ) (hf : HasDerivAt f f' x) (h : Real.cos (f x) ≠ 0) :
    HasDerivAt (fun y => Real.tan (f y)) (1 / (Real.cos (f x) * Real.cos (f x)) * f') x := by
  have h1 := (Real.hasDerivAt_tan h).comp x hf
  have e : 1 / (Real.cos (f x) * Real.cos (f x)) * f' = 1 / Real.cos (f x) ^ 2 * f' := by ring
  rw [e]; exact h1

-- degree closure
open MvPolynomial in
theorem deg_add (σ : Type) (p q : MvPolynomial σ ℝ) :
    (p + q).totalDegree ≤ max p.totalDegree q.totalDegree := totalDegree_add p q

open MvPolynomial in
theorem deg_mul (σ : Type) (p q : MvPolynomial σ ℝ) :
    (p * q).totalDegree ≤ p.totalDegree + q.totalDegree := totalDegree_mul p q

open MvPolynomial in
theorem deg_pow (σ : Type) (p : MvPolynomial σ ℝ) (n : ℕ) :
    (p ^ n).totalDegree ≤ n * p.totalDegree := totalDegree_pow p n
