"""Build real optyx objects from JSON recipes (public constructors only) and generate seeded pools of small inputs."""
from __future__ import annotations

import random

import numpy as np


def build(rc):
    from optyx.core.expressions import Constant, Variable, BinaryOp, UnaryOp
    from optyx.core.parameters import Parameter
    from optyx.core import vectors as V
    from optyx.core import matrices as Mx
    if rc is None or isinstance(rc, (int, float, str, bool)):
        return rc
    if isinstance(rc, list):
        return [build(x) for x in rc]
    cls = rc["cls"]
    if cls == "Constant":
        return Constant(rc["value"])
    if cls == "Variable":
        return _var(rc)
    if cls == "Parameter":
        return Parameter(rc["name"], rc.get("value", 0.0))
    if cls == "BinaryOp":
        return BinaryOp(build(rc["left"]), build(rc["right"]), rc["op"])
    if cls == "UnaryOp":
        return UnaryOp(build(rc["operand"]), rc["op"])
    if cls == "Affine":      # coef * Variable(var) + const  (witness for "degree 1, value and gradient prescribed")
        return Constant(rc["coef"]) * _var({"name": rc["var"]}) + Constant(rc["const"])
    if cls == "VectorVariable":
        vs = [build(v) for v in rc["vars"]]
        return V.VectorVariable._from_variables(rc.get("name", "vv"), vs)
    if cls == "VectorExpression":
        return V.VectorExpression([build(x) for x in rc["exprs"]])
    if cls == "VectorSum":
        return V.VectorSum(build(rc["vector"]))
    if cls == "VectorExpressionSum":
        return V.VectorExpressionSum(build(rc["expression"]))
    if cls == "DotProduct":
        return V.DotProduct(build(rc["left"]), build(rc["right"]))
    if cls == "L2Norm":
        return V.L2Norm(build(rc["vector"]))
    if cls == "L1Norm":
        return V.L1Norm(build(rc["vector"]))
    if cls == "LinearCombination":
        return V.LinearCombination(np.asarray(rc["coefficients"], dtype=float), build(rc["vector"]))
    if cls == "VectorPowerSum":
        return V.VectorPowerSum(build(rc["vector"]), rc["power"])
    if cls == "VectorUnarySum":
        return V.VectorUnarySum(build(rc["vector"]), rc["op"])
    if cls == "ElementwisePower":
        return V.ElementwisePower(build(rc["vector"]), rc["power"])
    if cls == "ElementwiseUnary":
        return V.ElementwiseUnary(build(rc["vector"]), rc["op"])
    if cls == "QuadraticForm":
        return Mx.QuadraticForm(build(rc["vector"]), np.asarray(rc["matrix"], dtype=float))
    if cls == "py":           # python expression over the public API (used by hand-written known-finding recipes)
        import optyx
        ns = {"np": np, "optyx": optyx}
        ns.update({k: getattr(optyx, k) for k in dir(optyx) if not k.startswith("_")})
        exec(rc.get("setup", ""), ns)
        return eval(rc["expr"], ns)
    raise ValueError(f"unknown recipe class {cls}")


_vars: dict = {}


def _var(rc):
    from optyx.core.expressions import Variable
    key = (rc["name"], rc.get("lb"), rc.get("ub"), rc.get("domain", "continuous"))
    if key not in _vars:
        _vars[key] = Variable(rc["name"], lb=rc.get("lb"), ub=rc.get("ub"), domain=rc.get("domain", "continuous"))
    return _vars[key]


# ----------------------------------------------------------------------------------------------- pools
UNARY = ["neg", "abs", "sin", "cos", "tan", "exp", "log", "log2", "log10", "sqrt", "tanh", "sinh", "cosh", "asin", "acos",
         "atan", "asinh", "acosh", "atanh"]
VUNARY = ["sin", "cos", "tan", "exp", "log", "abs", "sqrt", "sinh", "cosh", "tanh"]


def rand_scalar(rng: random.Random, depth: int, names=("x", "y", "z")):
    if depth <= 0 or rng.random() < 0.25:
        r = rng.random()
        if r < 0.45:
            return {"cls": "Variable", "name": rng.choice(names)}
        if r < 0.9:
            return {"cls": "Constant", "value": rng.choice([0.0, 1.0, 2.0, -1.0, 0.5, 3.0, 2.5])}
        return {"cls": "Parameter", "name": "p", "value": 1.5}
    r = rng.random()
    if r < 0.6:
        op = rng.choice(["+", "-", "*", "/", "**"])
        right = rand_scalar(rng, depth - 1, names)
        if op == "**" and rng.random() < 0.7:
            right = {"cls": "Constant", "value": rng.choice([0.0, 1.0, 2.0, 3.0, 0.5, -1.0])}
        return {"cls": "BinaryOp", "left": rand_scalar(rng, depth - 1, names), "right": right, "op": op}
    if r < 0.85:
        return {"cls": "UnaryOp", "operand": rand_scalar(rng, depth - 1, names), "op": rng.choice(UNARY)}
    return rand_vector_node(rng, depth - 1)


def rand_vecvar(rng: random.Random, base="v", n=None, view=True):
    n = n or rng.randint(1, 4)
    idx = list(range(n + rng.randint(0, 2)))
    if view and rng.random() < 0.5:
        rng.shuffle(idx)
    idx = idx[:n]
    return {"cls": "VectorVariable", "name": base, "vars": [{"cls": "Variable", "name": f"{base}[{i}]"} for i in idx]}


def rand_vecexpr(rng: random.Random, depth: int, n=None):
    n = n or rng.randint(1, 3)
    names = tuple(f"v[{i}]" for i in range(4)) + ("x",)
    return {"cls": "VectorExpression", "exprs": [rand_scalar(rng, depth, names) for _ in range(n)]}


def rand_vector_node(rng: random.Random, depth: int):
    kind = rng.choice(["VectorSum", "VectorExpressionSum", "DotProduct", "L2Norm", "L1Norm", "LinearCombination",
                       "VectorPowerSum", "VectorUnarySum", "QuadraticForm"])
    n = rng.randint(1, 3)
    vec = lambda: rand_vecvar(rng, "v", n) if rng.random() < 0.6 else rand_vecexpr(rng, max(depth, 0), n)
    if kind == "VectorSum":
        return {"cls": kind, "vector": rand_vecvar(rng, "v", n)}
    if kind == "VectorExpressionSum":
        return {"cls": kind, "expression": rand_vecexpr(rng, max(depth, 0), n)}
    if kind == "DotProduct":
        return {"cls": kind, "left": vec(), "right": vec()}
    if kind in ("L2Norm", "L1Norm"):
        return {"cls": kind, "vector": vec()}
    if kind == "LinearCombination":
        return {"cls": kind, "coefficients": [rng.choice([0.0, 1.0, -2.0, 0.5, 3.0]) for _ in range(n)], "vector": vec()}
    if kind == "VectorPowerSum":
        return {"cls": kind, "vector": rand_vecvar(rng, "v", n), "power": rng.choice([1, 2, 3, 0.5, -1.0, 0])}
    if kind == "VectorUnarySum":
        return {"cls": kind, "vector": rand_vecvar(rng, "v", n), "op": rng.choice(VUNARY)}
    Q = [[rng.choice([0.0, 1.0, 2.0, -1.0]) for _ in range(n)] for _ in range(n)]
    return {"cls": "QuadraticForm", "vector": vec(), "matrix": Q}


def rand_env(rng: random.Random):
    env = {n: rng.choice([0.3, 0.7, 1.3, 2.1, -0.6, -1.7]) for n in ("x", "y", "z", "u")}
    for i in range(8):
        env[f"v[{i}]"] = rng.choice([0.4, 0.9, 1.6, -0.8, -1.3, 2.2])
        env[f"w[{i}]"] = rng.choice([0.4, 0.9, 1.6, -0.8, -1.3, 2.2])
    return env


def rand_linear(rng: random.Random, depth: int, names=("x", "y", "v[0]", "v[1]", "v[2]")):
    """Random expression of the LP-recognisable class with degree <= 1 (includes the shapes the extraction arms differ on)."""
    def const():
        r = rng.random()
        if r < 0.6:
            return {"cls": "Constant", "value": rng.choice([0.0, 1.0, 2.0, -3.0, 0.5, 5.0])}
        if r < 0.8:     # degree 0 but not a Constant node
            return {"cls": "BinaryOp", "left": {"cls": "Constant", "value": rng.choice([2.0, -1.0])},
                    "right": {"cls": "Constant", "value": rng.choice([3.0, 0.5])}, "op": rng.choice(["+", "*", "-"])}
        return {"cls": "BinaryOp", "left": const(), "right": {"cls": "Constant", "value": float(rng.choice([0, 1, 2]))}, "op": "**"}
    if depth <= 0 or rng.random() < 0.2:
        return {"cls": "Variable", "name": rng.choice(names)} if rng.random() < 0.6 else const()
    r = rng.random()
    if r < 0.35:
        return {"cls": "BinaryOp", "left": rand_linear(rng, depth - 1, names), "right": rand_linear(rng, depth - 1, names),
                "op": rng.choice(["+", "-"])}
    if r < 0.55:
        a, b = const(), rand_linear(rng, depth - 1, names)
        if rng.random() < 0.5:
            a, b = b, a
        return {"cls": "BinaryOp", "left": a, "right": b, "op": "*"}
    if r < 0.65:
        return {"cls": "BinaryOp", "left": rand_linear(rng, depth - 1, names), "right": {"cls": "Constant", "value": rng.choice([2.0, -4.0, 0.5])}, "op": "/"}
    if r < 0.75:
        return {"cls": "BinaryOp", "left": rand_linear(rng, depth - 1, names), "right": {"cls": "Constant", "value": rng.choice([1.0, 0.0, 1])}, "op": "**"}
    if r < 0.82:
        return {"cls": "UnaryOp", "operand": rand_linear(rng, depth - 1, names), "op": "neg"}
    n = rng.randint(1, 3)
    if r < 0.9:
        return {"cls": "VectorSum", "vector": rand_vecvar(rng, "v", n)}
    vec = rand_vecvar(rng, "v", n) if rng.random() < 0.5 else {"cls": "VectorExpression", "exprs": [rand_linear(rng, depth - 1, names) for _ in range(n)]}
    return {"cls": "LinearCombination", "coefficients": [rng.choice([1.0, -2.0, 0.5, 3.0]) for _ in range(n)], "vector": vec}
