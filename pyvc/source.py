"""Loader for the real optyx source: re-parses <repo>/src/optyx/**/*.py on every run.

Nothing is copied or rewritten; the tables below only index the `ast` nodes of the real files.
What the extraction drops: type annotations, docstrings, `if TYPE_CHECKING:` blocks, `__repr__`
bodies (never executed by the verifier).
"""
from __future__ import annotations

import ast
import hashlib
import os
from dataclasses import dataclass, field


@dataclass
class FuncInfo:
    module: str
    qualname: str            # e.g. "BinaryOp.evaluate" or "_register_vector_gradient_rules.gradient_dot_product"
    node: ast.AST            # FunctionDef | Lambda
    cls: str | None = None   # owning class name if a method
    decorators: list[str] = field(default_factory=list)
    file: str = ""

    @property
    def key(self) -> str:
        return f"{self.module}:{self.qualname}"

    @property
    def name(self) -> str:
        return self.qualname.rsplit(".", 1)[-1]


@dataclass
class ClassInfo:
    module: str
    name: str
    node: ast.ClassDef
    bases: list[str]
    slots: list[str]
    methods: dict[str, FuncInfo]
    class_attrs: dict[str, ast.AST]    # name -> value node (e.g. _OPS dict)
    decorators: list[str]
    fields_annot: list[tuple[str, ast.AST | None]]  # dataclass-style annotated fields with defaults


@dataclass
class ModuleInfo:
    name: str
    file: str
    tree: ast.Module
    functions: dict[str, FuncInfo]
    classes: dict[str, ClassInfo]
    constants: dict[str, ast.AST]       # module-level simple assignments
    imports: dict[str, tuple[str, str | None]]  # local name -> (module, attr or None)


class Source:
    def __init__(self, repo: str):
        self.repo = repo
        self.root = os.path.join(repo, "src", "optyx")
        self.modules: dict[str, ModuleInfo] = {}
        self.classes: dict[str, ClassInfo] = {}     # by simple class name (unique in optyx)
        self.funcs: dict[str, FuncInfo] = {}        # by key module:qualname
        self.digest = hashlib.sha256()
        self._load()

    # ------------------------------------------------------------------ loading
    def _load(self) -> None:
        for dirpath, _dirs, files in sorted(os.walk(self.root)):
            for fn in sorted(files):
                if not fn.endswith(".py"):
                    continue
                path = os.path.join(dirpath, fn)
                rel = os.path.relpath(path, os.path.join(self.repo, "src"))
                mod = rel[:-3].replace(os.sep, ".")
                if mod.endswith(".__init__"):
                    mod = mod[: -len(".__init__")]
                text = open(path, encoding="utf-8").read()
                self.digest.update(rel.encode() + b"\0" + text.encode())
                tree = ast.parse(text, filename=path)
                self.modules[mod] = self._index_module(mod, path, tree)

    def _index_module(self, mod: str, path: str, tree: ast.Module) -> ModuleInfo:
        mi = ModuleInfo(mod, path, tree, {}, {}, {}, {})
        for st in tree.body:
            self._index_stmt(mi, st)
        return mi

    def _index_stmt(self, mi: ModuleInfo, st: ast.stmt) -> None:
        if isinstance(st, ast.FunctionDef):
            self._index_function(mi, st, prefix="", cls=None)
        elif isinstance(st, ast.ClassDef):
            self._index_class(mi, st)
        elif isinstance(st, ast.Assign) and len(st.targets) == 1 and isinstance(st.targets[0], ast.Name):
            mi.constants[st.targets[0].id] = st.value
        elif isinstance(st, ast.AnnAssign) and isinstance(st.target, ast.Name) and st.value is not None:
            mi.constants[st.target.id] = st.value
        elif isinstance(st, ast.ImportFrom) and st.module:
            for a in st.names:
                mi.imports[a.asname or a.name] = (st.module, a.name)
        elif isinstance(st, ast.Import):
            for a in st.names:
                mi.imports[a.asname or a.name.split(".")[0]] = (a.name, None)
        elif isinstance(st, ast.If):
            # `if TYPE_CHECKING:` is dropped; any other module-level `if` is indexed on both arms
            test = ast.unparse(st.test)
            if test == "TYPE_CHECKING":
                for s in st.orelse:
                    self._index_stmt(mi, s)
            else:
                for s in st.body + st.orelse:
                    self._index_stmt(mi, s)

    def _index_function(self, mi: ModuleInfo, node: ast.FunctionDef, prefix: str, cls: str | None) -> FuncInfo:
        qn = prefix + node.name
        fi = FuncInfo(mi.name, qn, node, cls, [ast.unparse(d) for d in node.decorator_list], mi.file)
        mi.functions[qn] = fi
        self.funcs[fi.key] = fi
        # nested defs (e.g. the registered gradient rules, closures returned by compile_*)
        for sub in ast.walk(node):
            if sub is node:
                continue
            if isinstance(sub, ast.FunctionDef) and self._direct_parent_func(node, sub):
                self._index_function(mi, sub, prefix=qn + ".", cls=None)
        return fi

    @staticmethod
    def _direct_parent_func(parent: ast.FunctionDef, sub: ast.FunctionDef) -> bool:
        """True if `sub` is nested in `parent` with no other FunctionDef in between."""
        def search(n, depth_ok=True):
            for ch in ast.iter_child_nodes(n):
                if ch is sub:
                    return True
                if isinstance(ch, (ast.FunctionDef, ast.Lambda, ast.ClassDef)):
                    continue
                if search(ch):
                    return True
            return False
        return search(parent)

    def _index_class(self, mi: ModuleInfo, node: ast.ClassDef) -> None:
        bases = [ast.unparse(b).split(".")[-1] for b in node.bases]
        slots: list[str] = []
        methods: dict[str, FuncInfo] = {}
        attrs: dict[str, ast.AST] = {}
        annot: list[tuple[str, ast.AST | None]] = []
        for st in node.body:
            if isinstance(st, ast.FunctionDef):
                decos = [ast.unparse(d) for d in st.decorator_list]
                if "overload" in decos:
                    continue
                fi = self._index_function(mi, st, prefix=node.name + ".", cls=node.name)
                # property setters etc. are not used in optyx; keep the last definition
                methods[st.name] = fi
            elif isinstance(st, ast.Assign) and len(st.targets) == 1 and isinstance(st.targets[0], ast.Name):
                nm = st.targets[0].id
                if nm == "__slots__":
                    try:
                        v = ast.literal_eval(st.value)
                        slots = [v] if isinstance(v, str) else list(v)
                    except Exception:
                        slots = []
                else:
                    attrs[nm] = st.value
            elif isinstance(st, ast.AnnAssign) and isinstance(st.target, ast.Name):
                if st.value is not None:
                    attrs[st.target.id] = st.value
                annot.append((st.target.id, st.value))
        ci = ClassInfo(mi.name, node.name, node, bases, slots, methods, attrs,
                       [ast.unparse(d) for d in node.decorator_list], annot)
        mi.classes[node.name] = ci
        self.classes[node.name] = ci

    # ------------------------------------------------------------------ queries
    def mro(self, cls: str) -> list[str]:
        out, seen = [], set()
        work = [cls]
        while work:
            c = work.pop(0)
            if c in seen or c not in self.classes:
                continue
            seen.add(c)
            out.append(c)
            work.extend(self.classes[c].bases)
        return out

    def is_subclass(self, cls: str, base: str) -> bool:
        return base in self.mro(cls) or (base == "object")

    def subclasses(self, base: str) -> list[str]:
        return [c for c in self.classes if self.is_subclass(c, base)]

    def find_method(self, cls: str, name: str) -> FuncInfo | None:
        for c in self.mro(cls):
            m = self.classes[c].methods.get(name)
            if m is not None:
                return m
        return None

    def find_class_attr(self, cls: str, name: str):
        for c in self.mro(cls):
            if name in self.classes[c].class_attrs:
                return c, self.classes[c].class_attrs[name]
        return None

    def all_slots(self, cls: str) -> list[str]:
        out: list[str] = []
        for c in reversed(self.mro(cls)):
            out += self.classes[c].slots
        return out

    def expression_kinds(self) -> list[str]:
        """Concrete Expression subclasses (the 'kinds' of the spec)."""
        return [c for c in self.classes if self.is_subclass(c, "Expression") and c != "Expression"]

    def func(self, key: str) -> FuncInfo:
        return self.funcs[key]

    def resolve_name(self, module: str, name: str):
        """Resolve a global name used in `module` to ('func'|'class'|'const'|'module'|'ext', payload)."""
        mi = self.modules[module]
        if name in mi.functions:
            return ("func", mi.functions[name])
        if name in mi.classes:
            return ("class", mi.classes[name])
        if name in mi.constants:
            return ("const", (module, mi.constants[name]))
        if name in mi.imports:
            m, a = mi.imports[name]
            if m in self.modules or m.startswith("optyx"):
                if a is None:
                    return ("module", m)
                if m in self.modules:
                    return self.resolve_name(m, a) if (a in self.modules[m].functions or a in self.modules[m].classes
                                                       or a in self.modules[m].constants or a in self.modules[m].imports) else ("ext", (m, a))
            return ("ext", (m, a))
        return None

    # immutability scan (assumption A5): stores to node fields outside constructors
    def field_stores_outside_init(self, fields: set[str]) -> list[str]:
        bad = []
        for fi in self.funcs.values():
            if fi.name in ("__init__", "__post_init__", "_from_variables", "_transpose_view"):
                continue
            for n in ast.walk(fi.node):
                tgts = []
                if isinstance(n, ast.Assign):
                    tgts = n.targets
                elif isinstance(n, (ast.AugAssign, ast.AnnAssign)):
                    tgts = [n.target]
                for t in tgts:
                    if isinstance(t, ast.Attribute) and t.attr in fields:
                        bad.append(f"{fi.key}:{getattr(n, 'lineno', 0)} stores .{t.attr}")
        return bad
