"""Engine-side values of the symbolic executor.

Concrete Python scalars (int, float, str, bool, None) and tuples of engine values are used as
they are.  Everything else is one of the classes below.
"""
from __future__ import annotations

import ast
from typing import Any, Callable

import z3

from . import sym


class Unsupported(Exception):
    """A construct outside the supported subset: the function is out of reach (exit 2)."""


class Infeasible(Exception):
    """Current path condition is unsatisfiable; the path is dropped."""


class SReal:
    """Symbolic number.  pytype: 'int' | 'float' | 'npfloat' | 'npint' | 'bool' | 'num' (unknown numeric type)."""
    __slots__ = ("t", "pytype")

    def __init__(self, t, pytype: str = "float"):
        self.t = t
        self.pytype = pytype

    def __repr__(self):
        return f"SReal({self.t})"


class SInt:
    """Symbolic Python int backed by a z3 Int (lengths, indices, degrees)."""
    __slots__ = ("t",)

    def __init__(self, t):
        self.t = t

    def __repr__(self):
        return f"SInt({self.t})"


class SBool:
    __slots__ = ("t",)

    def __init__(self, t):
        self.t = t

    def __repr__(self):
        return f"SBool({self.t})"


class SName:
    """Symbolic string (sort Name): only ==, !=, hashing as dict/set key."""
    __slots__ = ("t",)

    def __init__(self, t):
        self.t = t

    def __repr__(self):
        return f"SName({self.t})"


class SStrOpaque:
    """A string whose content the engine does not track (f-strings, repr, str(e)); `parts` keeps the
    pieces so that contracts can ask e.g. which names were joined into a warning text."""
    __slots__ = ("parts",)

    def __init__(self, parts=()):
        self.parts = tuple(parts)

    def __repr__(self):
        return f"SStrOpaque({self.parts!r})"


class SOpt:
    """Optional value: None when `isnone` holds, else `val`."""
    __slots__ = ("isnone", "val")

    def __init__(self, isnone, val):
        self.isnone = isnone
        self.val = val

    def __repr__(self):
        return f"SOpt({self.isnone}, {self.val})"


_oid = [0]


class Obj:
    """Object allocated on the current path: class and fields are known."""
    __slots__ = ("cls", "fields", "oid", "ref", "frozen")

    def __init__(self, cls: str, fields: dict | None = None):
        self.cls = cls
        self.fields = fields if fields is not None else {}
        _oid[0] += 1
        self.oid = _oid[0]
        self.ref = None      # z3 Ref once materialised
        self.frozen = False

    def __repr__(self):
        return f"<{self.cls}#{self.oid} {list(self.fields)}>"


class Opaque:
    """Pre-existing object known only through its z3 Ref.  `cls` is a static upper bound on its class
    (e.g. 'Expression'); `known` holds field values fixed by the spec case (e.g. op='*')."""
    __slots__ = ("ref", "cls", "known", "exact")

    def __init__(self, ref, cls: str, known: dict | None = None, exact: bool = False):
        self.ref = ref
        self.cls = cls
        self.known = known or {}
        self.exact = exact      # True: class is exactly `cls`

    def __repr__(self):
        return f"Opaque({self.ref}:{self.cls})"


class SSeq:
    """Immutable symbolic sequence (list/tuple/1-D array view) of length `n` (python int or z3 Int term).
    get(k) returns the engine value at index term k (k: python int or z3 Int)."""
    __slots__ = ("n", "_get", "memo", "kind", "elem_desc", "tag", "elem_tuple", "elem_rowlen")

    def __init__(self, n, get: Callable[[Any], Any], kind: str = "list", elem_desc: str = "", tag=None):
        self.elem_tuple = None      # arity of the elements when they are tuples (declared by the creator, never probed)
        self.elem_rowlen = None     # length of the elements when they are 1-D arrays (declared by the creator)
        self.n = n
        self._get = get
        self.memo: dict[str, Any] = {}
        self.kind = kind            # 'list' | 'tuple' | 'ndarray'
        self.elem_desc = elem_desc
        self.tag = tag

    def get(self, k):
        key = str(k)
        if key not in self.memo:
            self.memo[key] = self._get(k)
        return self.memo[key]

    def __repr__(self):
        return f"SSeq(n={self.n},{self.kind},{self.elem_desc})"


class PList:
    """Concrete-length mutable Python list of engine values (path-local)."""
    __slots__ = ("items", "oid")

    def __init__(self, items=None):
        self.items = list(items or [])
        _oid[0] += 1
        self.oid = _oid[0]

    def __repr__(self):
        return f"PList({self.items!r})"


class PDict:
    """Concrete-key mutable dict (keys: python hashables or ('name', z3 term str))."""
    __slots__ = ("items", "oid")

    def __init__(self, items=None):
        self.items = dict(items or {})
        _oid[0] += 1
        self.oid = _oid[0]

    def __repr__(self):
        return f"PDict({list(self.items)!r})"


class SArr:
    """NumPy array of reals, 1-D (`n`) or 2-D (`shape`), contents a z3 Array term (functional updates).
    envlink = (IDX array Name->Int, ENV array Name->Real): this array is the point x with x[IDX[name]] = ENV[name]."""
    __slots__ = ("arr", "n", "shape", "oid", "envlink")

    def __init__(self, arr, n=None, shape=None, envlink=None):
        self.arr = arr
        self.n = n
        self.shape = shape
        self.envlink = envlink
        _oid[0] += 1
        self.oid = _oid[0]

    def __repr__(self):
        return f"SArr(n={self.n},shape={self.shape})"


class HeapList:
    """Mutable list of object references stored in a field of an opaque object (component heap)."""
    __slots__ = ("owner", "field", "elem_cls")

    def __init__(self, owner, field, elem_cls):
        self.owner = owner
        self.field = field
        self.elem_cls = elem_cls

    def __repr__(self):
        return f"HeapList({self.owner}.{self.field})"


class SMap:
    """Symbolic dict name -> int/real given by an indomain predicate and a lookup function."""
    __slots__ = ("indom", "lookup", "desc", "idx")

    def __init__(self, indom: Callable[[Any], Any], lookup: Callable[[Any], Any], desc=""):
        self.indom = indom
        self.lookup = lookup
        self.desc = desc
        self.idx = None

    def __repr__(self):
        return f"SMap({self.desc})"


class GList:
    """List being built by appends inside a symbolic loop: a specified prefix (sequence view) plus the items appended
    on the current path since the loop head."""
    __slots__ = ("prefix", "appended", "oid")

    def __init__(self, prefix, appended=None):
        self.prefix = prefix
        self.appended = list(appended or [])
        _oid[0] += 1
        self.oid = _oid[0]

    def __repr__(self):
        return f"GList(prefix n={self.prefix.n}, +{len(self.appended)})"


class Poison:
    """A local variable the enclosing loop keeps rebinding, as seen by a closure that is called later."""
    __slots__ = ("name",)

    def __init__(self, name):
        self.name = name


class SDict:
    """Mutable dict with symbolic string keys and real values: key set and value map as z3 arrays (functional updates)."""
    __slots__ = ("keys", "vals", "oid")

    def __init__(self, keys, vals):
        self.keys = keys      # Array Name -> Bool
        self.vals = vals      # Array Name -> Real
        _oid[0] += 1
        self.oid = _oid[0]

    def __repr__(self):
        return "SDict"


class SSet:
    """Set of Variables (keyed by name) given by its membership predicate over Name terms."""
    __slots__ = ("member", "desc")

    def __init__(self, member: Callable[[Any], Any], desc=""):
        self.member = member
        self.desc = desc

    def __repr__(self):
        return f"SSet({self.desc})"


class Closure:
    """lambda / nested def: real AST + captured frame; defaults evaluated at creation."""
    __slots__ = ("node", "frame", "defaults", "kwdefaults", "qualname", "finfo")

    def __init__(self, node, frame, defaults, kwdefaults=None, qualname="<lambda>", finfo=None):
        self.node = node
        self.frame = frame
        self.defaults = defaults
        self.kwdefaults = kwdefaults or {}
        self.qualname = qualname
        self.finfo = finfo

    def __repr__(self):
        return f"Closure({self.qualname}@{getattr(self.node, 'lineno', '?')})"


class SpecFn:
    """Callable whose behaviour is given engine-side (result of a callee contract, numpy ufunc, ...)."""
    __slots__ = ("fn", "desc", "meta")

    def __init__(self, fn, desc="", meta=None):
        self.fn = fn
        self.desc = desc
        self.meta = meta or {}

    def __repr__(self):
        return f"SpecFn({self.desc})"


class FuncRef:
    __slots__ = ("finfo",)

    def __init__(self, finfo):
        self.finfo = finfo

    def __repr__(self):
        return f"FuncRef({self.finfo.key})"


class ClassRef:
    __slots__ = ("name",)

    def __init__(self, name):
        self.name = name

    def __repr__(self):
        return f"ClassRef({self.name})"


class ModuleRef:
    __slots__ = ("name",)

    def __init__(self, name):
        self.name = name

    def __repr__(self):
        return f"ModuleRef({self.name})"


class BoundMethod:
    __slots__ = ("self", "finfo")

    def __init__(self, self_, finfo):
        self.self = self_
        self.finfo = finfo

    def __repr__(self):
        return f"BoundMethod({self.finfo.key})"


class BuiltinRef:
    """A builtin / numpy / scipy callable or constant, identified by dotted name."""
    __slots__ = ("name",)

    def __init__(self, name):
        self.name = name

    def __repr__(self):
        return f"BuiltinRef({self.name})"


class BoundBuiltin:
    """Method of an engine container value (list.append, dict.get, array.reshape, ...)."""
    __slots__ = ("recv", "name")

    def __init__(self, recv, name):
        self.recv = recv
        self.name = name

    def __repr__(self):
        return f"BoundBuiltin({type(self.recv).__name__}.{self.name})"


class ExcVal:
    """Exception instance raised by the code under proof."""
    __slots__ = ("cls", "args", "kwargs", "cause")

    def __init__(self, cls: str, args=(), kwargs=None, cause=None):
        self.cls = cls
        self.args = tuple(args)
        self.kwargs = kwargs or {}
        self.cause = cause

    def __repr__(self):
        return f"ExcVal({self.cls})"


NOTIMPL = BuiltinRef("NotImplemented")


def is_number(v) -> bool:
    return isinstance(v, (int, float, SReal, SInt)) and not isinstance(v, bool) or isinstance(v, bool)


def num_term(v):
    """z3 arithmetic term (Real unless both int) of a numeric engine value."""
    if isinstance(v, bool):
        return z3.IntVal(1 if v else 0)
    if isinstance(v, int):
        return z3.IntVal(v)
    if isinstance(v, float):
        return sym.rv(v)
    if isinstance(v, SReal):
        return v.t
    if isinstance(v, SInt):
        return v.t
    if isinstance(v, SBool):
        return z3.If(v.t, z3.IntVal(1), z3.IntVal(0))
    raise Unsupported(f"not a number: {v!r}")


def real_term(v):
    return sym.to_real(num_term(v))
