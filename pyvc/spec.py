"""Specification vocabulary (DESIGN.md section 3) and the object schema of opaque optyx objects.

Spec functions are uninterpreted; their meaning is given by *unfolding instances* that are added
to the path condition on demand, one level at a time, guarded by the kind of the object.  Every
instance is quantifier-free.  The rule tables used here (calculus rules, structural degree bound)
are the ones restated and proved against Mathlib in spec/OptyxSpec.lean.
"""
from __future__ import annotations

import ast
from typing import Any

import z3

from . import sym
from .sym import fn, Ref, Name, R, I, B, EnvSort, PVSort, RealArr
from .values import (HeapList, BoundMethod, BuiltinRef, ClassRef, Closure, FuncRef, Obj, Opaque, PDict, PList, SArr, SBool,
                     SInt, SMap, SName, SOpt, SReal, SSeq, SSet, SStrOpaque, SpecFn, Unsupported, num_term, real_term)

UNARY_OPS = ["neg", "abs", "sin", "cos", "tan", "exp", "log", "log2", "log10", "sqrt", "tanh", "sinh", "cosh",
             "asin", "acos", "atan", "asinh", "acosh", "atanh"]
BINARY_OPS = ["+", "-", "*", "/", "**"]
VEC_UNARY_OPS = ["sin", "cos", "tan", "exp", "log", "abs", "sqrt", "sinh", "cosh", "tanh"]

# field name -> (sort tag, static class of the referenced object / element, mutable?)
FIELDS: dict[str, tuple[str, str | None, bool]] = {
    "left": ("ref", "object", False), "right": ("ref", "object", False), "operand": ("ref", "Expression", False),
    "vector": ("ref", "object", False), "expression": ("ref", "VectorExpression", False),
    "expr": ("ref", "Expression", False),
    "op": ("name", None, False), "name": ("name", None, False), "domain": ("name", None, True),
    "sense": ("name", None, False),
    "value": ("real", None, False), "power": ("real", None, False),
    "lb": ("optreal", None, True), "ub": ("optreal", None, True),
    "_value": ("real", None, True),
    "coefficients": ("realseq", None, False),
    "_variables": ("refseq", "Variable", False), "_expressions": ("refseq", "Expression", False),
    "size": ("int", None, False), "rows": ("int", None, False), "cols": ("int", None, False),
    "_sort_key": ("key", None, False),
    "_degree": ("optint", None, True),      # memo slot of Expression.degree (unassigned / None / -1 / degree)
}
# owner-class specific overrides of the static class of a ref field
FIELD_CLS = {
    ("BinaryOp", "left"): "Expression", ("BinaryOp", "right"): "Expression",
    ("VectorSum", "vector"): "VectorVariable", ("VectorPowerSum", "vector"): "VectorVariable",
    ("VectorUnarySum", "vector"): "VectorVariable", ("ElementwisePower", "vector"): "VectorVariable",
    ("ElementwiseUnary", "vector"): "VectorVariable",
}
# class-specific field specs (take precedence over FIELDS): mutable state of Problem
CLASS_FIELD_SPECS: dict[tuple[str, str], tuple[str, str | None, bool]] = {
    ("Problem", "_objective"): ("optref", "Expression", True),
    ("Problem", "_sense"): ("name", None, True),
    ("Problem", "_constraints"): ("heaplist", "Constraint", True),
    ("Problem", "_variables"): ("optseq", "Variable", True),
    ("Problem", "_solver_cache"): ("optbox", None, True),
    ("Problem", "_lp_cache"): ("optbox", None, True),
    ("Problem", "_is_linear_cache"): ("optbool", None, True),
    ("Problem", "name"): ("optname", None, True),
}
CLASS_FIELDS = {
    "Constant": ["value"], "Variable": ["name", "lb", "ub", "domain", "_sort_key"], "Parameter": ["name", "_value"],
    "BinaryOp": ["left", "right", "op"], "UnaryOp": ["operand", "op", "_numpy_func"],
    "VectorSum": ["vector"], "VectorExpressionSum": ["expression"], "DotProduct": ["left", "right"],
    "L2Norm": ["vector"], "L1Norm": ["vector"], "LinearCombination": ["coefficients", "vector"],
    "ElementwisePower": ["vector", "power"], "VectorPowerSum": ["vector", "power"],
    "ElementwiseUnary": ["vector", "op"], "VectorUnarySum": ["vector", "op"],
    "MatrixSum": ["matrix"], "QuadraticForm": ["vector", "matrix"], "FrobeniusNorm": ["matrix"],
    "VectorVariable": ["name", "size", "lb", "ub", "domain", "_variables"],
    "VectorExpression": ["_expressions", "size"], "MatrixVectorProduct": ["_expressions", "size", "matrix", "vector"],
    "Constraint": ["expr", "sense", "name"],
}


class Schema:
    def __init__(self, source):
        self.src = source
        kinds = [c for c in source.classes
                 if not (c in ("Expression",) or self._is_exc(source, c))]
        self.kinds = sym.Kinds(sorted(kinds))
        # the point at which spec functions are evaluated on this path
        self.E = z3.Const("ENV", EnvSort)
        self.DEN = fn("DEN", Ref, EnvSort, PVSort, R)
        self.DV = fn("DV", Ref, Name, EnvSort, PVSort, R)        # true partial derivative of den wrt variable name
        self.REG = fn("REG", Ref, Name, EnvSort, PVSort, B)      # regular point for the symbolic derivative
        self.DOM = fn("DOM", Ref, EnvSort, PVSort, B)            # point in the domain of the formula
        self.OCC = fn("OCC", Ref, Name, B)                       # variable name occurs syntactically
        self.ISPOLY = fn("ISPOLY", Ref, B)
        self.SDEG = fn("SDEG", Ref, I)                           # structural degree bound (when ISPOLY)
        self.PSUM = fn("PSUM", RealArr, I, R)
        self.VLEN = fn("VLEN", Ref, I)
        self.DENV = fn("DENV", Ref, I, EnvSort, PVSort, R)       # value of the k-th element of a vector object
        self.field_fns: dict[str, Any] = {}
        self.lazy_arrays: dict[str, Any] = {}

    @staticmethod
    def _is_exc(source, c) -> bool:
        seen = set()
        work = [c]
        while work:
            x = work.pop()
            if x in seen:
                continue
            seen.add(x)
            if x in ("Exception", "BaseException", "Warning", "ValueError", "TypeError", "Enum"):
                return True
            if x in source.classes:
                work.extend(source.classes[x].bases)
        return False

    # ------------------------------------------------------------------ current parameter store
    def PV(self, ip):
        return ip.path.store_of("_value", R)

    # ------------------------------------------------------------------ fields of opaque objects
    def F(self, field: str, sort):
        return fn("F_" + field, Ref, sort)

    def attr_owners(self, o: Opaque, attr: str):
        """(concrete classes below the static class of o that have the attribute, all concrete classes below it): the
        attribute is a field the class owns (CLASS_FIELDS) or a method / property defined for it."""
        below = [k for k in self.kinds.const if k in self.src.classes and (o.cls == "object" or self.src.is_subclass(k, o.cls))]
        own = [k for k in below if attr in CLASS_FIELDS.get(k, ()) or self.src.find_method(k, attr) is not None
               or self.src.find_class_attr(k, attr) is not None]
        return own, below

    def has_field(self, o: Opaque, attr: str) -> bool:
        return (o.cls, attr) in CLASS_FIELD_SPECS or attr in FIELDS or attr in ("_numpy_func", "matrix")

    def field_spec(self, ip, o: Opaque, attr: str):
        cls = ip.exact_class(o) or o.cls
        return CLASS_FIELD_SPECS.get((cls, attr)) or FIELDS.get(attr)

    def skey(self, o: Opaque, attr: str, ip=None) -> str:
        """store name of a mutable field (class-qualified for class-specific fields)"""
        cls = (ip.exact_class(o) if ip else None) or o.cls
        return f"{cls}.{attr}" if (cls, attr) in CLASS_FIELD_SPECS else attr

    def field_static_cls(self, ip, o: Opaque, attr: str) -> str:
        owner = ip.exact_class(o) or o.cls
        return FIELD_CLS.get((owner, attr), FIELDS[attr][1])

    def read_field(self, ip, o: Opaque, attr: str):
        if attr == "_numpy_func":
            op = self.read_field(ip, o, "op")
            return self.ufunc_of_op(ip, op)
        if attr == "matrix" and (ip.exact_class(o) or o.cls) == "QuadraticForm":
            # numeric square matrix Q of a quadratic form (n = length of the vector, checked by the constructor)
            n = fn("VLEN", Ref, I)(self.F("vector", Ref)(o.ref))
            return SArr(fn("MAT_matrix", Ref, sym.RealMat)(o.ref), shape=(n, n))
        if attr == "matrix":
            return Opaque(self.F("matrix", Ref)(o.ref), "object")
        tag, _cls, mutable = self.field_spec(ip, o, attr)
        self.touch(ip, o)
        sk = self.skey(o, attr, ip)
        p = ip.path
        if tag == "optref":
            isn = z3.Select(p.store_of(sk + "!none", B), o.ref)
            return SOpt(isn, Opaque(z3.Select(p.store_of(sk, Ref), o.ref), _cls))
        if tag == "optbool":
            isn = z3.Select(p.store_of(sk + "!none", B), o.ref)
            return SOpt(isn, SBool(z3.Select(p.store_of(sk, B), o.ref)))
        if tag == "optname":
            return SStrOpaque(("name-of", o.ref))
        if tag == "heaplist":
            return HeapList(o, sk, _cls)
        if tag == "optseq":
            isn = z3.Select(p.store_of(sk + "!none", B), o.ref)
            base = z3.Select(p.store_of(sk, Ref), o.ref)
            return SOpt(isn, self.seq_of_base(ip, base, _cls))
        if tag == "optbox":
            isn = z3.Select(p.store_of(sk + "!none", B), o.ref)
            box = z3.simplify(z3.Select(p.store_of(sk, Ref), o.ref))
            boxed = p.ghost.get("boxed", {}).get(str(box))
            if boxed is None:
                if p.entails(isn):
                    return None
                hook = ip.reg.unbox_hooks.get(sk) if hasattr(ip.reg, "unbox_hooks") else None
                if hook is None:
                    raise Unsupported(f"content of {sk} is not tracked on this path")
                boxed = hook(ip, o, box)
            return SOpt(isn, boxed)
        if tag == "name" and mutable and sk != attr:
            return SName(z3.Select(p.store_of(sk, Name), o.ref))
        if tag == "ref":
            t = self.F(attr, Ref)(o.ref)
            child = Opaque(t, self.field_static_cls(ip, o, attr))
            return child
        if tag == "name":
            if mutable:
                return SName(z3.Select(ip.path.store_of(attr, Name), o.ref))
            t_ = self.F(attr, Name)(o.ref)
            if attr == "sense" and (ip.exact_class(o) or o.cls) == "Constraint":
                # class invariant of the frozen dataclass Constraint (established by __post_init__, proved in constraints_c)
                ip.path.assume(z3.Or(t_ == sym.lit("<="), t_ == sym.lit(">="), t_ == sym.lit("==")))
            return SName(t_)
        if tag == "real":
            if mutable:
                if attr == "_value":
                    ip.path.event("param-read", o.ref)       # a Parameter's current value is read (C12 frame clause)
                return SReal(z3.Select(ip.path.store_of(attr, R), o.ref), "float")
            return SReal(self.F(attr, R)(o.ref), "pynum" if attr == "value" else "float")
        if tag == "optreal":
            isn = z3.Select(ip.path.store_of(attr + "!none", B), o.ref)
            val = z3.Select(ip.path.store_of(attr, R), o.ref)
            return SOpt(isn, SReal(val, "pynum"))
        if tag == "int":
            return SInt(self.F(attr, I)(o.ref))
        if tag == "optint":
            has = z3.Select(ip.path.store_of(attr + "!has", B), o.ref)
            if not ip.path.branch(has, f"{attr} assigned"):
                ip.raise_exc("AttributeError", attr)
            isn = z3.Select(ip.path.store_of(attr + "!none", B), o.ref)
            return SOpt(isn, SInt(z3.Select(ip.path.store_of(attr, I), o.ref)))
        if tag == "realseq":
            n = fn("LEN_" + attr, Ref, I)(o.ref)
            arr = fn("ARR_" + attr, Ref, RealArr)(o.ref)
            ip.path.assume(n >= 0)
            return SSeq(n, lambda k, arr=arr: SReal(z3.Select(arr, k if not isinstance(k, int) else z3.IntVal(k)), "npfloat"),
                        "ndarray", attr, tag=("field", attr, o.ref))
        if tag == "refseq":
            n = fn("LEN_" + attr, Ref, I)(o.ref)
            el = fn("ELEM_" + attr, Ref, I, Ref)
            ecls = FIELDS[attr][1]
            ip.path.assume(n >= 0)

            def get(k, el=el, ecls=ecls, n=n):
                kt = k if not isinstance(k, int) else z3.IntVal(k)
                er = el(o.ref, kt)
                if ecls == "Variable":
                    # class invariant of VectorVariable (every constructor route stores Variable objects)
                    ip.path.assume(z3.Implies(z3.And(kt >= 0, kt < n), self.kinds.is_kind(er, "Variable")))
                    if ip.path.entails(z3.And(kt >= 0, kt < n)):
                        self.learn_kind(ip, er, "Variable")
                return Opaque(er, ecls, exact=(ecls == "Variable"))
            return SSeq(n, get, "list", attr, tag=("field", attr, o.ref))
        if tag == "key":
            return SpecFn(None, "sortkey", meta={"sortkey_of": o.ref})
        raise Unsupported(f"field {attr}")

    def seq_of_base(self, ip, base, ecls):
        """Immutable list object identified by `base`: LEN_any / ELEM_any projections."""
        LEN = fn("LEN_any", Ref, I)
        EL = fn("ELEM_any", Ref, I, Ref)
        n = LEN(base)
        ip.path.assume(n >= 0)

        def get(k):
            kt = k if not isinstance(k, int) else z3.IntVal(k)
            er = EL(base, kt)
            if ecls in self.kinds.const:
                ip.path.assume(z3.Implies(z3.And(kt >= 0, kt < n), self.kinds.is_kind(er, ecls)))
                if ip.path.entails(z3.And(kt >= 0, kt < n)):
                    self.learn_kind(ip, er, ecls)
            return Opaque(er, ecls, exact=ecls in self.kinds.const)
        return SSeq(n, get, "list", "boxed-list", tag=("fresh", "list", base))

    def base_of_seq(self, ip, S):
        """Ref identifying a list value (boxing): sequences created by T.seq / seq_of_base carry their base."""
        if isinstance(S, SSeq) and S.tag and S.tag[0] == "fresh":
            return S.tag[2]
        if isinstance(S, (SSeq, PList)):
            S = ip.models.as_seq(S)
            base = sym.fresh("listobj", Ref)
            LEN = fn("LEN_any", Ref, I)
            EL = fn("ELEM_any", Ref, I, Ref)
            ip.path.assume(LEN(base) == ip.models.len_term(S.n))
            ip.path.ghost.setdefault("boxed_seqs", {})[str(base)] = S
            hook = getattr(ip.reg, "boxed_seq_hook", None)
            if hook is not None:
                hook(ip, base, S)
            return base
        raise Unsupported(f"cannot box {type(S).__name__} as a list object")

    def write_field(self, ip, o: Opaque, attr: str, v) -> None:
        spec_ = self.field_spec(ip, o, attr)
        if spec_ is not None and (ip.exact_class(o) or o.cls, attr) in CLASS_FIELD_SPECS:
            return self.write_class_field(ip, o, attr, v, spec_)
        if attr not in FIELDS or not FIELDS[attr][2]:
            hook = ip.reg.field_write_hook(o, attr)
            if hook is not None:
                return hook(ip, o, attr, v)
            raise Unsupported(f"store to immutable/unknown field {attr} of an opaque {o.cls}")
        tag = FIELDS[attr][0]
        ip.path.event("field-write", (attr, o.ref))
        if tag == "real":
            ip.path.stores[attr] = z3.Store(ip.path.store_of(attr, R), o.ref, real_term(v))
        elif tag == "name":
            ip.path.stores[attr] = z3.Store(ip.path.store_of(attr, Name), o.ref, ip.models.name_term(v))
        elif tag == "optint":
            ip.path.stores[attr + "!has"] = z3.Store(ip.path.store_of(attr + "!has", B), o.ref, z3.BoolVal(True))
            if v is None:
                ip.path.stores[attr + "!none"] = z3.Store(ip.path.store_of(attr + "!none", B), o.ref, z3.BoolVal(True))
            elif isinstance(v, SOpt):
                ip.path.stores[attr + "!none"] = z3.Store(ip.path.store_of(attr + "!none", B), o.ref, v.isnone)
                ip.path.stores[attr] = z3.Store(ip.path.store_of(attr, I), o.ref, num_term(v.val))
            else:
                ip.path.stores[attr + "!none"] = z3.Store(ip.path.store_of(attr + "!none", B), o.ref, z3.BoolVal(False))
                ip.path.stores[attr] = z3.Store(ip.path.store_of(attr, I), o.ref, num_term(v))
        elif tag == "optreal":
            if v is None:
                ip.path.stores[attr + "!none"] = z3.Store(ip.path.store_of(attr + "!none", B), o.ref, z3.BoolVal(True))
            elif isinstance(v, SOpt):
                ip.path.stores[attr + "!none"] = z3.Store(ip.path.store_of(attr + "!none", B), o.ref, v.isnone)
                ip.path.stores[attr] = z3.Store(ip.path.store_of(attr, R), o.ref, real_term(v.val))
            else:
                ip.path.stores[attr + "!none"] = z3.Store(ip.path.store_of(attr + "!none", B), o.ref, z3.BoolVal(False))
                ip.path.stores[attr] = z3.Store(ip.path.store_of(attr, R), o.ref, real_term(v))
        else:
            raise Unsupported(f"store to field {attr}")

    def write_class_field(self, ip, o, attr, v, spec_):
        tag, _cls, _m = spec_
        sk = self.skey(o, attr, ip)
        p = ip.path
        p.event("field-write", (sk, o.ref))

        def setnone(flag):
            p.stores[sk + "!none"] = z3.Store(p.store_of(sk + "!none", B), o.ref, flag if not isinstance(flag, bool) else z3.BoolVal(flag))
        if tag == "optref":
            if v is None:
                return setnone(True)
            if isinstance(v, SOpt):
                setnone(v.isnone)
                v = v.val
            else:
                setnone(False)
            p.stores[sk] = z3.Store(p.store_of(sk, Ref), o.ref, ip.models.ref_of(ip, v))
            return
        if tag == "optbool":
            if v is None:
                return setnone(True)
            setnone(False)
            t = v.t if isinstance(v, SBool) else z3.BoolVal(bool(v))
            p.stores[sk] = z3.Store(p.store_of(sk, B), o.ref, t)
            return
        if tag == "name":
            p.stores[sk] = z3.Store(p.store_of(sk, Name), o.ref, ip.models.name_term(v))
            return
        if tag == "optname":
            return
        if tag == "optseq":
            if v is None:
                return setnone(True)
            setnone(False)
            p.stores[sk] = z3.Store(p.store_of(sk, Ref), o.ref, self.base_of_seq(ip, v))
            return
        if tag == "optbox":
            if v is None:
                return setnone(True)
            setnone(False)
            box = sym.fresh("box", Ref)
            p.ghost.setdefault("boxed", {})[str(box)] = v
            p.stores[sk] = z3.Store(p.store_of(sk, Ref), o.ref, box)
            return
        if tag == "heaplist":
            if isinstance(v, PList) and not v.items:
                p.stores[sk + "!len"] = z3.Store(p.store_of(sk + "!len", I), o.ref, z3.IntVal(0))
                return
            raise Unsupported(f"assignment of a non-empty list to {sk}")
        raise Unsupported(f"store to {sk}")

    # ---- heap lists
    def hl_len(self, ip, hl: HeapList):
        return z3.Select(ip.path.store_of(hl.field + "!len", I), hl.owner.ref)

    def hl_elems(self, ip, hl: HeapList):
        return z3.Select(ip.path.store_of(hl.field + "!elems", sym.RefArr), hl.owner.ref)

    def hl_snapshot(self, ip, hl: HeapList) -> SSeq:
        n = self.hl_len(ip, hl)
        arr = self.hl_elems(ip, hl)
        ip.path.assume(n >= 0)
        ecls = hl.elem_cls

        def get(k):
            kt = k if not isinstance(k, int) else z3.IntVal(k)
            er = z3.Select(arr, kt)
            if ecls in self.kinds.const:
                ip.path.assume(z3.Implies(z3.And(kt >= 0, kt < n), self.kinds.is_kind(er, ecls)))
                if ip.path.entails(z3.And(kt >= 0, kt < n)):
                    self.learn_kind(ip, er, ecls)
            return Opaque(er, ecls, exact=ecls in self.kinds.const)
        return SSeq(n, get, "list", "heaplist-snapshot", tag=("heaplist", hl.field, hl.owner.ref, arr, n))

    def hl_append(self, ip, hl: HeapList, v):
        p = ip.path
        n = self.hl_len(ip, hl)
        arr = self.hl_elems(ip, hl)
        ref = ip.models.ref_of(ip, v)
        p.event("field-write", (hl.field, hl.owner.ref))
        p.stores[hl.field + "!elems"] = z3.Store(p.store_of(hl.field + "!elems", sym.RefArr), hl.owner.ref, z3.Store(arr, n, ref))
        p.stores[hl.field + "!len"] = z3.Store(p.store_of(hl.field + "!len", I), hl.owner.ref, n + 1)

    def hasattr(self, ip, o: Opaque, attr: str):
        if attr in FIELDS and FIELDS[attr][0] == "optint":
            return ip.path.branch(z3.Select(ip.path.store_of(attr + "!has", B), o.ref), f"hasattr {attr}")
        cls = ip.exact_class(o)
        if cls is None:
            # decide by kind: fork over the classes that do / do not carry the slot
            have = [c for c in self.src.subclasses(o.cls) if attr in CLASS_FIELDS.get(c, []) or attr in self.assigned_in_init(c)]
            if not have:
                return False
            cond = self.kinds.is_any(o.ref, have)
            return ip.path.branch(cond, f"hasattr {attr}")
        return attr in CLASS_FIELDS.get(cls, []) or attr in self.assigned_in_init(cls)

    def assigned_in_init(self, cls: str) -> set[str]:
        """Slots assigned by the real __init__ of `cls` (scan of the source)."""
        out: set[str] = set()
        init = self.src.find_method(cls, "__init__")
        if init is None:
            return out
        for n in ast.walk(init.node):
            if isinstance(n, (ast.Assign, ast.AnnAssign)):
                tg = n.targets if isinstance(n, ast.Assign) else [n.target]
                for t in tg:
                    if isinstance(t, ast.Attribute) and isinstance(t.value, ast.Name) and t.value.id == "self":
                        out.add(t.attr)
        return out

    def ufunc_of_op(self, ip, op):
        if isinstance(op, str):
            return BuiltinRef(self.numpy_name_of_unary(op))
        # symbolic op: a callable that dispatches on the op name
        def apply(ip2, x):
            for cand in UNARY_OPS:
                if ip2.path.branch(op.t == sym.lit(cand), f"op=={cand}"):
                    return ip2.models.unary_real(ip2, cand, x)
            raise Unsupported("unary op outside the _OPS table")
        return SpecFn(apply, "ufunc-of-op")

    def numpy_name_of_unary(self, op: str) -> str:
        """Read UnaryOp._OPS from the real source: op name -> numpy function name."""
        tab = self.src.classes["UnaryOp"].class_attrs["_OPS"]
        for k, v in zip(tab.keys, tab.values):
            if isinstance(k, ast.Constant) and k.value == op:
                return "numpy." + ast.unparse(v).split(".", 1)[1]
        raise Unsupported(f"op {op} not in UnaryOp._OPS")

    # ------------------------------------------------------------------ isinstance
    def isinstance(self, ip, v, c) -> bool:
        classes = []
        for x in (c if isinstance(c, tuple) else (c,)):
            if isinstance(x, ClassRef):
                classes.append(x.name)
            elif isinstance(x, BuiltinRef):
                classes.append(x.name)
            else:
                raise Unsupported(f"isinstance class {x!r}")
        if isinstance(v, Obj):
            return any(self.src.is_subclass(v.cls, k) for k in classes if k in self.src.classes)
        if isinstance(v, Opaque):
            ex = ip.exact_class(v)
            names = [k for k in classes if k in self.src.classes]
            if ex is not None:
                return any(self.src.is_subclass(ex, k) for k in names)
            if not names:
                return False
            if v.cls in self.src.classes and any(self.src.is_subclass(v.cls, k) for k in names):
                return True
            cands: list[str] = []
            for k in names:
                for s in self.src.subclasses(k):
                    if s in self.kinds.const and (v.cls == "object" or self.src.is_subclass(s, v.cls)) and s not in cands:
                        cands.append(s)
            if not cands:
                return False
            if ip.path.guards:
                # inside a lazily evaluated sequence element: hand back the class test as a term instead of forking
                from .values import SBool
                return SBool(self.kinds.is_any(v.ref, cands))
            d = ip.path.branch(self.kinds.is_any(v.ref, cands), f"isinstance({v.ref},{'|'.join(names)})")
            if d and len(cands) == 1:
                self.learn_kind(ip, v.ref, cands[0])
            elif d and len(cands) <= 4:
                # a handful of exact classes: decide which one, so that the spec functions parked on the object unfold
                # (left undecided, a goal about it could be refuted by a model that no class admits)
                for cand in cands[:-1]:
                    if ip.path.branch(self.kinds.is_kind(v.ref, cand), f"class of {v.ref} is {cand}"):
                        self.learn_kind(ip, v.ref, cand)
                        return d
                ip.path.assume(self.kinds.is_kind(v.ref, cands[-1]))
                self.learn_kind(ip, v.ref, cands[-1])
            return d
        if isinstance(v, SOpt):
            if ip.path.branch(v.isnone, "is None"):
                return False
            return self.isinstance(ip, v.val, c)
        if v is None:
            return "NoneType" in classes
        if isinstance(v, bool):
            return any(k in ("bool", "int", "numbers.Number", "object") for k in classes)
        if isinstance(v, int):
            return any(k in ("int", "numbers.Number", "object") for k in classes)
        if isinstance(v, float):
            return any(k in ("float", "numbers.Number", "object") for k in classes)
        if isinstance(v, SInt):
            return any(k in ("int", "numbers.Number") for k in classes)
        if isinstance(v, SReal):
            pt = v.pytype
            res = False
            for k in classes:
                if k == "numbers.Number":
                    res = True
                elif k == "int" and pt in ("int", "bool"):
                    res = True
                elif k == "float" and pt in ("float", "npfloat"):
                    res = True
                elif k in ("numpy.floating", "numpy.number") and pt == "npfloat":
                    res = True
                elif k in ("numpy.integer", "numpy.number") and pt == "npint":
                    res = True
                elif pt == "pynum" and "int" in classes and "float" in classes:
                    res = True      # a Python int or float (which one is not tracked)
                elif pt in ("num", "pynum") and k in ("int", "float"):
                    raise Unsupported("isinstance(int/float) on a number of unknown Python type: split the spec case")
            return res
        if isinstance(v, (str, SName, SStrOpaque)):
            return "str" in classes
        if isinstance(v, PList):
            return "list" in classes
        if isinstance(v, PDict):
            return "dict" in classes
        if isinstance(v, tuple):
            return "tuple" in classes
        if isinstance(v, SArr):
            return "numpy.ndarray" in classes
        if isinstance(v, SSeq):
            return ("numpy.ndarray" in classes and v.kind == "ndarray") or ("list" in classes and v.kind == "list") \
                or ("tuple" in classes and v.kind == "tuple")
        if isinstance(v, (Closure, SpecFn, FuncRef, BoundMethod)):
            return False
        raise Unsupported(f"isinstance on {type(v).__name__}")

    def learn_kind(self, ip, ref, cls: str) -> None:
        """The exact class of `ref` is now known on this path: replay the unfolding requests parked on it."""
        key = str(ref)
        if ip.path.kinds.get(key) == cls:
            return
        ip.path.kinds[key] = cls
        pend = ip.path.ghost.get("pending_unfold", {}).pop(key, [])
        for fn_ in pend:
            fn_()

    def park(self, ip, ref, thunk) -> None:
        ip.path.ghost.setdefault("pending_unfold", {}).setdefault(str(ref), []).append(thunk)

    def known_op(self, ip, ref):
        return ip.path.ghost.get("ops", {}).get(str(ref))

    def set_known_op(self, ip, ref, op: str) -> None:
        ip.path.ghost.setdefault("ops", {})[str(ref)] = op

    # ------------------------------------------------------------------ materialisation of allocated objects
    def materialize(self, ip, o: Obj):
        """Give an allocated object a z3 Ref and state what is known about it (kind, immutable fields)."""
        if o.ref is not None:
            return o.ref
        o.ref = sym.fresh("new_" + o.cls, Ref)
        p = ip.path
        if o.cls in self.kinds.const:
            p.assume(self.kinds.is_kind(o.ref, o.cls))
            p.kinds[str(o.ref)] = o.cls
        if isinstance(o.fields.get("op"), str):
            self.set_known_op(ip, o.ref, o.fields["op"])
        for f, val in list(o.fields.items()):
            if f not in FIELDS:
                continue
            tag, _c, mutable = FIELDS[f]
            try:
                if tag == "ref" and isinstance(val, (Obj, Opaque)):
                    cref = ip.models.ref_of(ip, val)
                    p.assume(self.F(f, Ref)(o.ref) == cref)
                    p.ghost.setdefault("children", {}).setdefault(str(o.ref), []).append(cref)
                elif tag == "name" and isinstance(val, (str, SName)) and not mutable:
                    p.assume(self.F(f, Name)(o.ref) == ip.models.name_term(val))
                elif tag == "real" and ip.models.isnum(val) and not mutable:
                    p.assume(self.F(f, R)(o.ref) == real_term(val))
                elif tag == "real" and mutable and ip.models.isnum(val):
                    p.stores[f] = z3.Store(p.store_of(f, R), o.ref, real_term(val))
                elif tag == "int" and isinstance(val, (int, SInt)):
                    p.assume(self.F(f, I)(o.ref) == num_term(val))
                elif tag in ("refseq", "realseq") and isinstance(val, (SSeq, PList, SArr)):
                    S = ip.models.as_seq(val)
                    p.assume(fn("LEN_" + f, Ref, I)(o.ref) == ip.models.len_term(S.n))
                    ip.path.ghost.setdefault("matseq", {})[(str(o.ref), f)] = S
            except Unsupported:
                pass
        self.touch(ip, Opaque(o.ref, o.cls, exact=True), obj=o)
        return o.ref

    def seq_of_field(self, ip, ref, f: str):
        """Sequence stored in a refseq/realseq field of `ref` (allocated-and-materialised or opaque)."""
        S = ip.path.ghost.get("matseq", {}).get((str(ref), f))
        if S is not None:
            return S
        return self.read_field(ip, Opaque(ref, "object"), f)

    # ------------------------------------------------------------------ names / sets
    def name_of(self, ip, v):
        """Name term of a Variable value (for membership in sets keyed by Variable.__eq__)."""
        if isinstance(v, Obj):
            return ip.models.name_term(v.fields["name"])
        if isinstance(v, Opaque):
            return self.F("name", Name)(v.ref)
        raise Unsupported(f"name of {v!r}")

    def make_set(self, ip, items):
        """Sets in optyx hold Variables (hash/eq by name) or ints; represented by membership predicates."""
        if isinstance(items, list) or isinstance(items, PList):
            its = items if isinstance(items, list) else items.items
            if its and all(isinstance(x, (str, int, float)) for x in its):
                return tuple(its)       # concrete set of literals: only membership tests are made
            if all(isinstance(x, (Obj, Opaque)) for x in its):
                names = [self.name_of(ip, x) for x in its]
                return SSet(lambda nm, names=names: z3.Or(*[nm == t for t in names]) if names else z3.BoolVal(False), "literal")
            if not its:
                return SSet(lambda nm: z3.BoolVal(False), "empty")
            raise Unsupported("set of non-Variable values")
        if isinstance(items, SSet):
            return SSet(items.member, items.desc)
        if isinstance(items, SSeq):
            return self.set_of_seq(ip, items)
        if isinstance(items, SpecFn) and items.meta.get("iterable") is not None:
            return self.make_set(ip, items.meta["iterable"])
        raise Unsupported(f"set() of {type(items).__name__}")

    def set_of_seq(self, ip, S: SSeq):
        """set(seq of Variables): membership = exists k < n with that name; kept as an uninterpreted predicate
        INSEQ(tag, name) with the instances  k<n -> INSEQ(tag, name(elem k))  added at demanded indices."""
        if S.tag and S.tag[0] == "field":
            ref = S.tag[2]
            hook = getattr(ip.reg, "set_of_field_hook", None)
            if hook is not None:
                r = hook(ip, ref, S.tag[1], S)
                if r is not None:
                    return r
            INSEQ = fn("INSEQ_" + S.tag[1], Ref, Name, B)
            return SSet(lambda nm, ref=ref: INSEQ(ref, nm), f"set({S.tag[1]})")
        if isinstance(S.n, int):
            names = [self.name_of(ip, S.get(k)) for k in range(S.n)]
            return SSet(lambda nm: z3.Or(*[nm == t for t in names]) if names else z3.BoolVal(False), "set-of-list")
        raise Unsupported("set() of an untagged symbolic sequence")

    def set_method(self, ip, recv, name, args, node=None):
        if name == "update":
            other = args[0]
            if isinstance(other, (PList, list, SSeq)):
                other = self.make_set(ip, other)
            if not isinstance(other, SSet):
                raise Unsupported("set.update argument")
            old = recv.member
            recv.member = lambda nm, old=old, om=other.member: z3.Or(old(nm), om(nm))
            return None
        if name == "add":
            t = self.name_of(ip, args[0])
            old = recv.member
            recv.member = lambda nm, old=old: z3.Or(old(nm), nm == t)
            return None
        if name in ("union", "__or__"):
            other = args[0]
            return SSet(lambda nm, a=recv.member, b=other.member: z3.Or(a(nm), b(nm)), "union")
        if name == "copy":
            return SSet(recv.member, recv.desc)
        raise Unsupported(f"set.{name}")

    # ------------------------------------------------------------------ object invariants / unfolding
    def touch(self, ip, o: Opaque, obj: Obj | None = None) -> None:
        """Add (once per ref and path) the unfolding instances of every spec function for `o`."""
        key = "unfold:" + str(o.ref)
        if key in ip.path.unfolded:
            return
        ip.path.unfolded.add(key)
        ip.reg.unfolder(self, ip, o)

    # ------------------------------------------------------------------ sums
    def psum_unfold(self, ip, arr, i) -> None:
        """PSUM(arr,0)=0 and PSUM(arr,i+1)=PSUM(arr,i)+arr[i] at the given index term."""
        p = ip.path
        k0 = "psum0:" + str(arr)
        if k0 not in p.unfolded:
            p.unfolded.add(k0)
            p.assume(self.PSUM(arr, z3.IntVal(0)) == 0)
        ks = f"psum:{arr}:{i}"
        if ks not in p.unfolded:
            p.unfolded.add(ks)
            it = i if not isinstance(i, int) else z3.IntVal(i)
            p.assume(self.PSUM(arr, it + 1) == self.PSUM(arr, it) + z3.Select(arr, it))

    def psum_of_seq(self, ip, S: SSeq):
        """Sum of a symbolic-length sequence of reals: materialise a named array with pointwise instances
        on demand and return PSUM(arr, n).  The array is registered so that extensionality instances against
        spec-side sums can be generated when an obligation is discharged."""
        arr = sym.fresh("terms", RealArr)
        ip.path.ghost.setdefault("sumarrays", []).append((arr, S))
        return self.PSUM(arr, ip.models.len_term(S.n))

    def seq_array_fact(self, ip, arr, S: SSeq, k) -> None:
        key = f"arrfact:{arr}:{k}"
        if key in ip.path.unfolded:
            return
        ip.path.unfolded.add(key)
        ip.path.assume(z3.Select(arr, k) == real_term(S.get(k)))

    def str_contains(self, s: SStrOpaque, lit_: str):
        return fn("STRCONTAINS", Name, B)(sym.lit(f"{lit_!r} in <{id(s) % 0}msg>")) if False else \
            z3.Const(f"contains!{lit_}", B)

    # ------------------------------------------------------------------ zip / misc sequence helpers
    def zip_symbolic(self, ip, seqs, node=None):
        n = ip.models.len_term(seqs[0].n)
        for s in seqs[1:]:
            m = ip.models.len_term(s.n)
            n = z3.If(n <= m, n, m)          # zip truncates to the shortest (that is exactly what C11 must exclude)
        return SSeq(z3.simplify(n), lambda k: tuple(s.get(k) for s in seqs), "list", "zip")

    def matrix_from_rows(self, ip, rows):
        """np.array([[...], [...]]): a 2-D real array with a concrete number of rows; entries are defined pointwise
        (instantiated at every index term in use)."""
        from .values import SArr
        seqs_ = [ip.models.as_seq(r) for r in rows]
        m = len(seqs_)
        n = ip.models.len_term(seqs_[0].n)
        for r in seqs_[1:]:
            ip.path.assume(ip.models.len_term(r.n) == n)       # NumPy would build an object array otherwise; optyx builds full rows
        M = sym.fresh("matrix", sym.RealMat)
        for i, r in enumerate(seqs_):
            rowarr = sym.fresh(f"matrow{i}", sym.RealArr)
            ip.path.assume(z3.Select(M, z3.IntVal(i)) == rowarr)
            h = getattr(ip.reg, "define_array_hook", None)
            if h is None:
                raise Unsupported("np.array of rows without the sequence theory")
            h(ip, rowarr, n, lambda k, r=r: real_term(r.get(k)))
        return SArr(M, shape=(m, n))

    def reshape(self, ip, recv, args):
        from .values import SArr, SSeq
        if len(args) == 1 and isinstance(args[0], tuple):
            args = args[0]
        args = tuple(args)
        one_d = isinstance(recv, SSeq) or (isinstance(recv, SArr) and recv.shape is None)
        if one_d and args == (1, -1):
            return self.matrix_from_rows(ip, [recv])
        if one_d and args == (-1,):
            return recv
        raise Unsupported(f"reshape{args}")

    def scatter_assign(self, ip, arr, idx, val, node=None):
        h = getattr(ip.reg, "scatter_assign_hook", None)
        if h is None:
            raise Unsupported("fancy-index assignment")
        return h(ip, arr, idx, val, node)

    def array_equal(self, ip, A, B):
        h = getattr(ip.reg, "array_equal_hook", None)
        if h is None:
            raise Unsupported("np.array_equal")
        return h(ip, A, B)

    def all_symbolic(self, ip, S, node=None):
        h = getattr(ip.reg, "all_hook", None)
        if h is None:
            raise Unsupported("all() over a symbolic-length sequence")
        return h(ip, S, node)

    def symbolic_dict_comprehension(self, ip, e, fr, S):
        h = getattr(ip.reg, "dict_comprehension_hook", None)
        if h is None:
            raise Unsupported("dict comprehension over a symbolic-length sequence")
        return h(ip, e, fr, S)

    def sorted_model(self, ip, it, key, node=None):
        h = getattr(ip.reg, "sorted_hook", None)
        if h is None:
            raise Unsupported("sorted()")
        return h(ip, it, key, node)

    def filtered_comprehension(self, ip, e, fr, first):
        """[elt for x in S if pred]: a sequence of unknown length m whose non-emptiness is the existence of an index
        satisfying pred (instances via the registry hook); elements are opaque members of S satisfying pred."""
        h = getattr(ip.reg, "filtered_comprehension_hook", None)
        if h is None:
            raise Unsupported("filtered comprehension over a symbolic-length sequence")
        return h(ip, e, fr, first)

    def isfinite(self, ip, v):
        """np.isfinite on scalars: symbolic reals are finite by A1/A7; concrete floats are tested."""
        import math
        if isinstance(v, (int, float)):
            return math.isfinite(v)
        if isinstance(v, (SReal, SInt)):
            return True
        h = getattr(ip.reg, "isfinite_hook", None)
        if h is not None:
            return h(ip, v)
        raise Unsupported(f"np.isfinite of {type(v).__name__}")
