"""./check <property> --tier quick|thorough   (see DESIGN.md section 10)

exit 0  property held on everything explored (KNOWN-FINDING lines allowed)
exit 1  unlisted violation(s): one `VIOLATION property=<id> replay=<path>` line each
exit 2  undecided (solver unknown on both solvers / function out of reach / contract matches no function)
exit 3  checker crash or solver disagreement
"""
from __future__ import annotations

import argparse
import json
import os
import subprocess
import sys
import time
import traceback
from collections import Counter, defaultdict

ROOT = os.path.dirname(os.path.dirname(os.path.abspath(__file__)))


def main(argv=None) -> int:
    ap = argparse.ArgumentParser()
    ap.add_argument("prop")
    ap.add_argument("--tier", default=os.environ.get("VERIF_TIER", "quick"))
    ap.add_argument("--repo", default=os.environ.get("VERIF_REPO", "/repo"))
    ap.add_argument("--replay", default=None)
    ap.add_argument("--only", default=None, help="substring filter on function keys (development)")
    ap.add_argument("--no-bounded", action="store_true")
    ap.add_argument("--write-ledger", action="store_true")
    args = ap.parse_args(argv)
    seed = int(os.environ.get("VERIF_SEED", "0") or 0)
    if args.tier not in ("quick", "thorough"):
        args.tier = "quick"
    try:
        if args.replay:
            from .replay import replay_file
            return replay_file(args.prop, args.replay, args.repo)
        return run_property(args.prop, args.tier, args.repo, seed, args)
    except SystemExit:
        raise
    except Exception:
        traceback.print_exc()
        print(f"CRASH property={args.prop}")
        return 3


def load_known(prop: str):
    path = os.path.join(ROOT, "known_findings.json")
    if not os.path.exists(path):
        return []
    data = json.load(open(path))
    return [k for k in data.get("findings", []) if prop in k.get("properties", [k.get("property")])]


def run_property(prop: str, tier: str, repo: str, seed: int, args) -> int:
    from .engine import Engine
    from .discharge import discharge
    from .contracts import verify_function
    from . import replay as replay_mod

    t0 = time.time()
    eng = Engine(repo)
    keys = [k for k, ct in eng.reg.contracts.items() if prop in ct.props]
    if args.only:
        keys = [k for k in keys if args.only in k]
    plan = eng.reg.property_plans.get(prop) if hasattr(eng.reg, "property_plans") else None
    reports = []
    undecided: list[str] = []
    for k in keys:
        ct = eng.reg.contracts[k]
        if k.startswith("virtual:") or k.startswith("ctor:"):
            continue
        rep = verify_function(eng.src, eng.reg, eng.schema_factory, eng.models, ct)
        reports.append(rep)
    obs = [o for r in reports for o in r.obligations]
    timeout_ms = 10000 if tier == "quick" else 20000
    verdicts = discharge(obs, tier=tier, timeout_ms=timeout_ms)
    # one retry for unknowns with a doubled budget (single worker)
    unk = [i for i, v in enumerate(verdicts) if v.verdict == "unknown"]
    if unk:
        again = discharge([obs[i] for i in unk], tier="thorough", timeout_ms=timeout_ms * 3, workers=4)
        for i, v in zip(unk, again):
            if v.verdict != "unknown":
                verdicts[i] = v
    by_oid: dict[str, list] = defaultdict(list)
    for o, v in zip(obs, verdicts):
        by_oid[o.oid].append((o, v))
    status: dict[str, str] = {}
    for oid, lst in by_oid.items():
        vs = [v.verdict for _, v in lst]
        if "disagree" in vs:
            status[oid] = "disagree"
        elif "refuted" in vs:
            status[oid] = "refuted"
        elif "unknown" in vs:
            status[oid] = "unknown"
        else:
            status[oid] = "proved"
    known = load_known(prop)
    violations: list[dict] = []
    known_hits: list[dict] = []
    exit_code = 0
    rdir = os.path.join(ROOT, "replays", prop)
    os.makedirs(rdir, exist_ok=True)
    for old in os.listdir(rdir):
        if old.endswith(".json"):
            os.unlink(os.path.join(rdir, old))
    for oid, st in sorted(status.items()):
        if st == "disagree":
            print(f"ENGINE-ERROR solvers disagree on {oid}")
            exit_code = max(exit_code, 3)
        elif st == "unknown":
            undecided.append(oid)
        elif st == "refuted":
            inst = [(o, v) for o, v in by_oid[oid] if v.verdict == "refuted"]
            kf = replay_mod.match_known(known, oid, inst)
            if kf is not None:
                known_hits.append({"oid": oid, "finding": kf["id"], "what": kf["what_fails"]})
                continue
            rp = replay_mod.make_replay(eng, prop, oid, inst, repo, seed)
            violations.append({"oid": oid, "replay": rp["path"], "reproduced": rp["reproduced"]})
    # functions out of reach / missing
    for r in reports:
        if r.status == "unsupported":
            for u in sorted(set(r.unsupported)):
                undecided.append(f"{r.key}: {u}")
        for vc in r.vacuous_cases:
            undecided.append(f"{r.key} / {vc}: no feasible path (vacuous precondition?)")
    # bounded stand-ins
    bounded = []
    if not args.no_bounded:
        from .bounded import run_bounded
        bounded = run_bounded(eng, prop, tier, repo, seed, known)
        for b in bounded:
            for f in b.get("failures", []):
                if f.get("known"):
                    known_hits.append({"oid": f["oid"], "finding": f["known"], "what": f["what"]})
                else:
                    violations.append({"oid": f["oid"], "replay": f["replay"], "reproduced": True})
            if b.get("crash"):
                print(f"BOUNDED-CRASH {b['name']}: {b['crash']}")
                exit_code = max(exit_code, 3)
    # ledger: obligations that discharged on the pinned tree must still exist
    ledger_path = os.path.join(ROOT, "ledger.json")
    ledger = json.load(open(ledger_path)) if os.path.exists(ledger_path) else {}
    if args.write_ledger:
        ledger[prop] = sorted(oid for oid, st in status.items() if st == "proved")
        json.dump(ledger, open(ledger_path, "w"), indent=0, sort_keys=True)
    missing = [oid for oid in ledger.get(prop, []) if oid not in status] if not args.only else []
    for oid in missing:
        undecided.append(f"obligation in the ledger was not generated on this tree: {oid}")
    if not status and not bounded:
        print(f"ENGINE-ERROR zero obligations generated for {prop}")
        exit_code = max(exit_code, 3)
    seen_known = set()
    for k in known_hits:
        if k["finding"] in seen_known:
            continue
        seen_known.add(k["finding"])
        print(f"KNOWN-FINDING: property={prop} {k['what']}")
    for v in violations:
        tail = "" if v["reproduced"] else " no-failing-input-found"
        print(f"VIOLATION property={prop} replay={v['replay']}{tail}")
    if violations:
        exit_code = max(exit_code, 1)
    for u in undecided[:40]:
        print(f"UNDECIDED property={prop} {u}")
    if undecided and exit_code == 0:
        exit_code = 2
    from .evidence import write_evidence
    write_evidence(eng, prop, tier, seed, reports, obs, verdicts, status, known_hits, violations, undecided, bounded,
                   time.time() - t0)
    n_ok = sum(1 for s in status.values() if s == "proved")
    print(f"{prop}: {len(status)} obligations ({len(obs)} path instances), {n_ok} discharged, "
          f"{len(known_hits)} known-finding instances, {len(violations)} violations, {len(undecided)} undecided, "
          f"{time.time() - t0:.1f}s")
    return exit_code


if __name__ == "__main__":
    sys.exit(main())
