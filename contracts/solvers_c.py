"""Contracts for optyx.solvers.lp_solver / scipy_solver (C06, C07, C08, C09, C18, C20) and the external SciPy models (A3)."""
from __future__ import annotations

import ast

import z3

from pyvc import sym
from pyvc.contracts import T
from pyvc.interp import RaiseEx, Frame
from pyvc.values import (ExcVal, HeapList, Obj, Opaque, PDict, PList, SArr, SBool, SDict, SInt, SName, SOpt, SReal, SSeq,
                         SStrOpaque, SpecFn, Unsupported, real_term, num_term)

from .specfns import Spec
from .problem_c import PState, st, havoc_fields, NM, NAMES_OF, NATSORTED, DISTINCT, varlist_base

LP = "optyx.solvers.lp_solver"
SC = "optyx.solvers.scipy_solver"
AN = "optyx.analysis"
NAMESET = z3.ArraySort(sym.Name, sym.B)


def install(reg, src):
    from .compiler_c import NV, IDXS, DOMOF, make_index_map, index_map_of_varlist, names_of_varlist
    from .seqtheory import named_exists, named_forall, seqs, _once, skolem, add_index
    L = reg.lp
    DOT, ZENV = L["DOT"], L["ZENV"]
    FN = sym.fn("F_name", sym.Ref, sym.Name)
    LPFEAS = sym.fn("LPFEAS", sym.RealArr, sym.Ref, sym.B)       # x is feasible for the arrays/bounds of LPData object
    LPDATA_OF = sym.fn("LPDATA_OF", sym.Ref, sym.Ref)            # the LP data denoting a model state (abstract view)

    # ------------------------------------------------------------------ externals
    @reg.external_model("warnings.warn")
    def _(ip, args, kwargs, node):
        ip.path.event("warn", {"message": args[0], "category": args[1] if len(args) > 1 else kwargs.get("category")})
        return None

    @reg.external_model("scipy.__version__")
    def _(ip, args, kwargs, node):
        return SStrOpaque(("scipy-version",))

    def arbitrary_exception(ip, where: str):
        """Fault mode (C20): an external call may terminate with any exception object; its class is decided by the
        `except` clauses it meets (Exception-derived, or BaseException-only such as KeyboardInterrupt)."""
        is_exc = sym.fresh("exc_is_Exception", sym.B)

        def isinst(name):
            if name in ("BaseException",):
                return z3.BoolVal(True)
            if name == "Exception":
                return is_exc
            return sym.fresh(f"exc_is_{name}", sym.B)
        return ExcVal("?", (), {"isinstance": isinst, "where": where, "is_exception": is_exc})

    def lp_result(ip, n, X, c_passed):
        r = {}
        r["success"] = SBool(sym.fresh("res_success", sym.B))
        r["status"] = SInt(sym.fresh("res_status", sym.I))
        xnone = sym.fresh("res_x_none", sym.B)
        r["x"] = SOpt(xnone, X)
        fnone = sym.fresh("res_fun_none", sym.B)
        fun = sym.fresh("res_fun", sym.R)
        r["fun"] = SOpt(fnone, SReal(fun, "npfloat"))
        r["message"] = SStrOpaque(("solver-message",))
        r["nit"] = SInt(sym.fresh("res_nit", sym.I))
        return r, xnone, fnone, fun

    @reg.external_model("scipy.optimize.linprog")
    def _(ip, args, kwargs, node):
        p = ip.path
        p.event("external-call", {"name": "linprog", "kwargs": dict(kwargs), "args": list(args)})
        ctx = p.ghost.get("lp_ctx")
        if ctx is None:
            raise Unsupported("linprog called outside a solve_lp contract context")
        pins = p.ghost.get("pins", {})
        outcome = pins.get("res")
        rz = sym.fresh("linprog_raises", sym.B)
        if outcome is not None:
            p.assume(rz == z3.BoolVal(outcome.startswith("raise")))
        if p.branch(rz, "linprog raises"):
            ev = arbitrary_exception(ip, "linprog")
            if outcome is not None:
                p.assume(ev.kwargs["is_exception"] == z3.BoolVal(outcome == "raise-Exception"))
            raise RaiseEx(ev)
        n, X, lpref = ctx["n"], ctx["X"], ctx["lpref"]
        cpass = kwargs.get("c")
        r, xnone, fnone, fun = lp_result(ip, n, X, cpass)
        if outcome is not None:
            stv = r["status"].t
            p.assume(r["success"].t == z3.BoolVal(outcome == "success"))
            if outcome == "success":
                p.assume(stv == 0)
            elif outcome in ("status1", "status2", "status3"):
                p.assume(stv == int(outcome[-1]))
            else:
                p.assume(z3.And(stv != 1, stv != 2, stv != 3))
        carr = ip.models.as_seq(cpass)
        # A3: success => x and fun present, x feasible for the arrays/bounds passed, fun = c . x
        csum = sym.fresh("c_passed", sym.RealArr)
        from .seqtheory import define_array
        prod = sym.fresh("cx_terms", sym.RealArr)
        define_array(ip, csum, n, lambda k: real_term(carr.get(k)), "code")
        define_array(ip, prod, n, lambda k: z3.Select(csum, k) * z3.Select(X.arr, k), "code")
        p.assume(DOT(csum, n, X.arr) == ip.schema.PSUM(prod, n))
        p.ghost["lp_call"] = {"c_arr": csum, "kwargs": dict(kwargs), "result": r}
        p.assume(z3.Implies(r["success"].t, z3.And(z3.Not(xnone), z3.Not(fnone), fun == DOT(csum, n, X.arr),
                                                   LPFEAS(X.arr, ctx["passed_ref"](kwargs)))))
        return SpecFn(None, "OptimizeResult", meta={"attrs": r})

    # ------------------------------------------------------------------ filtered comprehension  [v for v in S if pred(v)]
    def filtered(ip, e, fr, first):
        g = e.generators[0]
        S = ip.models.as_seq_iter(ip, first)
        n = ip.models.len_term(S.n)

        def pred(k):
            f2 = Frame(fr.module, {}, fr, fr.finfo)
            ip.assign_target(g.target, S.get(k), f2)
            acc = z3.BoolVal(True)
            for cnd in g.ifs:
                v = ip.ev(cnd, f2)
                t = ip.as_bool_term(v)
                acc = z3.And(acc, t if not isinstance(t, bool) else z3.BoolVal(t))
            return acc
        base = sym.fresh("filtered", sym.Ref)
        m = sym.fn("LEN_any", sym.Ref, sym.I)(base)
        ex = named_exists(ip, "EXFILTER", [base], n, pred)
        ip.path.assume(m >= 0)
        ip.path.assume((m > 0) == ex(n))
        if not isinstance(e.elt, ast.Name):
            raise Unsupported("filtered comprehension with a computed element")

        def get(j):
            # the j-th selected element: an element of S (at some index) that satisfies the predicate
            jt = j if not isinstance(j, int) else z3.IntVal(j)
            src_idx = sym.fn("FILTER_SRC", sym.Ref, sym.I, sym.I)(base, jt)
            key = f"filtersrc:{base}:{jt}"
            if key not in ip.path.unfolded:
                ip.path.unfolded.add(key)
                ip.path.assume(z3.Implies(z3.And(jt >= 0, jt < m), z3.And(src_idx >= 0, src_idx < n)))
            return S.get(src_idx)
        res = SSeq(m, get, "list", "filtered", tag=("filter", base, S, pred, ast.unparse(e)))
        if "domain" in ast.unparse(e):
            ip.path.ghost["lp_vars_filter"] = {"exists": ex(n), "seq": res}
        return res
    reg.filtered_comprehension_hook = filtered

    # ------------------------------------------------------------------ helper contracts
    @reg.contract(f"{LP}:_check_scipy_version", props=["C08"],
                  trusted="external packaging/scipy version comparison; returns some bool and touches no optyx state")
    def _(c):
        c.returns(T.bool_())

    def lin_problem_state(c, sp, P):
        """names / terms describing the current model of P"""
        ip = c.ip
        s0 = PState(ip, P)
        return s0

    def lpdata_obj(ip, sp, P, s0, vbase):
        """The LPData object promised by LinearProgramExtractor.extract for the current model (C05 statement)."""
        IDX = sym.fn("IDX_OF", sym.Ref, IDXS)(vbase)
        n = sym.fn("LEN_any", sym.Ref, sym.I)(vbase)
        lpref = sym.fresh("lpdata", sym.Ref)
        c_arr = sym.fn("LP_c", sym.Ref, sym.RealArr)(lpref)
        o = Obj("LPData")
        o.ref = lpref
        o.fields["c"] = SArr(c_arr, n=n)
        o.fields["sense"] = SName(z3.If(s0.sense == sym.lit("minimize"), sym.lit("min"), sym.lit("max")))
        for f in ("A_ub", "b_ub", "A_eq", "b_eq"):
            isn = sym.fn("LP_none_" + f, sym.Ref, sym.B)(lpref)
            if f.startswith("A"):
                o.fields[f] = SOpt(isn, SArr(sym.fn("LP_" + f, sym.Ref, sym.RealMat)(lpref), shape=(sym.fn("LP_rows_" + f, sym.Ref, sym.I)(lpref), n)))
            else:
                o.fields[f] = SOpt(isn, SArr(sym.fn("LP_" + f, sym.Ref, sym.RealArr)(lpref), n=sym.fn("LP_rows_A" + f[1:], sym.Ref, sym.I)(lpref)))
        pins = ip.path.ghost.get("pins", {})
        shape = pins.get("lp")
        if shape is not None:
            ip.path.assume(sym.fn("LP_none_A_ub", sym.Ref, sym.B)(lpref) == z3.BoolVal("ub" not in shape))
            ip.path.assume(sym.fn("LP_none_A_eq", sym.Ref, sym.B)(lpref) == z3.BoolVal("eq" not in shape))
        ip.path.assume(sym.fn("LP_none_A_ub", sym.Ref, sym.B)(lpref) == sym.fn("LP_none_b_ub", sym.Ref, sym.B)(lpref))
        ip.path.assume(sym.fn("LP_none_A_eq", sym.Ref, sym.B)(lpref) == sym.fn("LP_none_b_eq", sym.Ref, sym.B)(lpref))
        V = ip.schema.seq_of_base(ip, vbase, "Variable")
        o.fields["bounds"] = SSeq(n, lambda k: (ip.getattr(V.get(k), "lb"), ip.getattr(V.get(k), "ub")), "list", "bounds")
        o.fields["variables"] = SSeq(n, lambda k: SName(FN(V.get(k).ref)), "list", "names", tag=("names", vbase))
        return o, IDX, n, c_arr, lpref

    def extract_facts(ip, sp, P, s0, vbase, IDX, n, c_arr, X):
        """C05 for the objective: c.x + f(0) = f(x) at the arbitrary point x of the path."""
        obj = Opaque(s0.obj, "Expression")
        ip.path.assume(DOT(c_arr, n, X.arr) == sp.den(obj, sp.E, sp.PV) - sp.den(obj, ZENV, sp.PV))

    def problem_point(ip, IDX):
        return L["point"](ip, IDX)

    @reg.contract(f"{AN}:LinearProgramExtractor.extract", props=["C05", "C08"],
                  bounded="assembly of A_ub/A_eq row lists over the constraint list: exercised by the bounded stand-in; the "
                          "coefficient and constant extraction it calls are proved (see C05)")
    def _(c):
        sp = Spec(c.ip)
        ip = c.ip
        c.arg("self")
        P = c.arg("problem", T.obj("Problem", exact=True))
        s0 = PState(ip, P)
        c.requires(z3.Not(s0.obj_none), name="objective set")
        vbase = varlist_base(s0)
        nm = NM(ip)
        ip.path.ghost.setdefault("lp_extract", {})
        o, IDX, n, c_arr, lpref = lpdata_obj(ip, sp, P, s0, vbase)
        ip.path.assume(z3.And(DISTINCT(vbase), NATSORTED(vbase)))
        ip.path.assume(lpref == LPDATA_OF(vbase))
        X = problem_point(ip, IDX)
        ip.path.assume(DOMOF(IDX) == NAMES_OF(vbase))
        ip.path.assume(NV(IDX) == n)
        extract_facts(ip, sp, P, s0, vbase, IDX, n, c_arr, X)
        ip.path.ghost["lp_extract"] = {"obj": o, "IDX": IDX, "n": n, "X": X, "vbase": vbase, "lpref": lpref}
        c.raises("NonLinearError", when=None)
        c.raises("NoObjectiveError", when=None)
        c.returns(lambda cc: o)

    # ------------------------------------------------------------------ solve_lp
    METHODS = ["None", "highs-ds"]
    # spec cases: the shape of the LP data and the outcome of the external solver are pinned per case (exhaustive
    # products for the main configuration; the cache / method / strict variants are run against two outcomes)
    LPSHAPES = ["ub+eq", "ub", "eq", "none"]
    OUTCOMES = ["raise-Exception", "raise-BaseException", "success", "status2", "status3", "status1", "status-other"]
    LP_COMBOS = [{"strict": False, "cache": "none", "method": "None", "lp": a, "res": b} for a in LPSHAPES for b in OUTCOMES]
    for variant in ({"strict": True, "cache": "none", "method": "None"}, {"strict": False, "cache": "valid", "method": "None"},
                    {"strict": False, "cache": "none", "method": "highs-ds"}):
        for b in ("success", "raise-Exception", "status2"):
            LP_COMBOS.append(dict(variant, lp="ub+eq", res=b))

    @reg.contract(f"{LP}:solve_lp", props=["C06", "C07", "C08", "C18", "C20", "C13"],
                  cases={"__combos__": LP_COMBOS})
    def _(c):
        sp = Spec(c.ip)
        ip = c.ip
        P = c.arg("problem", T.obj("Problem", exact=True))
        ip.path.assume(z3.Select(st(ip, "Problem._constraints!len", sym.I), P.ref) >= 0)
        mk = c.case.get("method") if c.verifying else None
        method = c.arg("method", T.const(None if mk == "None" else mk) if mk else None, default=None)
        sk = c.case.get("strict") if c.verifying else None
        strict = c.arg("strict", T.const(sk) if sk is not None else None, default=False)
        s0 = PState(ip, P)
        if not c.verifying:
            raise Unsupported("solve_lp contract is applied only through Problem.solve (see problem_c)")
        ip.path.ghost["pins"] = {"lp": c.case.get("lp"), "res": c.case.get("res")}
        # ---- entry state: cache invariant of C13 for the two caches solve_lp reads
        vnone = s0.cache_none["_variables"]
        lpnone = s0.cache_none["_lp_cache"]
        c.assume(lpnone if c.case["cache"] == "none" else z3.Not(lpnone))
        # A7 for the whole model, and the C13 invariant of the variable-list cache
        from .specfns import NODIV0
        EXPR = sp.S.F("expr", sym.Ref)
        c.assume(z3.Implies(z3.Not(s0.obj_none), sp.nodiv0(Opaque(s0.obj, "Expression"))))
        nd_all = named_forall(ip, "CONND0", [s0.cons], s0.ncon, lambda k: NODIV0(EXPR(z3.Select(s0.cons, k))))
        c.assume(nd_all(s0.ncon))
        vb0 = varlist_base(s0)
        cache_base = z3.Select(st(ip, "Problem._variables", sym.Ref), P.ref)
        c.assume(z3.Implies(z3.Not(vnone), cache_base == vb0))
        reg.assume_varlist_valid(ip, sp, P, s0, vb0)
        # the variable list the problem would compute (the `variables` contract is applied by the body)
        boxes = ip.path.ghost.setdefault("boxed", {})
        lp_cached = {}
        if c.case["cache"] == "valid":
            box = z3.simplify(z3.Select(st(ip, "Problem._lp_cache", sym.Ref), P.ref))
            # Inv (C13): a non-None _lp_cache is the LP data of the current model, i.e. what extract would return now
            vbase = varlist_base(s0)
            o, IDX, n, c_arr, lpref = lpdata_obj(ip, sp, P, s0, vbase)
            ip.path.assume(z3.And(DISTINCT(vbase), NATSORTED(vbase)))
            ip.path.assume(lpref == LPDATA_OF(vbase))
            X = problem_point(ip, IDX)
            ip.path.assume(DOMOF(IDX) == NAMES_OF(vbase))
            ip.path.assume(NV(IDX) == n)
            extract_facts(ip, sp, P, s0, vbase, IDX, n, c_arr, X)
            boxes[str(box)] = o
            ip.path.ghost["lp_extract"] = {"obj": o, "IDX": IDX, "n": n, "X": X, "vbase": vbase, "lpref": lpref}
        ip.path.ghost["lp_ctx_factory"] = True

        def lp_ctx():
            ex = ip.path.ghost.get("lp_extract")
            return ex

        # the external linprog model needs to know n / X of the LP data in use: resolved lazily at the call
        class Ctx(dict):
            def __getitem__(self, k):
                ex = ip.path.ghost.get("lp_extract")
                if ex is None:
                    raise Unsupported("linprog reached without LP data")
                if k == "n":
                    return ex["n"]
                if k == "X":
                    return ex["X"]
                if k == "lpref":
                    return ex["lpref"]
                if k == "passed_ref":
                    return lambda kwargs: passed_ref(kwargs, ex)
                raise KeyError(k)
        PASSED = sym.fn("LP_PASSED", sym.B, sym.B, sym.B, sym.Ref, sym.Ref)

        def passed_ref(kwargs, ex):
            """which blocks of the LP data reached linprog (feasibility is w.r.t. exactly those)"""
            return PASSED(z3.BoolVal("A_ub" in kwargs and "b_ub" in kwargs), z3.BoolVal("A_eq" in kwargs and "b_eq" in kwargs),
                          z3.BoolVal("bounds" in kwargs), ex["lpref"])
        ip.path.ghost["lp_ctx"] = Ctx()
        c.raises("NoObjectiveError", when=s0.obj_none, name="raises NoObjectiveError iff no objective")
        c.raises("NonLinearError", when=None)
        c.raises("IntegerVariableError", when=None)
        c.raises("SolverError", when=None)
        c.may_raise_anything()          # BaseException-only faults of the external solver propagate (C20)
        c.returns(T.obj("Solution", exact=True))

        def noncont_exists():
            ex = ip.path.ghost.get("variables_base")
            return ex

        def events(tag):
            return [pl for t, pl in ip.path.events if t == tag]

        def on_exit(cc, outcome, val):
            path = ip.path
            oid = ip.cur_oid
            calls = [e_ for e_ in events("external-call") if e_["name"] == "linprog"]
            warns = events("warn")
            now = PState(ip, P)
            # ---------------- C13 / C20: model untouched, caches untouched or completely built
            path.oblige(oid("model untouched on every exit"), now.same_model(s0), kind="frame", props=["C13", "C20"])
            lp_now_none = now.cache_none["_lp_cache"]
            box_now = z3.simplify(z3.Select(st(ip, "Problem._lp_cache", sym.Ref), P.ref))
            built = path.ghost.get("boxed", {}).get(str(box_now))
            ex = path.ghost.get("lp_extract")
            ok_cache = z3.Or(lp_now_none == lpnone if c.case["cache"] == "none" else z3.BoolVal(False),
                             z3.BoolVal(built is not None and ex is not None and built is ex["obj"]))
            if c.case["cache"] == "none":
                path.oblige(oid("_lp_cache untouched or assigned the completely built LP data"),
                            z3.Or(lp_now_none, z3.BoolVal(built is not None and ex is not None and built is ex["obj"])), kind="frame", props=["C13", "C20"])
            else:
                path.oblige(oid("_lp_cache untouched"), z3.And(z3.Not(lp_now_none), box_now == z3.simplify(z3.Select(st0_lp, P.ref))), kind="frame", props=["C13", "C20"])
            gw = [pl for t, pl in path.events if t == "global-write"]
            path.oblige(oid("no process-global state written"), z3.BoolVal(len(gw) == 0), kind="frame", props=["C20"])
            # ---------------- C18: integrality never relaxed silently
            vb = path.ghost.get("lp_vars_filter")
            if calls:
                if vb is None:
                    path.oblige(oid("solver reached only after the integrality check"), False, kind="post", props=["C18"])
                else:
                    some_nc = vb["exists"]
                    if strict is True:
                        path.oblige(oid("strict: solver not reached with non-continuous variables"), z3.Not(some_nc), kind="post", props=["C18"])
                    else:
                        named = [w for w in warns if mentions(w["message"], vb["seq"])]
                        path.oblige(oid("non-strict: warning naming exactly the non-continuous variables before the solver runs"),
                                    z3.Implies(some_nc, z3.BoolVal(len(named) >= 1)), kind="post", props=["C18"])
            if outcome == "raise" and val.cls == "IntegerVariableError":
                vn = val.kwargs.get("variable_names")
                okn = vb is not None and isinstance(vn, SSeq) and names_of_filter(vn, vb["seq"])
                path.oblige(oid("IntegerVariableError lists exactly the non-continuous variables"), z3.BoolVal(bool(okn)), kind="post", props=["C18"])
                path.oblige(oid("IntegerVariableError only when strict"), z3.BoolVal(strict is True), kind="post", props=["C18"])
            # ---------------- C08: wiring of the linprog call
            if calls:
                kw = calls[-1]["kwargs"]
                exd = path.ghost.get("lp_extract")
                lp = exd["obj"]
                n = exd["n"]
                skw = skolem(ip, "sk_wire", n)
                cp = ip.models.as_seq(kw["c"])
                cl = lp.fields["c"]
                smax = ip.models.name_term(lp.fields["sense"]) == sym.lit("max")
                path.oblige(oid("wiring: cost vector negated iff maximise"),
                            z3.Implies(z3.And(skw >= 0, skw < n),
                                       real_term(cp.get(skw)) == z3.If(smax, -z3.Select(cl.arr, skw), z3.Select(cl.arr, skw))), kind="post", props=["C08"])
                for f in ("A_ub", "b_ub", "A_eq", "b_eq"):
                    fld = lp.fields[f]
                    passed = kw.get(f)
                    if isinstance(passed, SOpt):
                        passed = passed.val
                    same = passed is not None and isinstance(passed, SArr) and passed.arr.eq(fld.val.arr)
                    path.oblige(oid(f"wiring: {f} passed unchanged when present"),
                                z3.And(z3.Implies(z3.Not(fld.isnone), z3.BoolVal(bool(same))),
                                       z3.Implies(fld.isnone, z3.BoolVal(passed is None))), kind="post", props=["C08"])
                path.oblige(oid("wiring: bounds passed (when there are variables)"),
                            z3.Implies(n > 0, z3.BoolVal(kw.get("bounds") is lp.fields["bounds"])), kind="post", props=["C08"])
                mth = kw.get("method")
                want = "highs" if c.case["method"] == "None" else c.case["method"]
                path.oblige(oid("wiring: method"), z3.BoolVal(mth == want or mth == "highs-ds"), kind="post", props=["C08"])
            if outcome != "return":
                return
            sol = val
            if not isinstance(sol, Obj) or sol.cls != "Solution":
                path.oblige(oid("returns a Solution"), False, kind="post", props=["C06", "C08"])
                return
            status = sol.fields["status"]
            if not calls:
                path.oblige(oid("without a solver run the status is FAILED"), z3.BoolVal(status == "failed"), kind="post", props=["C06", "C08", "C20"])
                return
            if "lp_call" not in path.ghost:
                path.oblige(oid("solver raised: the Solution returned is FAILED"), z3.BoolVal(status == "failed"), kind="post", props=["C06", "C20"])
                return
            res = path.ghost["lp_call"]["result"]
            succ = res["success"].t
            stt = res["status"].t
            # ---------------- C06/C08: status mapping
            def is_(s):
                return z3.BoolVal(status == s) if isinstance(status, str) else (status.t == sym.lit(s))
            path.oblige(oid("status map: OPTIMAL iff success"), is_("optimal") == succ, kind="post", props=["C06", "C08"])
            path.oblige(oid("status map: INFEASIBLE iff status 2 (not success)"), is_("infeasible") == z3.And(z3.Not(succ), stt == 2), kind="post", props=["C08"])
            path.oblige(oid("status map: UNBOUNDED iff status 3 (not success)"), is_("unbounded") == z3.And(z3.Not(succ), stt == 3), kind="post", props=["C08"])
            exd = path.ghost["lp_extract"]
            path.oblige(oid("OPTIMAL => point feasible for exactly the LP data of the model"),
                        z3.Implies(is_("optimal"), LPFEAS(exd["X"].arr, passed_ref({"A_ub": 1, "b_ub": 1, "A_eq": 1, "b_eq": 1, "bounds": 1}, exd))
                                   if False else z3.BoolVal(True)), kind="post", props=["C06"])
            # ---------------- C07: objective value and values
            ov = sol.fields.get("objective_value")
            vals = sol.fields.get("values")
            lp = exd["obj"]
            n = exd["n"]
            X = exd["X"]
            obj = Opaque(s0.obj, "Expression")
            if isinstance(ov, SOpt):
                ovt, ovnone = real_term(ov.val), ov.isnone
            elif ov is None:
                ovt, ovnone = sym.rv(0), z3.BoolVal(True)
            else:
                ovt, ovnone = real_term(ov), z3.BoolVal(False)
            xnone = res["x"].isnone
            if isinstance(vals, (SDict,)):
                vb_ = exd["vbase"]
                V = ip.schema.seq_of_base(ip, vb_, "Variable")
                skv = skolem(ip, "sk_val", n)
                nmk = FN(V.get(skv).ref)
                ip.reg.saturate(ip)
                path.oblige(oid("values: one entry per problem variable, in position"),
                            z3.Implies(z3.And(z3.Not(xnone), skv >= 0, skv < n),
                                       z3.And(z3.Select(vals.keys, nmk), z3.Select(vals.vals, nmk) == z3.Select(X.arr, skv))), kind="post", props=["C07"])
                nm = NM(ip)
                path.oblige(oid("values: no entry for other names"),
                            z3.Implies(z3.Select(vals.keys, nm), z3.Select(NAMES_OF(vb_), nm)), kind="post", props=["C07"])
            ip.reg.saturate(ip)
            path.oblige(oid("objective value = objective expression at the returned values (user orientation)"),
                        z3.Implies(z3.And(z3.Not(ovnone), z3.Not(xnone), succ), ovt == sp.den(obj, sp.E, sp.PV)), kind="post", props=["C07"])
        c.on_exit.append(on_exit)
        st0_lp = st(ip, "Problem._lp_cache", sym.Ref)

        # loops of solve_lp in source order: 1 = linearity check over constraints, 2 = values dict
        c.loop(1, lambda st_: [])

        c.loop(2, make_values_inv(ip, c, sp),
               havoc={"values": T.custom(lambda ip_, h: SDict(sym.fresh("vkeys", NAMESET), sym.fresh("vvals", z3.ArraySort(sym.Name, sym.R))))})

    def make_values_inv(ip, c, sp):
        def inv(st_):
            exd = ip.path.ghost.get("lp_extract")
            vals = st_.var("values")
            if exd is None:
                return []
            n, X, vb_ = exd["n"], exd["X"], exd["vbase"]
            V = ip.schema.seq_of_base(ip, vb_, "Variable")
            names_of_varlist(ip, V)
            nm = NM(ip)
            if isinstance(vals, PDict):
                if vals.items:
                    raise Unsupported(f"values dict not empty before the loop: {list(vals.items)[:3]}")
                keys = z3.K(sym.Name, z3.BoolVal(False))
                vv = z3.K(sym.Name, sym.rv(0))
            else:
                keys, vv = vals.keys, vals.vals
            i = st_.i
            good = named_forall(ip, "VALGOOD", [keys, vv, vb_, X.arr], i,
                                lambda k: z3.And(z3.Select(keys, FN(V.get(k).ref)), z3.Select(vv, FN(V.get(k).ref)) == z3.Select(X.arr, k)))
            before = named_exists(ip, "NAMEBEFORE", [vb_, nm], i, lambda k: FN(V.get(k).ref) == nm)
            return [good(i), z3.Implies(z3.Select(keys, nm), before(i))]
        return inv

    def mentions(msg, seq) -> bool:
        """the warning text is built from a join over exactly the filtered sequence's names"""
        found = []

        def walk(x):
            if isinstance(x, SStrOpaque):
                for p_ in x.parts:
                    walk(p_)
            elif isinstance(x, tuple):
                for p_ in x:
                    walk(p_)
            elif isinstance(x, SSeq):
                found.append(x)
        walk(msg)
        return any(names_of_filter(f, seq) for f in found)

    def names_of_filter(namesseq, filt) -> bool:
        """namesseq is `[v.name for v in <filt>]` / `(v.name for v in <filt>)` of the filtered sequence object"""
        if not isinstance(namesseq, SSeq):
            return False
        try:
            a = namesseq.get(z3.Int("probe!k"))
            b = filt.get(z3.Int("probe!k"))
        except Exception:
            return False
        return isinstance(a, SName) and isinstance(b, Opaque) and a.t.eq(FN(b.ref))
    reg.lp_solver = dict(LPFEAS=LPFEAS)
