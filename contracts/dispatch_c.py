"""Problem.solve: the dispatcher between the LP front end and the SciPy front end (C08 routing, C09 transparency, C18 `strict`).

The two front ends are proved on their own (contracts/solvers_c.py) for every value of their arguments; what is proved here is
that Problem.solve hands each of them exactly what the caller asked for:

  * no objective            -> NoObjectiveError, nothing is called
  * method == "auto"        -> solve_lp (no method) iff _is_linear_problem(), else solve_scipy(method=_auto_select_method())
  * "linprog"               -> solve_lp (no method);    "highs" / "highs-ds" / "highs-ipm" -> solve_lp(method=<that name>)
  * anything else           -> solve_scipy(method=<that name>)
  * in every arm: the problem itself, `strict` as given, the caller's keyword arguments unchanged and nothing added to them;
    the front end's Solution (or exception) is what the caller gets; Problem.solve writes no field of the model.

While this contract is under verification the front ends are applied as recording stubs (any result, any exception).
"""
from __future__ import annotations

import z3

from pyvc import sym
from pyvc.contracts import T
from pyvc.values import Obj, Opaque, PDict, SBool, SName, SpecFn, Unsupported

from .specfns import Spec
from .problem_c import PState, st

M = "optyx.problem"
LP_NAMES = ("highs", "highs-ds", "highs-ipm")
METHODS = ["auto", "linprog", "highs", "highs-ds", "highs-ipm", "SLSQP", "trust-constr", "L-BFGS-B", "BFGS", "Nelder-Mead", "COBYLA"]


def install(reg, src):
    def dispatch_apply(c, name):
        """Recording stub for a solver front end called from Problem.solve."""
        ip = c.ip
        P0 = c.actual_args[0] if c.actual_args else c.actual_kwargs.get("problem")
        snap = None
        if isinstance(P0, (Obj, Opaque)):
            # the per-problem caches as they are when the front end takes over (Problem.solve itself must not have written them)
            snap = {}
            for f_, srt in (("_variables", sym.Ref), ("_solver_cache", sym.Ref), ("_lp_cache", sym.Ref), ("_is_linear_cache", sym.B)):
                snap[f_] = (z3.simplify(z3.Select(st(ip, f"Problem.{f_}!none", sym.B), P0.ref)),
                            z3.simplify(z3.Select(st(ip, f"Problem.{f_}", srt), P0.ref)))
        ip.path.event("dispatch", {"callee": name, "args": list(c.actual_args), "kwargs": dict(c.actual_kwargs), "caches": snap})
        from .problem_c import havoc_fields
        P = c.actual_args[0] if c.actual_args else c.actual_kwargs.get("problem")
        if isinstance(P, (Obj, Opaque)):
            havoc_fields(ip, P, ["_variables", "_solver_cache", "_lp_cache", "_is_linear_cache"])     # caches: the front ends' business
        c.may_raise_anything()
        res = Opaque(sym.fresh("solution_of_" + name, sym.Ref), "Solution", exact=True)
        ip.path.ghost.setdefault("dispatch_results", []).append(res)
        c.returns(lambda cc: res)
    reg.dispatch_apply = dispatch_apply

    def callee_default(name, param):
        """default value of a keyword parameter of a front end, read from its signature in the current source"""
        import ast as _ast
        key = {"solve_lp": "optyx.solvers.lp_solver:solve_lp", "solve_scipy": "optyx.solvers.scipy_solver:solve_scipy"}[name]
        fi = src.funcs.get(key)
        if fi is None:
            return None
        a = fi.node.args
        names = [x.arg for x in a.posonlyargs + a.args]
        defs = [None] * (len(names) - len(a.defaults)) + list(a.defaults)
        for n_, d_ in list(zip(names, defs)) + list(zip([x.arg for x in a.kwonlyargs], a.kw_defaults)):
            if n_ == param and d_ is not None:
                try:
                    return _ast.literal_eval(d_)
                except Exception:       # noqa: BLE001
                    return None
        return None

    @reg.contract(f"{M}:Problem.solve", props=["C08", "C09", "C18", "C06", "C13", "C20"],
                  cases={"method": METHODS, "strict": [False, True], "objective": ["set", "none"]},
                  skip_cases=lambda case: case["objective"] == "none" and (case["method"] not in ("auto", "SLSQP") or case["strict"]))
    def _(c):
        ip = c.ip
        sp = Spec(ip)
        if not c.verifying:
            raise Unsupported("Problem.solve is an entry point (never called by code under contract)")
        case = c.case
        P = c.arg("self", T.obj("Problem", exact=True))
        ip.path.assume(z3.Select(st(ip, "Problem._constraints!len", sym.I), P.ref) >= 0)
        method = c.arg("method", T.const(case["method"]))
        strict = c.arg("strict", T.const(case["strict"]))
        added: dict = {}
        user_kwargs = SpecFn(None, "caller's keyword arguments",
                             meta={"kwargs": True, "setitem": lambda ip_, k_, v_: added.__setitem__(ip_.models.key(k_), v_)})
        c.star_kwargs = user_kwargs
        s0 = PState(ip, P)
        c.assume(s0.obj_none if case["objective"] == "none" else z3.Not(s0.obj_none))
        # C13 invariants the callees require of their callers (variable-list cache, linearity cache)
        for pre in getattr(reg, "solve_entry_invariants", []):
            pre(c, sp, P, s0)
        ip.path.ghost["dispatch"] = True
        entry_caches = {}
        for f_, srt in (("_variables", sym.Ref), ("_solver_cache", sym.Ref), ("_lp_cache", sym.Ref), ("_is_linear_cache", sym.B)):
            entry_caches[f_] = (z3.simplify(z3.Select(st(ip, f"Problem.{f_}!none", sym.B), P.ref)),
                                z3.simplify(z3.Select(st(ip, f"Problem.{f_}", srt), P.ref)))
        c.raises("NoObjectiveError", when=s0.obj_none, name="raises NoObjectiveError iff no objective")
        c.may_raise_anything()          # whatever the front end raises reaches the caller
        c.returns(T.obj("Solution", exact=True))

        def on_exit(cc, outcome, val):
            path = ip.path
            oid = ip.cur_oid
            ds = [pl for t, pl in path.events if t == "dispatch"]
            P_ = ["C08", "C09", "C18"]
            if case["objective"] == "none":
                path.oblige(oid("no objective: no solver is called"), z3.BoolVal(not ds), kind="post", props=P_ + ["C20"])
                return
            if outcome == "raise" and not ds:
                # an exception before any front end was reached (e.g. from the linearity analysis): nothing to wire
                return
            path.oblige(oid("exactly one solver front end is called"), z3.BoolVal(len(ds) == 1), kind="post", props=P_)
            if len(ds) != 1:
                return
            d = ds[0]
            # entries the code stored into the caller's **kwargs dictionary before forwarding it count as explicit keywords
            kw = {ip.models.unkey(k_) if not isinstance(k_, str) else k_: v_ for k_, v_ in added.items()}
            kw.update(d["kwargs"])
            m = case["method"]
            lin = path.ghost.get("is_linear_problem_answer")
            got_method = kw.get("method") if len(d["args"]) < 2 else d["args"][1]
            if "method" not in kw and len(d["args"]) < 2:
                got_method = callee_default(d["callee"], "method")
            if m == "auto":
                if lin is None:
                    path.oblige(oid("auto: routed by _is_linear_problem()"), False, kind="post", props=["C08", "C09"])
                else:
                    path.oblige(oid("auto: the LP front end iff the problem is linear"),
                                z3.BoolVal(d["callee"] == "solve_lp") == lin, kind="post", props=["C08", "C09"])
                if d["callee"] == "solve_lp":
                    path.oblige(oid("auto / linear: no method forced on the LP front end"), z3.BoolVal(got_method is None), kind="post", props=["C08"])
                else:
                    sel = path.ghost.get("auto_selected_method")
                    ok = sel is not None and got_method is not None and (got_method is sel or (
                        not isinstance(got_method, str) and not isinstance(sel, str) and
                        path.entails(ip.models.name_term(got_method) == ip.models.name_term(sel))))
                    path.oblige(oid("auto / nonlinear: the method chosen by _auto_select_method()"), z3.BoolVal(bool(ok)), kind="post", props=["C09"])
            elif m == "linprog":
                path.oblige(oid("linprog: the LP front end, no method forced"),
                            z3.BoolVal(d["callee"] == "solve_lp" and got_method is None), kind="post", props=["C08"])
            elif m in LP_NAMES:
                path.oblige(oid("highs*: the LP front end with that method"),
                            z3.BoolVal(d["callee"] == "solve_lp" and got_method == m), kind="post", props=["C08"])
            else:
                path.oblige(oid("explicit NLP method: the SciPy front end with that method"),
                            z3.BoolVal(d["callee"] == "solve_scipy" and got_method == m), kind="post", props=["C09"])
            a0 = d["args"][0] if d["args"] else kw.get("problem")
            path.oblige(oid("the problem itself is handed over"), z3.BoolVal(a0 is P), kind="post", props=P_)
            if "strict" in kw:
                sv = kw["strict"]
            else:
                sv = callee_default(d["callee"], "strict")        # not passed: the front end's own default applies
            path.oblige(oid("strict reaches the front end with the caller's value"), z3.BoolVal(isinstance(sv, bool) and sv == strict),
                        kind="post", props=["C18"])
            extra = sorted(k for k in kw if k not in ("method", "strict", "**", "problem"))
            path.oblige(oid("the caller's keyword arguments are forwarded, nothing added, nothing dropped"),
                        z3.BoolVal(kw.get("**") is user_kwargs and not extra), kind="post", props=["C09", "C08"])
            if outcome == "return":
                rs = path.ghost.get("dispatch_results", [])
                path.oblige(oid("the front end's Solution is returned unchanged"), z3.BoolVal(any(val is r for r in rs)), kind="post", props=P_ + ["C06"])
            now = PState(ip, P)
            path.oblige(oid("Problem.solve itself leaves the model untouched"), now.same_model(s0), kind="frame", props=["C13", "C20"])
            # ... and the caches: when the front end takes over they are as on entry, except for the linearity cache, which only
            # _is_linear_problem() may have filled (with the linearity of the model: its contract) on the `auto` route
            if d.get("caches"):
                for f_, (n0, v0) in entry_caches.items():
                    n1, v1 = d["caches"][f_]
                    if f_ == "_is_linear_cache" and m == "auto":
                        continue
                    path.oblige(oid(f"Problem.solve itself does not write the cache {f_}"),
                                z3.And(n1 == n0, z3.Implies(z3.Not(n0), v1 == v0)), kind="frame", props=["C13", "C20"])
        c.on_exit.append(on_exit)
