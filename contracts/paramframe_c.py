"""C12, frame half: the routines that *build* symbolic results (simplifiers, differentiation rules, Jacobian rows, the
analysis and extraction routines, constraint constructors, the build-time part of the compilers) never read the current value of
a Parameter.  What they build therefore cannot depend on the values the parameters happen to have at build time; the other half
of C12 -- compiled callables and evaluate() read the store at call time -- is the value clause of the C01 / C03 contracts, stated
at an arbitrary later valuation.

The clause is checked on every path of the body, right after the body ends and before the post-conditions call any returned
closure (a closure reading a Parameter when it is *called* is exactly what C12 wants).  It is tagged for C12 only: a function
listed here is run by the C12 check for this clause alone unless its contract is a C12 contract anyway."""
from __future__ import annotations

import re

BUILDERS = [
    r"optyx\.core\.autodiff:_simplify_\w+", r"optyx\.core\.autodiff:_gradient_cached", r"optyx\.core\.autodiff:gradient",
    r"optyx\.core\.autodiff:_register_vector_gradient_rules\.\w+", r"optyx\.core\.autodiff:compute_jacobian",
    r"optyx\.core\.autodiff:compute_hessian", r"optyx\.core\.autodiff:compile_jacobian", r"optyx\.core\.autodiff:_is_scaled_variable_pattern",
    r".*\.jacobian_row",
    r"optyx\.analysis:_compute_degree_impl", r"optyx\.analysis:compute_degree", r"optyx\.analysis:_compute_degree_cached",
    r"optyx\.analysis:_vector_elements_degree", r"optyx\.analysis:is_linear", r"optyx\.analysis:is_quadratic",
    r"optyx\.analysis:_extract_\w+", r"optyx\.analysis:extract_\w+", r"optyx\.analysis:_try_extract_fast_binop",
    r"optyx\.analysis:LinearProgramExtractor\.\w+",
    r"optyx\.core\.expressions:Expression\.(degree|is_linear)",
    r"optyx\.constraints:_make_constraint", r"optyx\.core\.vectors:_vector_constraint", r"optyx\.core\.vectors:_vector_binary_op",
    r"optyx\.core\.compiler:_build_evaluator", r"optyx\.core\.compiler:_build_vector_evaluator", r"optyx\.core\.compiler:compile_expression",
    r"optyx\.core\.compiler:_compile_cached", r"optyx\.core\.compiler:compile_gradient",
    r"optyx\.core\.compiler:_compile_vectorized_\w+", r"optyx\.solvers\.scipy_solver:_build_solver_cache",
]


def install(reg, src):
    pats = [re.compile(p + "$") for p in BUILDERS]
    marked = []
    for key, ct in reg.contracts.items():
        if key.startswith(("virtual:", "ctor:", "lemma:")) or ct.trusted:
            continue
        if any(p.match(key) for p in pats):
            ct.no_param_reads = True
            if "C12" not in ct.props and "C12" not in ct.extra_props:
                ct.extra_props.append("C12")
            marked.append(key)
    reg.param_frame_builders = marked
