"""C03, part 2: the compiled derivative callables (compile_gradient, compile_jacobian and their helpers).

Statement proved for a returned callable f, for the arbitrary point x (environment E), the arbitrary parameter valuation
at call time and an arbitrary column k:

    e regular for V[k] at (E, PV)   and   the derivative tree optyx builds for (e, V[k]) is inside its domain at (E, PV)
        ==>   f(x)[k]  (resp. f(x)[0][k])  =  d[[e]]/dV[k] (E, PV)

The second hypothesis is A1 made explicit: outside the domain of the derivative tree NumPy yields inf/nan, which the real
arithmetic of the model does not represent (what the sanitiser does with them is property C19).
"""
from __future__ import annotations

import z3

from pyvc import sym
from pyvc.contracts import T, ListSpec
from pyvc.values import Obj, Opaque, PList, SArr, SBool, SInt, SOpt, SReal, SSeq, SpecFn, Unsupported, real_term

from .autodiff_c import Spec
from .compiler_c import IDXS, NV, DOMOF, names_of_varlist, index_map_of_varlist
from .seqtheory import skolem, index_used
from .jacrow_c import varlist, FN

AD = "optyx.core.autodiff"
CP = "optyx.core.compiler"
DOMD = sym.fn("DOMD", sym.Ref, sym.Name, sym.EnvSort, sym.PVSort, sym.B)    # the derivative tree built for (e, w) is in-domain


def install(reg, src):
    # ---- link DOMD to the trees the differentiator returns (definitional: the tree is a function of (e, w))
    gc0 = reg.grad_contract

    def grad_contract_with_domd(c, sp, e, wrt):
        w = gc0(c, sp, e, wrt)
        if not c.verifying:
            c.ensures("DOMD", lambda res: DOMD(sp.ref(e), w, sp.E, sp.PVX) == sp.dom(res, sp.E, sp.PVX))
        return w
    reg.grad_contract_domd = grad_contract_with_domd

    def the_point(ip, sp, IDX):
        """The arbitrary point: x denotes the path's arbitrary environment E; the parameter store at call time is the
        arbitrary valuation PVX (both are unconstrained constants, so nothing is lost)."""
        arr = sym.fresh("x", sym.RealArr)
        x = SArr(arr, n=NV(IDX), envlink=(IDX, sp.E, ip.path))
        ip.path.havoc_store("_value", sym.R)
        ip.path.assume(ip.path.store_of("_value", sym.R) == sp.PVX)
        return x

    def gradient_fn(sp0, e, vs, IDX, need_domd):
        """The callable promised by the gradient compilers: entry k of f(x) is the partial derivative wrt V[k] wherever e is
        regular for V[k] (and, on the symbolic path, the derivative tree is in-domain)."""
        def call(ip2, x, *rest):
            if not isinstance(x, SArr) or x.shape is not None:
                raise Unsupported("compiled gradient applied to a non 1-D array")
            if x.envlink is None:
                x.envlink = (IDX, sym.fresh("ENV_x", sym.EnvSort), ip2.path)
            ENV = x.envlink[1]
            sp2 = Spec(ip2)
            PV = sp2.PV
            n2 = ip2.models.len_term(vs.n)
            base = sym.fresh("grad_out", sym.RealArr)

            def get(k):
                kt = k if not isinstance(k, int) else z3.IntVal(k)
                wk = FN(vs.get(kt).ref)
                hyp = sp2.reg(e, wk, ENV, PV)
                if need_domd:
                    hyp = z3.And(hyp, DOMD(sp2.ref(e), wk, ENV, PV))
                ip2.path.assume(z3.Implies(z3.And(kt >= 0, kt < n2, hyp), z3.Select(base, kt) == sp2.dv(e, wk, ENV, PV)))
                return SReal(z3.Select(base, kt), "npfloat")
            return SSeq(n2, get, "ndarray", "gradient")
        return SpecFn(call, "compiled gradient", meta={"gradient_of": (e, vs, IDX)})
    reg.gradient_fn = gradient_fn

    # ---- compile_gradient
    @reg.contract(f"{CP}:compile_gradient", props=["C03"], cases={"kind": ["general", "VectorPowerSum", "VectorUnarySum"]})
    def _(c):
        ip = c.ip
        sp = Spec(ip)
        kind = c.choose("kind", ["general", "VectorPowerSum", "VectorUnarySum"])
        if c.verifying and kind != "general":
            e = c.arg("expr", T.obj(kind, exact=True))
        else:
            e = c.arg("expr", T.expr())
            if c.verifying:
                c.assume(z3.Not(sp.K.is_any(sp.ref(e), ["VectorPowerSum", "VectorUnarySum"])))
        vs = varlist(c)
        NS = names_of_varlist(ip, vs)
        c.requires(sp.wf(e), name="well-formed scalar expression")
        c.requires(reg.covers(sp, e, NS), name="every variable of the expression is in the variable list")
        if c.verifying:
            reg.covers_to_occ(sp, e, NS)
        m = index_map_of_varlist(ip, vs)
        IDX = m.idx
        n = ip.models.len_term(vs.n)
        c.returns(lambda cc: gradient_fn(sp, e, vs, IDX, True))
        if c.verifying:
            def post(res):
                x = the_point(ip, sp, IDX)
                k = skolem(ip, "sk_col", n)
                index_used(ip, k)
                ip.path.assume(z3.And(k >= 0, k < n))
                wk = FN(vs.get(k).ref)
                ip.path.assume(sp.reg(e, wk, sp.E, sp.PVX))
                ip.path.assume(DOMD(sp.ref(e), wk, sp.E, sp.PVX))
                out = ip.call(res, [x], {}, None)
                S = ip.models.as_seq(out)
                goals = [ip.models.len_term(S.n) == n]
                ip.path.assume(ip.models.len_term(S.n) == n)
                val = S.get(k)
                goals.append(real_term(val) == sp.dv(e, wk, sp.E, sp.PVX))
                ip.reg.saturate(ip)
                return goals
            c.ensures("gradient entry", post)

    # ---- vectorised gradients of sum(x**k) and sum(f(x))
    VEC_BOUNDED = ("closures over fancy-indexed NumPy arrays (full / sparse layouts x per-function derivative tables): the "
                   "scatter/gather model makes the proof search take minutes per case and still leaves cases open, so the "
                   "contract is stated and compared with finite differences by the bounded stand-in (native/bounded_jacobian.py)")

    def vec_grad_contract(key, cls, cases=None, known=None):
        @reg.contract(key, props=["C03"], cases=cases or {}, bounded=VEC_BOUNDED)
        def _(c):
            ip = c.ip
            sp = Spec(ip)
            kn = known(c) if known else None
            e = c.arg("expr", T.obj(cls, exact=True, known=kn))
            vs = varlist(c)
            NS = names_of_varlist(ip, vs)
            c.requires(sp.wf(e), name="well-formed scalar expression")
            c.requires(reg.covers(sp, e, NS), name="every variable of the expression is in the variable list")
            if c.verifying:
                reg.covers_to_occ(sp, e, NS)
                ip.path.ghost["occ_single"] = True
            m = index_map_of_varlist(ip, vs)
            IDX = m.idx
            n = ip.models.len_term(vs.n)
            c.returns(lambda cc: gradient_fn(sp, e, vs, IDX, False))
            if c.verifying:
                def post(res):
                    x = the_point(ip, sp, IDX)
                    k = skolem(ip, "sk_col", n)
                    index_used(ip, k)
                    ip.path.assume(z3.And(k >= 0, k < n))
                    wk = FN(vs.get(k).ref)
                    ip.path.assume(sp.reg(e, wk, sp.E, sp.PVX))
                    out = ip.call(res, [x], {}, None)
                    S = ip.models.as_seq(out)
                    goals = [ip.models.len_term(S.n) == n]
                    ip.path.assume(ip.models.len_term(S.n) == n)
                    val = S.get(k)
                    goals.append(real_term(val) == sp.dv(e, wk, sp.E, sp.PVX))
                    ip.reg.saturate(ip)
                    return goals
                c.ensures("gradient entry", post)
        return _
    vec_grad_contract(f"{CP}:_compile_vectorized_power_gradient", "VectorPowerSum")
    from pyvc.spec import VEC_UNARY_OPS
    vec_grad_contract(f"{CP}:_compile_vectorized_unary_gradient", "VectorUnarySum", cases={"op": list(VEC_UNARY_OPS)},
                      known=lambda c: ({"op": c.choose("op", list(VEC_UNARY_OPS))} if c.choose("op", list(VEC_UNARY_OPS)) else None))
