"""Path state and the depth-first path explorer (re-execution with a decision oracle)."""
from __future__ import annotations

import time
from dataclasses import dataclass, field
from typing import Any, Callable

import z3

from . import sym
from .values import Infeasible, Unsupported


@dataclass
class Obligation:
    oid: str                 # "<function> / <case> / <clause>"
    assumptions: list        # z3 Bool terms (path condition at that point)
    goal: Any                # z3 Bool term
    path_sig: str = ""       # human-readable signature of the path (decisions taken)
    kind: str = "post"       # post | pre | inv-init | inv-preserve | no-raise | frame | reach
    meta: dict = field(default_factory=dict)


DEBUG_LAST = None
SAT_CACHE: dict = {}
_KEEP: list = []      # keeps memoised terms alive so that their ids are not recycled


class Path:
    def __init__(self, decisions: list[bool], solver_timeout_ms: int = 2000):
        self.decisions = list(decisions)
        self.pos = 0
        self.pc: list = []
        self.obligations: list[Obligation] = []
        self.pending: list[list[bool]] = []
        self.kinds: dict[str, str] = {}         # str(ref) -> exact class learned on this path
        self.stores: dict[str, Any] = {}        # mutable field name -> z3 Array Ref->sort (current version)
        self.events: list[tuple] = []           # (tag, payload): external calls, warnings, global writes
        self.ghost: dict[str, Any] = {}
        self.trace: list[str] = []              # branch descriptions (path signature)
        self.globals: dict[str, Any] = {}       # process-global state touched by the code (warnings.showwarning, ...)
        self.unfolded: set[str] = set()
        self.timeout = solver_timeout_ms
        self.n_checks = 0
        self.guards: list = []                  # while non-empty, assumed facts are weakened to guard -> fact

    # ---------------------------------------------------------------- facts
    def assume(self, fact) -> None:
        if isinstance(fact, bool):
            if not fact:
                raise Infeasible()
            return
        if z3.is_true(fact):
            return
        if self.guards:
            fact = z3.Implies(z3.And(*self.guards) if len(self.guards) > 1 else self.guards[0], fact)
        self.pc.append(fact)

    def check_sat(self, extra=None) -> str:
        """'sat' | 'unsat' | 'unknown' for pc (+extra).  Results are memoised across the re-executions of one
        function (terms are hash-consed and fresh names are deterministic per decision prefix)."""
        key = (tuple(t.get_id() for t in self.pc), extra.get_id() if extra is not None else None, len(sym._lits))
        hit = SAT_CACHE.get(key)
        if hit is not None:
            return hit
        r = self._check_sat(extra)
        if len(SAT_CACHE) < 400000:
            SAT_CACHE[key] = r
            _KEEP.append((list(self.pc), extra))     # keep the terms alive: ids must not be recycled while memoised
        return r

    def _check_sat(self, extra=None) -> str:
        self.n_checks += 1
        s = z3.Solver()
        s.set("timeout", self.timeout)
        s.add(*sym.lit_facts())
        s.add(*self.pc)
        if extra is not None:
            s.add(extra)
        r = s.check()
        return "sat" if r == z3.sat else "unsat" if r == z3.unsat else "unknown"

    def entails(self, fact) -> bool:
        """True only if pc |= fact is proved (unknown -> False)."""
        if isinstance(fact, bool):
            return fact
        if z3.is_true(fact):
            return True
        return self.check_sat(z3.Not(fact)) == "unsat"

    # ---------------------------------------------------------------- branching
    def branch(self, cond, desc: str = "") -> bool:
        """Decide a symbolic condition; forks lazily through the decision oracle."""
        if isinstance(cond, bool):
            return cond
        cond = z3.simplify(cond)
        if z3.is_true(cond):
            return True
        if z3.is_false(cond):
            return False
        if self.guards:
            # evaluation of a lazily defined sequence element under its range guard: must be deterministic
            g = z3.And(*self.guards) if len(self.guards) > 1 else self.guards[0]
            if self.check_sat(z3.And(g, cond)) == "unsat":
                return False
            if self.check_sat(z3.And(g, z3.Not(cond))) == "unsat":
                return True
            raise Unsupported(f"data-dependent branch ({desc or cond}) inside a lazily evaluated sequence element")
        if self.pos < len(self.decisions):
            d = self.decisions[self.pos]
            self.pos += 1
            self.pc.append(cond if d else z3.Not(cond))
            self.trace.append(f"{desc or cond}={'T' if d else 'F'}")
            return d
        t = self.check_sat(cond) != "unsat"
        f = self.check_sat(z3.Not(cond)) != "unsat"
        if not t and not f:
            raise Infeasible()
        if t and f:
            self.pending.append(self.decisions[: self.pos] + [False])
            d = True
        else:
            d = t
        self.decisions.append(d)
        self.pos += 1
        self.pc.append(cond if d else z3.Not(cond))
        self.trace.append(f"{desc or cond}={'T' if d else 'F'}")
        return d

    def oblige(self, oid: str, goal, kind: str = "post", **meta) -> None:
        if isinstance(goal, bool):
            goal = z3.BoolVal(goal)
        if self.guards:
            # raised while a lazily defined sequence element is evaluated at an index term: the element only exists for
            # indices inside the range, so the obligation is stated under the range guard
            goal = z3.Implies(z3.And(*self.guards) if len(self.guards) > 1 else self.guards[0], goal)
        self.obligations.append(Obligation(oid, list(self.pc), goal, " ; ".join(self.trace[-12:]), kind, meta))

    def event(self, tag: str, payload=None) -> None:
        self.events.append((tag, payload))

    # mutable opaque fields (component heap)
    def store_of(self, fieldname: str, sort) -> Any:
        if fieldname not in self.stores:
            self.stores[fieldname] = z3.Const(f"store0!{fieldname}", z3.ArraySort(sym.Ref, sort))
        return self.stores[fieldname]

    def havoc_store(self, fieldname: str, sort) -> Any:
        self.stores[fieldname] = sym.fresh(f"store!{fieldname}", z3.ArraySort(sym.Ref, sort))
        return self.stores[fieldname]


@dataclass
class PathResult:
    outcome: str                 # 'return' | 'raise' | 'unsupported' | 'infeasible'
    value: Any
    path: Path
    detail: str = ""


def explore(run_one: Callable[[Path], tuple[str, Any]], max_paths: int = 4000,
            solver_timeout_ms: int = 2000) -> list[PathResult]:
    """Enumerate all paths of `run_one` (which executes the code under a fresh Path)."""
    results: list[PathResult] = []
    work: list[list[bool]] = [[]]
    while work:
        dec = work.pop()
        if len(results) >= max_paths:
            raise Unsupported(f"more than {max_paths} paths")
        sym.reset_fresh()
        p = Path(dec, solver_timeout_ms)
        try:
            outcome, val = run_one(p)
            results.append(PathResult(outcome, val, p))
        except Infeasible:
            results.append(PathResult("infeasible", None, p))
        except Unsupported as e:
            results.append(PathResult("unsupported", None, p, str(e)))
        work.extend(p.pending)
        _KEEP.append(p.pc)
        global DEBUG_LAST
        DEBUG_LAST = p
    SAT_CACHE.clear()
    _KEEP.clear()
    return results
