"""Contracts for optyx.constraints and the vector constraint helper (C10)."""
from __future__ import annotations

import z3

from pyvc import sym
from pyvc.contracts import T
from pyvc.values import Obj, Opaque, SReal, SInt, SSeq, SBool, PList, Unsupported, real_term

from .specfns import Spec

M = "optyx.constraints"
SENSES = ["<=", ">=", "=="]
RHS_KINDS = ["int", "float", "np.float64", "np.int64", "Expression"]


def rhs_value(c, kind):
    if kind == "int":
        return c.arg("rhs", T.custom(lambda ip, h: SReal(sym.to_real(sym.fresh("rhs", sym.I)), "int")))
    if kind == "float":
        return c.arg("rhs", T.real("float"))
    if kind == "np.float64":
        return c.arg("rhs", T.real("npfloat"))
    if kind == "np.int64":
        return c.arg("rhs", T.custom(lambda ip, h: SReal(sym.to_real(sym.fresh("rhs", sym.I)), "npint")))
    return c.arg("rhs", T.expr())


def install(reg, src):
    reg.mark_inline("optyx.core.expressions:Expression.__le__", "optyx.core.expressions:Expression.__ge__",
                    "optyx.core.expressions:Expression.eq", "optyx.core.expressions:Expression.constraint_eq")

    def sense_term(sp, con):
        s = con.fields["sense"] if isinstance(con, Obj) else None
        return s

    @reg.contract(f"{M}:_make_constraint", props=["C10", "C06", "C09"], cases={"sense": SENSES, "rhs": RHS_KINDS})
    def _(c):
        sp = Spec(c.ip)
        lhs = c.arg("lhs", T.expr())
        sk = c.choose("sense", SENSES)
        sense = c.arg("sense", T.const(sk) if sk else None)
        rk = c.choose("rhs", RHS_KINDS)
        rhs = rhs_value(c, rk) if c.verifying else c.arg("rhs")
        c.requires(sp.wf(lhs), name="well-formed left operand")
        if isinstance(rhs, (Obj, Opaque)):
            c.requires(sp.wf(rhs), name="well-formed right operand")
        c.returns(T.obj("Constraint", exact=True))
        rv = sp.den(rhs) if isinstance(rhs, (Obj, Opaque)) else real_term(rhs) if not isinstance(rhs, (int, float)) else sym.rv(rhs)

        def expr_of(res):
            if isinstance(res, Obj):
                return res.fields["expr"]
            return Opaque(sp.S.F("expr", sym.Ref)(res.ref), "Expression")

        def sense_of(res):
            if isinstance(res, Obj):
                s = res.fields["sense"]
                return sym.lit(s) if isinstance(s, str) else s.t
            return sp.S.F("sense", sym.Name)(res.ref)
        c.ensures("normalised", lambda res: sp.den(expr_of(res)) == sp.den(lhs) - rv)
        c.ensures("sense", lambda res: sense_of(res) == c.ip.models.name_term(sense))
        c.ensures("wf", lambda res: sp.wf(expr_of(res)))
        c.ensures("is-constraint", lambda res: z3.BoolVal(isinstance(res, Obj) and res.cls == "Constraint") if c.verifying else None)

    # ---- Constraint.evaluate / violation / is_satisfied on a constraint `expr sense 0`
    def con_arg(c, sp, sk):
        return c.arg("self", T.obj("Constraint", exact=True, known={"sense": sk} if sk else None))

    def point_arg(c):
        from .expressions_c import values_dict
        return c.arg("point", T.custom(lambda ip, hint: values_dict(ip)))

    def con_pre(c, sp, con, pt):
        ENV, DS = pt.idx
        e = Opaque(sp.S.F("expr", sym.Ref)(sp.ref(con)), "Expression")
        c.requires(sp.wf(e), name="well-formed constraint expression")
        c.requires(reg.covers(sp, e, DS), name="every variable has a value")
        c.requires(sp.dom(e, ENV, sp.PV), name="point in the domain")
        return e, ENV

    @reg.contract(f"{M}:Constraint.evaluate", props=["C10", "C06"])
    def _(c):
        sp = Spec(c.ip)
        con = con_arg(c, sp, None)
        pt = point_arg(c)
        e, ENV = con_pre(c, sp, con, pt)
        c.returns(T.real("float"))
        c.ensures("value", lambda res: real_term(res) == sp.den(e, ENV, sp.PV))

    @reg.contract(f"{M}:Constraint.violation", props=["C10", "C06"], cases={"sense": SENSES})
    def _(c):
        sp = Spec(c.ip)
        sk = c.choose("sense", SENSES)
        con = con_arg(c, sp, sk)
        pt = point_arg(c)
        e, ENV = con_pre(c, sp, con, pt)
        c.returns(T.real("float"))
        v = sp.den(e, ENV, sp.PV)
        sn = sp.S.F("sense", sym.Name)(sp.ref(con))
        want = z3.If(sn == sym.lit("<="), sym.zmax(sym.rv(0), v), z3.If(sn == sym.lit(">="), sym.zmax(sym.rv(0), -v), sym.zabs(v)))
        c.ensures("violation", lambda res: real_term(res) == want)

    @reg.contract(f"{M}:Constraint.is_satisfied", props=["C10", "C06"], cases={"sense": SENSES})
    def _(c):
        sp = Spec(c.ip)
        sk = c.choose("sense", SENSES)
        con = con_arg(c, sp, sk)
        pt = point_arg(c)
        tol = c.arg("tol", T.real("float"), default=1e-8)
        e, ENV = con_pre(c, sp, con, pt)
        c.returns(T.bool_())
        v = sp.den(e, ENV, sp.PV)
        sn = sp.S.F("sense", sym.Name)(sp.ref(con))
        viol = z3.If(sn == sym.lit("<="), sym.zmax(sym.rv(0), v), z3.If(sn == sym.lit(">="), sym.zmax(sym.rv(0), -v), sym.zabs(v)))
        c.ensures("satisfied iff violation <= tol",
                  lambda res: (res.t if isinstance(res, SBool) else z3.BoolVal(bool(res))) == (viol <= real_term(tol)))

    # ---- element-wise vector constraints
    VK = ["VectorVariable", "VectorExpression"]
    RK = ["scalar", "VectorVariable", "VectorExpression", "ndarray"]

    @reg.contract("optyx.core.vectors:_vector_constraint", props=["C10"], cases={"left": VK, "right": RK, "sense": SENSES})
    def _(c):
        from .seqtheory import VLEN, DENV, register_vector, add_index, ELEMV, ELEME
        from .vecspec import vec_wf
        sp = Spec(c.ip)
        lk = c.choose("left", VK)
        left = c.arg("left", T.obj(lk, exact=True) if lk else None)
        rk = c.choose("right", RK)
        if c.verifying:
            if rk == "scalar":
                right = c.arg("right", T.real("float"))
            elif rk == "ndarray":
                right = c.arg("right", T.seq(T.real("npfloat"), kind="ndarray"))
            else:
                right = c.arg("right", T.obj(rk, exact=True))
        else:
            right = c.arg("right")
        sk = c.choose("sense", SENSES)
        sense = c.arg("sense", T.const(sk) if sk else None)
        lv = sp.ref(left)
        register_vector(sp, lv, None, sp.E, sp.PV)
        n = VLEN(lv)
        c.requires(vec_wf(sp, lv), name="well-formed left vector")
        if isinstance(right, (Obj, Opaque)):
            rv_ = sp.ref(right)
            register_vector(sp, rv_, None, sp.E, sp.PV)
            c.requires(vec_wf(sp, rv_), name="well-formed right vector")
            rlen = VLEN(rv_)
            relem = lambda k: DENV(rv_, k, sp.E, sp.PV)
        elif isinstance(right, SSeq):
            rlen = c.ip.models.len_term(right.n)
            relem = lambda k: real_term(right.get(k))
        else:
            rlen = None
            relem = lambda k: real_term(right)
        if rlen is not None:
            c.raises("DimensionMismatchError", when=rlen != n, name="size mismatch is rejected")
        c.returns(T.seq(T.obj("Constraint", exact=True)))

        def post(res):
            S_ = c.ip.models.as_seq(res)
            sk_ = sym.fresh("sk_con", sym.I)
            add_index(c.ip, sk_)
            c.ip.path.assume(z3.And(sk_ >= 0, sk_ < n))
            c.ip.reg.index_used(c.ip, sk_)
            con = S_.get(sk_)
            if isinstance(con, Obj):
                e = con.fields["expr"]
                sn = con.fields["sense"]
                snt = sym.lit(sn) if isinstance(sn, str) else sn.t
            else:
                e = Opaque(sp.S.F("expr", sym.Ref)(con.ref), "Expression")
                snt = sp.S.F("sense", sym.Name)(con.ref)
            return [c.ip.models.len_term(S_.n) == n,
                    sp.den(e) == DENV(lv, sk_, sp.E, sp.PV) - relem(sk_),
                    snt == c.ip.models.name_term(sense)]
        c.ensures("one constraint per element", post)
    install_post_init(reg, src)


def install_post_init(reg, src):
    @reg.contract(f"{M}:Constraint.__post_init__", props=["C10"], cases={"sense": ["<=", ">=", "==", "<", "other"]})
    def _(c):
        from pyvc.values import Obj as _Obj, SName
        sk = c.choose("sense", [])
        o = _Obj("Constraint")
        o.fields["expr"] = T.expr().fresh(c.ip, "expr")
        o.fields["sense"] = sk if sk != "other" else SName(sym.fresh("sense", sym.Name))
        o.fields["name"] = None
        if sk == "other":
            c.assume(z3.And(*[o.fields["sense"].t != sym.lit(x) for x in SENSES]))
        c.argorder.append("self")
        c.argvals["self"] = o
        c.returns(T.none())
        c.raises("ConstraintError", when=z3.BoolVal(sk not in SENSES), name="raises ConstraintError iff the sense is not one of <=, >=, ==")
