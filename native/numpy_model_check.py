"""Samples the NumPy model table of pyvc/models.py (assumption A2) against the installed NumPy: each entry of the table is a
closed-form statement about a NumPy call; here the statement is evaluated on seeded random inputs.  Bounded, never proved."""
from __future__ import annotations

import json
import random
import sys
import time

import numpy as np


def main():
    job = json.loads(sys.stdin.read())
    rng = random.Random(job.get("seed", 0) + 11)
    N = 300 if job.get("tier") != "thorough" else 5000
    t0 = time.time()
    fails, n = [], 0

    def chk(name, ok, detail=""):
        nonlocal n
        n += 1
        if not ok and not any(f["signature"] == name for f in fails):
            fails.append({"signature": name, "what": f"NumPy model entry '{name}' disagrees with NumPy: {detail}", "job": {}})
    for _ in range(N):
        k = rng.randint(1, 6)
        a = np.array([rng.uniform(-3, 3) for _ in range(k)])
        b = np.array([rng.uniform(-3, 3) for _ in range(k)])
        c = rng.uniform(-2, 2)
        chk("sum = fold(+)", abs(np.sum(a) - sum(a.tolist())) < 1e-9)
        chk("dot = sum of products", abs(np.dot(a, b) - sum(x * y for x, y in zip(a, b))) < 1e-9)
        chk("linalg.norm = sqrt(sum squares)", abs(np.linalg.norm(a) - sum(x * x for x in a) ** 0.5) < 1e-9)
        chk("elementwise + - * /", np.allclose(a + b, [x + y for x, y in zip(a, b)]) and np.allclose(a * c, [x * c for x in a])
            and np.allclose(c - a, [c - x for x in a]))
        chk("power(x, k) elementwise", np.allclose(np.power(np.abs(a) + 0.1, 2.5), [(abs(x) + 0.1) ** 2.5 for x in a]))
        idx = np.array(rng.sample(range(k), rng.randint(1, k)), dtype=np.intp)
        chk("gather x[idx]", np.array_equal(a[idx], np.array([a[i] for i in idx])))
        r = np.zeros(k)
        vals = np.array([rng.uniform(-1, 1) for _ in idx])
        r[idx] = vals
        want = [0.0] * k
        for i, v in zip(idx, vals):
            want[i] = v
        chk("scatter r[idx] = v (distinct indices)", np.array_equal(r, np.array(want)))
        chk("array_equal(idx, arange(n))", np.array_equal(idx, np.arange(k)) == (len(idx) == k and all(int(idx[i]) == i for i in range(k))))
        lo, hi = sorted((rng.uniform(-2, 2), rng.uniform(-2, 2)))
        chk("clip = max(lo, min(hi, x))", np.allclose(np.clip(a, lo, hi), [max(lo, min(hi, x)) for x in a]))
        chk("reshape(1,-1)[0][j] = x[j]", np.array_equal(a.reshape(1, -1)[0], a) and a.reshape(1, -1).shape == (1, k))
        chk("np.array(rows)[i][j]", np.array_equal(np.array([a.tolist(), b.tolist()])[1], b))
        chk("diag", np.array_equal(np.diag(a), np.array([[a[i] if i == j else 0.0 for j in range(k)] for i in range(k)])))
        x = a.copy()
        for pos, special in ((0, np.nan), (k - 1, np.inf if rng.random() < 0.5 else -np.inf)):
            if rng.random() < 0.5:
                x[pos] = special
        s = np.nan_to_num(x, nan=0.0, posinf=1e16, neginf=-1e16)
        chk("nan_to_num per class", all((s[i] == x[i]) if np.isfinite(x[i]) else (s[i] == (0.0 if np.isnan(x[i]) else (1e16 if x[i] > 0 else -1e16)))
                                        for i in range(k)))
        with np.errstate(all="ignore"):
            mx = np.max(x)
        cls = "nan" if np.isnan(x).any() else "+inf" if np.isposinf(x).any() else "fin" if np.isfinite(x).any() else "-inf"
        chk("max over extended reals (NaN propagates)", (np.isnan(mx) and cls == "nan") or (mx == np.inf and cls == "+inf")
            or (np.isfinite(mx) and cls == "fin") or (mx == -np.inf and cls == "-inf"), f"{x} -> {mx}")
        chk("all(isfinite)", bool(np.all(np.isfinite(x))) == all(np.isfinite(v) for v in x))
    print(json.dumps({"cases": n, "distinct": N, "exhaustive": False, "seconds": round(time.time() - t0, 2), "failures": fails}))


if __name__ == "__main__":
    main()
