"""Feasibility spike: AST -> z3 symbolic execution of optyx.core.autodiff simplifiers and
_gradient_cached branches, with callee contracts (modular), against a denotational spec."""
import ast, sys, time, itertools
import z3

SRC = "/repo/src/optyx/core/autodiff.py"  # real source, re-read on every run
tree = ast.parse(open(SRC).read())
FUNCS = {n.name: n for n in ast.walk(tree) if isinstance(n, ast.FunctionDef)}

Ref = z3.DeclareSort("Ref")
KINDS = ["Constant", "Variable", "Parameter", "BinaryOp", "UnaryOp", "Other"]
Kind, kind_consts = z3.EnumSort("Kind", KINDS)
K = dict(zip(KINDS, kind_consts))
kind = z3.Function("kind", Ref, Kind)
f_value = z3.Function("value", Ref, z3.RealSort())
f_left = z3.Function("left", Ref, Ref)
f_right = z3.Function("right", Ref, Ref)
f_operand = z3.Function("operand", Ref, Ref)
f_op = z3.Function("op", Ref, z3.StringSort())
f_name = z3.Function("name", Ref, z3.StringSort())
DEN = z3.Function("DEN", Ref, z3.RealSort())      # denotation at the (fixed, arbitrary) point
DV = z3.Function("DV", Ref, z3.RealSort())        # true d/dwrt of denotation at the point
# uninterpreted real functions
UF = {n: z3.Function(n, z3.RealSort(), z3.RealSort()) for n in
      ["sin", "cos", "tan", "exp", "log", "sqrt", "tanh", "sinh", "cosh", "abs"]}
POW = z3.Function("pow", z3.RealSort(), z3.RealSort(), z3.RealSort())

class Obj:
    """heap object: either opaque (ref only) or allocated here (cls + fields known)"""
    def __init__(self, ref, cls=None, fields=None):
        self.ref, self.cls, self.fields = ref, cls, fields
_ctr = itertools.count()
def fresh(prefix="o"):
    return Obj(z3.Const(f"{prefix}{next(_ctr)}", Ref))

class Str:
    def __init__(self, t): self.t = t          # z3 string term or python str
class Real:
    def __init__(self, t): self.t = t
class Bool:
    def __init__(self, t): self.t = t
class FuncRef:
    def __init__(self, name): self.name = name
class ClsRef:
    def __init__(self, name): self.name = name
NONE = object()

def zstr(s): return z3.StringVal(s) if isinstance(s, str) else s

def den(o):
    """spec denotation; unfolds allocated objects structurally, opaque -> DEN(ref)"""
    if o.cls is None:
        return DEN(o.ref)
    f = o.fields
    if o.cls == "Constant":
        return f["value"].t
    if o.cls == "BinaryOp":
        l, r, op = den(f["left"]), den(f["right"]), f["op"].t
        assert isinstance(op, str)
        return {"+": l + r, "-": l - r, "*": l * r, "/": l / r, "**": POW(l, r)}[op]
    if o.cls == "UnaryOp":
        a, op = den(f["operand"]), f["op"].t
        if op == "neg": return -a
        return UF[op](a)
    raise NotImplementedError(o.cls)

def kind_facts(o):
    """facts known about an allocated object, usable when it is passed to a callee"""
    if o.cls is None: return []
    fs = [kind(o.ref) == K[o.cls], DEN(o.ref) == den(o)]
    if o.cls == "Constant": fs.append(f_value(o.ref) == o.fields["value"].t)
    if o.cls == "UnaryOp":
        fs += [f_op(o.ref) == zstr(o.fields["op"].t), f_operand(o.ref) == o.fields["operand"].ref]
        fs += kind_facts(o.fields["operand"])
    if o.cls == "BinaryOp":
        fs += kind_facts(o.fields["left"]) + kind_facts(o.fields["right"])
    return fs

class Path:
    def __init__(self, env, pc):
        self.env, self.pc = dict(env), list(pc)
    def fork(self): return Path(self.env, self.pc)

class Raised(Exception):
    def __init__(self, what): self.what = what

# ---- contracts of callees (assumed at call sites; each is proved separately from its own body)
def unfold_opaque(o):
    """den unfolding axioms for an opaque object, instantiated on demand"""
    r = o.ref
    return [z3.Implies(kind(r) == K["Constant"], DEN(r) == f_value(r)),
            z3.Implies(z3.And(kind(r) == K["UnaryOp"], f_op(r) == z3.StringVal("neg")),
                       DEN(r) == -DEN(f_operand(r)))]

def is_zero_t(o):
    if o.cls is not None:
        return z3.BoolVal(False) if o.cls != "Constant" else (o.fields["value"].t == 0)
    return z3.And(kind(o.ref) == K["Constant"], f_value(o.ref) == 0)

def c_simplify(opname):
    def contract(ex, path, args):
        a = args
        res = fresh("s")
        if opname == "neg":
            path.pc.append(DEN(res.ref) == -den(a[0]))
            path.pc.append(z3.Implies(is_zero_t(a[0]), z3.And(kind(res.ref) == K["Constant"], f_value(res.ref) == 0)))
        else:
            l, r = den(a[0]), den(a[1])
            val = {"add": l + r, "sub": l - r, "mul": l * r, "div": l / r, "pow": POW(l, r)}[opname]
            path.pc.append(DEN(res.ref) == val)
            zl, zr = is_zero_t(a[0]), is_zero_t(a[1])
            z = {"add": z3.And(zl, zr), "sub": z3.And(zl, zr), "mul": z3.Or(zl, zr), "div": zl}.get(opname)
            if z is not None:
                path.pc.append(z3.Implies(z, z3.And(kind(res.ref) == K["Constant"], f_value(res.ref) == 0)))
        path.pc += unfold_opaque(res)
        return res
    return contract

def c_is_zero(ex, path, args):
    return Bool(is_zero_t(args[0]))
def c_is_one(ex, path, args):
    o = args[0]
    if o.cls is not None:
        return Bool(z3.BoolVal(False) if o.cls != "Constant" else (o.fields["value"].t == 1))
    return Bool(z3.And(kind(o.ref) == K["Constant"], f_value(o.ref) == 1))

def c_gradient_cached(ex, path, args):
    """induction hypothesis for recursive calls on strict sub-terms"""
    e, wrt = args
    assert e.cls is None, "recursive call must be on an opaque child"
    res = fresh("d")
    path.pc.append(DEN(res.ref) == DV(e.ref))
    path.pc += unfold_opaque(res)
    return res

def mk_unary(op):
    def contract(ex, path, args):
        return Obj(None, "UnaryOp", {"operand": args[0], "op": Str(op)})
    return contract

CONTRACTS = {
    "_simplify_add": c_simplify("add"), "_simplify_sub": c_simplify("sub"),
    "_simplify_mul": c_simplify("mul"), "_simplify_div": c_simplify("div"),
    "_simplify_neg": c_simplify("neg"), "_simplify_pow": c_simplify("pow"),
    "_is_zero": c_is_zero, "_is_one": c_is_one,
    "_gradient_cached": c_gradient_cached,
    "has_gradient_rule": lambda ex, p, a: Bool(z3.BoolVal(False)),   # spike: non-registry kinds
}
for _f in ["sin", "cos", "log", "cosh", "sinh", "sqrt_fn"]:
    CONTRACTS[_f] = mk_unary(_f.replace("_fn", ""))

class Exec:
    def __init__(self, inline=()):
        self.inline = set(inline)
        self.results = []   # (path, outcome) outcome = ("return", val) | ("raise", what)

    def run(self, fn, args):
        node = FUNCS[fn]
        env = {a.arg: v for a, v in zip(node.args.args, args)}
        self.block(node.body, Path(env, []), lambda p: self.results.append((p, ("return", NONE))))
        return self.results

    def feasible(self, pc):
        s = z3.Solver(); s.set("timeout", 5000); s.add(*pc)
        return s.check() != z3.unsat

    def block(self, stmts, path, k):
        if not stmts:
            return k(path)
        s, rest = stmts[0], stmts[1:]
        cont = lambda p: self.block(rest, p, k)
        if isinstance(s, (ast.ImportFrom, ast.Import)):
            return cont(path)
        if isinstance(s, ast.Expr):
            if isinstance(s.value, ast.Constant): return cont(path)   # docstring
            for p, _ in self.ev(s.value, path): cont(p)
            return
        if isinstance(s, ast.Assign):
            assert len(s.targets) == 1 and isinstance(s.targets[0], ast.Name)
            for p, v in self.ev(s.value, path):
                p.env[s.targets[0].id] = v; cont(p)
            return
        if isinstance(s, ast.Return):
            for p, v in self.ev(s.value, path):
                self.results.append((p, ("return", v)))
            return
        if isinstance(s, ast.Raise):
            self.results.append((path, ("raise", ast.unparse(s.exc)[:40]))); return
        if isinstance(s, ast.If):
            for p, c in self.ev(s.test, path):
                ct = c.t if isinstance(c, Bool) else c
                pt = p.fork(); pt.pc.append(ct)
                if self.feasible(pt.pc): self.block(s.body, pt, cont)
                pf = p.fork(); pf.pc.append(z3.Not(ct))
                if self.feasible(pf.pc): self.block(s.orelse, pf, cont)
            return
        raise NotImplementedError(ast.dump(s)[:80])

    def ev(self, e, path):
        """yield (path, value) pairs (expressions may fork)"""
        if isinstance(e, ast.Constant):
            v = e.value
            if isinstance(v, (int, float)): return [(path, Real(z3.RealVal(repr(v))))]
            if isinstance(v, str): return [(path, Str(v))]
            raise NotImplementedError
        if isinstance(e, ast.Name):
            if e.id in path.env: return [(path, path.env[e.id])]
            if e.id in ("Constant", "BinaryOp", "UnaryOp", "Var", "Parameter"):
                return [(path, ClsRef({"Var": "Variable"}.get(e.id, e.id)))]
            return [(path, FuncRef(e.id))]
        if isinstance(e, ast.Attribute):
            out = []
            for p, o in self.ev(e.value, path):
                out.append((p, self.getattr(p, o, e.attr)))
            return out
        if isinstance(e, ast.BoolOp):
            # short-circuit not needed for pure boolean terms in this spike
            vals = [[]]
            paths = [(path, [])]
            for sub in e.values:
                paths = [(p2, acc + [v]) for p, acc in paths for p2, v in self.ev(sub, p)]
            f = z3.And if isinstance(e.op, ast.And) else z3.Or
            return [(p, Bool(f(*[v.t for v in acc]))) for p, acc in paths]
        if isinstance(e, ast.Compare):
            assert len(e.ops) == 1
            out = []
            for p, l in self.ev(e.left, path):
                for p2, r in self.ev(e.comparators[0], p):
                    lt = zstr(l.t); rt = zstr(r.t)
                    op = e.ops[0]
                    if isinstance(op, ast.Eq): out.append((p2, Bool(lt == rt)))
                    elif isinstance(op, ast.NotEq): out.append((p2, Bool(lt != rt)))
                    else: raise NotImplementedError
            return out
        if isinstance(e, ast.BinOp):
            out = []
            for p, l in self.ev(e.left, path):
                for p2, r in self.ev(e.right, p):
                    out.append((p2, self.binop(p2, e.op, l, r)))
            return out
        if isinstance(e, ast.UnaryOp) and isinstance(e.op, ast.USub):
            return [(p, self.neg(p, v)) for p, v in self.ev(e.operand, path)]
        if isinstance(e, ast.Call):
            return self.call(e, path)
        raise NotImplementedError(ast.dump(e)[:80])

    def getattr(self, p, o, attr):
        if isinstance(o, Obj):
            if o.cls is not None: return o.fields[attr]
            r = o.ref
            if attr == "value": return Real(f_value(r))
            if attr == "op": return Str(f_op(r))
            if attr == "name": return Str(f_name(r))
            if attr in ("left", "right", "operand"):
                child = Obj({"left": f_left, "right": f_right, "operand": f_operand}[attr](r))
                return child
        raise NotImplementedError(attr)

    def binop(self, p, op, l, r):
        if isinstance(l, Real) and isinstance(r, Real):
            return Real({ast.Add: l.t + r.t, ast.Sub: l.t - r.t, ast.Mult: l.t * r.t}[type(op)])
        # Expression operator overloading: Expression.__add__ etc -> BinaryOp(self, _ensure_expr(other), op)
        sym = {ast.Add: "+", ast.Sub: "-", ast.Mult: "*", ast.Div: "/", ast.Pow: "**"}[type(op)]
        if isinstance(r, Real): r = Obj(None, "Constant", {"value": r})
        if isinstance(l, Real): l = Obj(None, "Constant", {"value": l})
        return Obj(None, "BinaryOp", {"left": l, "right": r, "op": Str(sym)})

    def neg(self, p, v):
        if isinstance(v, Real): return Real(-v.t)
        return Obj(None, "UnaryOp", {"operand": v, "op": Str("neg")})

    def call(self, e, path):
        # evaluate args (may fork)
        paths = [(path, [])]
        for a in e.args:
            paths = [(p2, acc + [v]) for p, acc in paths for p2, v in self.ev(a, p)]
        out = []
        for p, args in paths:
            fn = e.func
            if isinstance(fn, ast.Name) and fn.id == "isinstance":
                o, c = args
                if o.cls is not None:
                    out.append((p, Bool(z3.BoolVal(o.cls == c.name))))
                else:
                    out.append((p, Bool(kind(o.ref) == K[c.name])))
                continue
            if isinstance(fn, ast.Name) and fn.id in ("Constant", "BinaryOp", "UnaryOp"):
                if fn.id == "Constant":
                    out.append((p, Obj(None, "Constant", {"value": args[0]})))
                elif fn.id == "UnaryOp":
                    out.append((p, Obj(None, "UnaryOp", {"operand": args[0], "op": args[1]})))
                else:
                    out.append((p, Obj(None, "BinaryOp", {"left": args[0], "right": args[1], "op": args[2]})))
                continue
            if isinstance(fn, ast.Attribute) and ast.unparse(fn) == "np.log":
                out.append((p, Real(UF["log"](args[0].t)))); continue
            name = fn.id if isinstance(fn, ast.Name) else ast.unparse(fn)
            if name in CONTRACTS:
                # allocated args handed to a callee: materialise a ref + the facts known about them
                margs = []
                for a in args:
                    if isinstance(a, Obj) and a.cls is not None and a.ref is None:
                        a.ref = z3.Const(f"a{next(_ctr)}", Ref)
                    if isinstance(a, Obj) and a.cls is not None:
                        p.pc += self.facts(a)
                    margs.append(a)
                out.append((p, CONTRACTS[name](self, p, margs))); continue
            raise NotImplementedError("call " + name)
        return out

    def facts(self, o):
        # give every allocated sub-object a ref so kind/den facts can be stated
        def refs(x):
            if x.cls is None: return
            if x.ref is None: x.ref = z3.Const(f"a{next(_ctr)}", Ref)
            for v in x.fields.values():
                if isinstance(v, Obj): refs(v)
        refs(o)
        return kind_facts(o)

def prove(pc, goal, label, timeout=20000):
    s = z3.Solver(); s.set("timeout", timeout)
    s.add(*pc); s.add(z3.Not(goal))
    t = time.time(); r = s.check(); dt = time.time() - t
    verdict = "PROVED" if r == z3.unsat else "REFUTED" if r == z3.sat else "UNKNOWN"
    print(f"  [{verdict:7}] {label}  ({dt*1000:.0f} ms)")
    if r == z3.sat:
        m = s.model()
        print("     model:", {str(d): m[d] for d in m.decls() if d.arity() == 0})
    return r

def check_simplifier(fn, spec):
    print(f"== {fn}")
    nargs = len(FUNCS[fn].args.args)
    args = [fresh("x") for _ in range(nargs)]
    pre = sum([unfold_opaque(a) for a in args], [])
    ex = Exec()
    saved = dict(CONTRACTS)
    del CONTRACTS[fn]          # verifying its body, not using its own contract
    if fn == "_simplify_sub" or fn == "_simplify_neg": pass
    try:
        res = ex.run(fn, args)
    finally:
        CONTRACTS.update(saved)
    for i, (p, (tag, v)) in enumerate(res):
        assert tag == "return"
        prove(pre + p.pc, den(v) == spec(*[den(a) for a in args]), f"path {i}: den(result) == spec")

check_simplifier("_simplify_add", lambda a, b: a + b)
check_simplifier("_simplify_sub", lambda a, b: a - b)
check_simplifier("_simplify_mul", lambda a, b: a * b)
check_simplifier("_simplify_div", lambda a, b: a / b)
check_simplifier("_simplify_neg", lambda a: -a)
# _simplify_pow needs pow axioms: x^0=1, x^1=x, 0^n=0 (n>0 only!), 1^n=1
print("== _simplify_pow (pow axioms: x^0=1, x^1=x, 1^n=1, 0^n=0 for n>0)")
b, e_ = fresh("x"), fresh("x")
X, Y = z3.Reals("X Y")
pow_ax = [z3.ForAll([X], POW(X, 0) == 1), z3.ForAll([X], POW(X, 1) == X),
          z3.ForAll([Y], POW(1, Y) == 1), z3.ForAll([Y], z3.Implies(Y > 0, POW(0, Y) == 0))]
saved = dict(CONTRACTS); del CONTRACTS["_simplify_pow"]
res = Exec().run("_simplify_pow", [b, e_])
CONTRACTS.update(saved)
for i, (p, (tag, v)) in enumerate(res):
    prove(pow_ax + unfold_opaque(b) + unfold_opaque(e_) + p.pc, den(v) == POW(den(b), den(e_)), f"path {i}")

# ---- _gradient_cached, BinaryOp / UnaryOp branches, calculus table as spec
print("== _gradient_cached branches (callee contracts + induction hypothesis)")
def rule_bin(op, l, r, dl, dr):
    return {"+": dl + dr, "-": dl - dr, "*": l * dr + r * dl, "/": (r * dl - l * dr) / (r * r)}[op]
for op in ["+", "-", "*", "/"]:
    L, R = fresh("L"), fresh("R")
    e = Obj(z3.Const("e", Ref), None)
    wrt = fresh("w")
    # expr opaque with kind BinaryOp, op fixed
    pre = [kind(e.ref) == K["BinaryOp"], f_op(e.ref) == z3.StringVal(op)]
    t0 = time.time()
    res = Exec().run("_gradient_cached", [e, wrt])
    n = 0
    for p, (tag, v) in res:
        s = z3.Solver(); s.add(*(pre + p.pc))
        if s.check() == z3.unsat: continue
        n += 1
        if tag == "raise":
            print("  [REFUTED] reachable raise", v); continue
        l, r = DEN(f_left(e.ref)), DEN(f_right(e.ref))
        dl, dr = DV(f_left(e.ref)), DV(f_right(e.ref))
        prove(pre + p.pc, den(v) == rule_bin(op, l, r, dl, dr), f"op {op!r}: den(grad) == calculus rule")
    print(f"   paths feasible: {n}, total {time.time()-t0:.2f}s")

table = {
    "neg": lambda a, da: -da, "sin": lambda a, da: UF["cos"](a) * da,
    "cos": lambda a, da: -UF["sin"](a) * da,
    "tan": lambda a, da: da / (UF["cos"](a) * UF["cos"](a)),
    "exp": lambda a, da: UF["exp"](a) * da, "log": lambda a, da: da / a,
    "sqrt": lambda a, da: da / (2 * UF["sqrt"](a)),
    "tanh": lambda a, da: (1 - UF["tanh"](a) * UF["tanh"](a)) * da,
    "sinh": lambda a, da: UF["cosh"](a) * da, "cosh": lambda a, da: UF["sinh"](a) * da,
    "atan": lambda a, da: da / (1 + a * a),
    "asin": lambda a, da: da / UF["sqrt"](1 - a * a),
    "abs": lambda a, da: a / UF["abs"](a) * da,
}
for op, rule in table.items():
    e = Obj(z3.Const("e", Ref), None); wrt = fresh("w")
    pre = [kind(e.ref) == K["UnaryOp"], f_op(e.ref) == z3.StringVal(op),
           # den unfolding of the node itself (the code re-uses `expr` inside the derivative)
           DEN(e.ref) == (-DEN(f_operand(e.ref)) if op == "neg" else
                          UF[op](DEN(f_operand(e.ref))) if op in UF else DEN(e.ref))]
    res = Exec().run("_gradient_cached", [e, wrt])
    for p, (tag, v) in res:
        s = z3.Solver(); s.add(*(pre + p.pc))
        if s.check() == z3.unsat: continue
        if tag == "raise":
            print("  [REFUTED] reachable raise", v); continue
        a, da = DEN(f_operand(e.ref)), DV(f_operand(e.ref))
        reg = {"tan": [UF["cos"](a) != 0], "log": [a != 0], "sqrt": [UF["sqrt"](a) != 0],
               "asin": [UF["sqrt"](1 - a*a) != 0]}.get(op, [])
        prove(reg + pre + p.pc, den(v) == rule(a, da), f"unary {op}: den(grad) == calculus rule")
