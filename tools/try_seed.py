#!/usr/bin/env python3
"""Confirm a seeded change (made by an independent sub-agent in a scratch worktree) and run the checks against it.

usage: try_seed.py <worktree> <property> <name> [extra check args]
 1. demo.py must exit 1 with the change and 0 without it (git stash), the test-suite must pass with it
 2. the patch is copied to /verif/seeded/<name>/, applied to /repo, ./check <property> is run, /repo is restored
"""
import json
import os
import shutil
import subprocess
import os as _os
_os.environ.setdefault('VERIF_ITEM_S', '420')     # seeded trees may make single work items very slow
import sys

wt, prop, name = sys.argv[1:4]
extra = sys.argv[4:]
out = os.path.join(wt, "seed_out")
env = dict(os.environ, PYTHONPATH=os.path.join(wt, "src"))
PY = "/venv/bin/python"


def run(cmd, **kw):
    return subprocess.run(cmd, capture_output=True, text=True, **kw)


res = {}
r1 = run([PY, os.path.join(out, "demo.py")], env=env, cwd=out)
res["demo_with_change_exit"] = r1.returncode
# (git stash is shared between worktrees of one repository: reverse-apply the diff instead)
diff0 = run(["git", "-C", wt, "diff", "--", "src"]).stdout
open("/tmp/try_seed.diff", "w").write(diff0)
run(["git", "-C", wt, "apply", "-R", "/tmp/try_seed.diff"])
r0 = run([PY, os.path.join(out, "demo.py")], env=env, cwd=out)
res["demo_without_change_exit"] = r0.returncode
run(["git", "-C", wt, "apply", "/tmp/try_seed.diff"])
rt = run([PY, "-m", "pytest", "-q", "-p", "no:cacheprovider", "--timeout=900", "-x"], env=env, cwd=wt)
res["tests_tail"] = rt.stdout.strip().splitlines()[-1] if rt.stdout.strip() else rt.stderr[-200:]
res["tests_exit"] = rt.returncode
ok = r1.returncode == 1 and r0.returncode == 0 and rt.returncode == 0
res["confirmed"] = ok
print(json.dumps(res, indent=1))
if not ok:
    sys.exit(2)
dst = os.path.join("/verif/seeded", name)
os.makedirs(dst, exist_ok=True)
diff = run(["git", "-C", wt, "diff", "--", "src"]).stdout
open(os.path.join(dst, "patch.diff"), "w").write(diff)
shutil.copy(os.path.join(out, "demo.py"), os.path.join(dst, "demo.py"))
meta = json.load(open(os.path.join(out, "meta.json"))) if os.path.exists(os.path.join(out, "meta.json")) else {}
meta.update({"property": prop, "confirmation": res})
a = run(["git", "-C", "/repo", "apply", os.path.join(dst, "patch.diff")])
if a.returncode != 0:
    print("patch does not apply to /repo:", a.stderr)
    sys.exit(3)
# EVIDENCE_KEEP: the evidence file describes the unchanged tree; a run on a seeded tree must not replace it
evp = os.path.join("/verif/evidence", f"{prop}.json")
saved = open(evp).read() if os.path.exists(evp) else None
try:
    chk = run(["./check", prop] + extra, cwd="/verif")
finally:
    run(["git", "-C", "/repo", "checkout", "--", "."])
    if saved is not None:
        open(evp, "w").write(saved)
lines = [l for l in chk.stdout.splitlines() if l.startswith(("VIOLATION", "UNDECIDED", "KNOWN", prop, "ENGINE", "CRASH"))]
meta["check"] = {"cmd": f"./check {prop} " + " ".join(extra), "exit": chk.returncode, "lines": lines[-25:]}
meta["detected"] = chk.returncode == 1
json.dump(meta, open(os.path.join(dst, "meta.json"), "w"), indent=1)
print("check exit", chk.returncode)
print("\n".join(lines[-12:]))
print(chk.stderr[-500:])
