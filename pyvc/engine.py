"""Glue: load source + sidecar, verify a set of functions, discharge, summarise."""
from __future__ import annotations

import importlib
import os
import sys
import time

from . import sym
from .contracts import Registry, verify_function, FunctionReport
from .discharge import discharge, Verdict
from .models import Models
from .source import Source
from .spec import Schema

SIDE_MODULES = ["specfns", "vecspec", "autodiff_c", "compiler_c", "analysis_c", "expressions_c", "constraints_c", "problem_c"]


class Engine:
    def __init__(self, repo: str = "/repo"):
        self.repo = repo
        self.src = Source(repo)
        self.reg = Registry()
        self.models = Models(self.src)
        here = os.path.dirname(os.path.dirname(os.path.abspath(__file__)))
        if here not in sys.path:
            sys.path.insert(0, here)
        self.side = {}
        self.reg.concretizers = {}
        self.reg.native_searches = {}
        self.reg.bounded_checks = {}
        self.reg.unbox_hooks = {}
        for m in SIDE_MODULES:
            mod = importlib.import_module("contracts." + m)
            self.side[m] = mod
            if m == "specfns":
                mod.install(self.reg)
            elif hasattr(mod, "install"):
                mod.install(self.reg, self.src)
        from contracts import seqtheory
        self.reg.saturate_hook = seqtheory.saturate
        self.reg.loop_index_hook = lambda ip, i: seqtheory.add_index(ip, i, loop=True)
        self.reg.index_used_hook = seqtheory.index_used

    def schema_factory(self):
        if not hasattr(self, "_schema"):
            self._schema = Schema(self.src)
            self._schema.uf_hook = getattr(self.reg, "uf_hook", None)
        return self._schema

    def verify(self, keys: list[str], tier="quick", timeout_ms=10000):
        reports: list[FunctionReport] = []
        for k in keys:
            ct = self.reg.contracts[k]
            reports.append(verify_function(self.src, self.reg, self.schema_factory, self.models, ct))
        obs = [o for r in reports for o in r.obligations]
        verdicts = discharge(obs, tier=tier, timeout_ms=timeout_ms)
        return reports, obs, verdicts
