"""Native reproductions (on the pinned tree, /venv/bin/python) of every defect and
"expected to hold" observation quoted in DESIGN.md sections 1, 6 and 9. Concatenation of the
probe scripts used while writing the design; run the sections independently."""
# ---- probe1 ----
import numpy as np, warnings, traceback
from optyx import *
from optyx.core.compiler import compile_expression, compile_gradient
from optyx.core.autodiff import gradient, compile_jacobian, compile_hessian
from optyx.analysis import LinearProgramExtractor, compute_degree
from optyx.core.vectors import DotProduct, VectorExpression
from optyx.core import functions as F

def t(name, f):
    try:
        print(name, '->', f())
    except Exception as e:
        print(name, 'RAISED', type(e).__name__, str(e)[:120])

x = VectorVariable("x", 3)
# C01
t("C01 (x**2).sum compile", lambda: compile_expression((x**2).sum(), list(x))(np.array([1.,2.,3.])))
A = MatrixVariable("A",2,2)
t("C01 MatrixSum compile", lambda: compile_expression(A.sum(), A.get_variables())(np.array([1.,2.,3.,4.])))
t("C01 Frobenius compile", lambda: compile_expression(frobenius_norm(A), A.get_variables())(np.array([1.,2.,3.,4.])))
# C03
t("C03 x[0:2].dot(x[1:3]) jac", lambda: compile_jacobian([x[0:2].dot(x[1:3])], list(x))(np.array([1.,2.,3.])))
t("C03 gradient same", lambda: [gradient(x[0:2].dot(x[1:3]), v).evaluate({'x[0]':1.,'x[1]':2.,'x[2]':3.}) for v in x])
# C04
y = VectorVariable("y",3)
t("C04 DotProduct(sin(x),y).degree", lambda: DotProduct(F.sin(x+0), y).degree)
t("C04 x**0.5 sum degree", lambda: (x**0.5).sum().degree)
t("C04 x**-1 sum degree", lambda: (x**-1).sum().degree)
t("C04 LinearCombination of nonpoly", lambda: (np.ones(3) @ F.sin(x+0)).degree)
# C05
c = np.array([1.,2.,3.])
def lp(p):
    d = LinearProgramExtractor().extract(p)
    return d.c, d.A_ub, d.b_ub, d.A_eq, d.b_eq, d.variables
t("C05 c@(x+1)<=10", lambda: lp(Problem().minimize(x.sum()).subject_to(c @ (x+1) <= 10)))
xs = Variable("xs")
t("C05 (x+5)**1<=10", lambda: lp(Problem().minimize(xs).subject_to((xs+5)**1 <= 10)))
t("C05 (2+3)*x", lambda: lp(Problem().minimize((Constant(2)+3)*xs)))
# C06
xv = Variable("x")
with warnings.catch_warnings():
    warnings.simplefilter("ignore")
    s = Problem().minimize(xv**2).subject_to(xv>=1).subject_to(xv<=0).solve()
print("C06", s.status, s.values, s.message)
# C07
xz = Variable("x", lb=0)
s = Problem().minimize(xz+5).solve()
print("C07", s.status, s.objective_value, s.values)
# C14
p1 = Parameter("p", 2.0); p2 = Parameter("p", 7.0)
g1 = compile_expression(gradient(p1*xv, xv), [xv])(np.array([1.]))
g2 = compile_expression(gradient(p2*xv, xv), [xv])(np.array([1.]))
print("C14", g1, g2)
# C16
p = Problem().minimize(x[::-1].sum())
print("C16", [v.name for v in p.variables])
# C13
xb = Variable("x", lb=0, ub=10)
pr = Problem().minimize(-xb)
s1 = pr.solve(); xb.ub = 5; s2 = pr.solve()
print("C13 LP", s1.values, s2.values)
xb = Variable("x", lb=0, ub=10)
pr = Problem().minimize((xb-20)**2)
s1 = pr.solve(); xb.ub = 5; s2 = pr.solve()
print("C13 NLP", s1.values, s2.values)


# ---- probe2 ----
import numpy as np, warnings, traceback
from optyx import *
x = VectorVariable("x", 3)
try:
    s = Problem().minimize((x**2).sum()).solve()
    print(s)
except Exception as e:
    traceback.print_exc()


# ---- probe3 ----
import numpy as np, warnings
from optyx import *
from optyx.core.autodiff import gradient, compile_jacobian
from optyx.analysis import LinearProgramExtractor
A = MatrixVariable("A", 1, 3)
l, r = A[0,0:2], A[0,1:3]
print(l.name, r.name, [v.name for v in l], [v.name for v in r])
e = l.dot(r)
vals = {"A[0,0]":2.,"A[0,1]":3.,"A[0,2]":5.}
print("grad wrt A01 =", gradient(e, A[0,1]).evaluate(vals), "true = A00 + A02 = 7")
# diag_matrix row misalignment in LP fast path
x = VectorVariable("x", 3)
D = diag_matrix(x)
row = D[1,:]
print([v.name for v in row])
c = np.array([10., 20., 30.])
p = Problem().minimize(c @ row)
d = LinearProgramExtractor().extract(p)
print(d.variables, d.c)
# bounds with BFGS
xv = Variable("x", lb=0)
with warnings.catch_warnings():
    warnings.simplefilter("ignore")
    s = Problem().minimize((xv+5)**2).solve(method="BFGS")
print("BFGS", s.status, s.values)


# ---- probe4 ----
import numpy as np, warnings
from optyx import *
from optyx.analysis import LinearProgramExtractor
x = VectorVariable("x", 3)
D = diag_matrix(x)
row = D[1,:]
c = np.array([10., 20., 30.])
p = Problem().minimize(c @ row).subject_to(D[1,:].sum() <= 1)
d = LinearProgramExtractor().extract(p)
print(d.variables, d.c, d.A_ub)


# ---- probe5 ----
import numpy as np, warnings
from optyx import *
from optyx.core.autodiff import gradient, compile_jacobian
from optyx.analysis import compute_degree
import optyx.analysis as an
X = MatrixVariable("X", 2, 2)
e = (2*X).sum()
vs = X.get_variables()
print("MatrixSum(2X) jac:", compile_jacobian([e], vs)(np.ones(4)), "true: 2,2,2,2")
try:
    print(gradient(e, vs[0]))
except Exception as ex:
    print("gradient(MatrixSum) raises", type(ex).__name__)
# iterative degree with LinearCombination over nonlinear VectorExpression
x = VectorVariable("x", 3)
lc = np.ones(3) @ sin(x + 0)
print("recursive deg LC(sin):", compute_degree(lc))
deep = lc
y = Variable("y")
for i in range(450):
    deep = deep + y
print("deep degree:", compute_degree(deep), " is_linear:", deep.is_linear())
with warnings.catch_warnings():
    warnings.simplefilter("ignore")
    s = Problem().minimize(deep).subject_to(y >= 0).subject_to(x >= -1).subject_to(x <= 1).subject_to(y<=1).solve()
print(s.status, s.objective_value, {k: round(v,3) for k,v in s.values.items()})


# ---- probe6 ----
import numpy as np, warnings, sys, traceback
from optyx import *
from optyx.core.autodiff import gradient, compile_jacobian, compile_hessian, compute_hessian
from optyx.core.compiler import compile_gradient, compile_expression
def t(name, f):
    try:
        print(name, '->', f())
    except Exception as e:
        print(name, 'RAISED', type(e).__name__, str(e)[:100])
x = Variable("x"); y = Variable("y")
# C10 operand kinds
t("x <= np.int64(5)", lambda: (x <= np.int64(5)))
t("np.float64(1) <= x", lambda: (np.float64(1.0) <= x))
t("np.int64(1) >= x", lambda: (np.int64(1) >= x))
t("5 <= x", lambda: (5 <= x))
t("np.array(2.0) >= x", lambda: (np.array(2.0) >= x))
v = VectorVariable("v", 3)
t("np.array([1,2,3]) <= v", lambda: (np.array([1.,2.,3.]) <= v))
t("v >= np.array([1,2,3])", lambda: [ (c.sense, str(c.expr)) for c in (v >= np.array([1.,2.,3.]))])
t("[1,2,3] <= v (list)", lambda: ([1.,2.,3.] <= v))
# C17: hessian permuted
w = VectorVariable("w", 3)
e = (w**3).sum() if False else w[0]**3 + w[0]*w[1]**2 + sin(w[2])*w[0]
V = [w[2], w[0], w[1]]
H = compile_hessian(e, V)(np.array([0.3, 1.5, 2.0]))
print("C17 H=\n", H)
# analytic: vars order (w2,w0,w1) at w0=1.5,w1=2,w2=0.3
w0,w1,w2=1.5,2.0,0.3
Ht = np.array([[-np.sin(w2)*w0, np.cos(w2), 0],[np.cos(w2), 6*w0, 2*w1],[0, 2*w1, 2*w0]])
print("true\n", Ht, np.allclose(H,Ht))
# C19 singular
for ex, nm in [(abs_(x), 'abs'), (sqrt(x),'sqrt'), (log(x),'log'), (x**-1,'x^-1'), (x**0.5,'x^.5'), (v.norm(), 'norm')]:
    Vs = [x] if nm!='norm' else list(v)
    with np.errstate(all='ignore'):
        g = compile_gradient(ex, Vs)(np.zeros(len(Vs)))
        j = compile_jacobian([ex], Vs)(np.zeros(len(Vs)))
        h = compile_hessian(ex, Vs)(np.zeros(len(Vs)))
    print("C19", nm, g, j, h.tolist())


# ---- probe7 ----
import numpy as np, warnings, sys
from optyx import *
import optyx.solvers.scipy_solver as ss
def t(name, f):
    try:
        print(name, '->', f())
    except BaseException as e:
        print(name, 'RAISED', type(e).__name__, str(e)[:100])
# C18
b = VectorVariable("b", 2, domain="binary"); z = Variable("z", domain="integer", lb=0, ub=3)
print([ (v.lb, v.ub) for v in b[::-1]], [(v.lb,v.ub,v.domain) for v in MatrixVariable("B",2,2,domain="binary").T[0,:]])
for m in ["auto","linprog","highs-ds","SLSQP","trust-constr","L-BFGS-B","BFGS","Nelder-Mead"]:
    p = Problem().minimize(b.sum() + z).subject_to(b[0] + z >= 0.5)
    t(f"strict {m}", lambda: p.solve(method=m, strict=True))
    with warnings.catch_warnings(record=True) as wl:
        warnings.simplefilter("always")
        t(f"relaxed {m}", lambda: p.solve(method=m).status)
        print("   warnings:", [str(w.message)[:60] for w in wl if 'integer' in str(w.message)])
# C20 fault injection
x = Variable("x", lb=0); y = Variable("y", lb=0)
p = Problem().minimize((x-1)**2 + (y-2)**2).subject_to(x + y <= 2)
base = p.solve(method="SLSQP")
orig_min = ss.minimize
old_sw = warnings.showwarning; old_rl = sys.getrecursionlimit()
for exc in [ValueError, FloatingPointError, MemoryError, KeyboardInterrupt]:
    for k in [0, 1, 3]:
        cnt = {'n': 0}
        def faulty(fun, x0, **kw):
            def f2(xx):
                cnt['n'] += 1
                if cnt['n'] > k: raise exc("boom")
                return fun(xx)
            if k == 0: raise exc("entry")
            return orig_min(f2, x0, **kw)
        ss.minimize = faulty
        p2 = Problem().minimize((x-1)**2 + (y-2)**2).subject_to(x + y <= 2)
        try:
            r = p2.solve(method="SLSQP"); out = r.status
        except BaseException as e:
            out = "propagated " + type(e).__name__
        ss.minimize = orig_min
        ok = warnings.showwarning is old_sw and sys.getrecursionlimit() == old_rl
        again = p2.solve(method="SLSQP")
        print("C20", exc.__name__, k, out, "restored", ok, "resolve same", np.isclose(again.objective_value, base.objective_value))


# ---- probe8 ----
import numpy as np, itertools, warnings
from optyx import *
from optyx.core.vectors import VectorExpression, vector_sum, norm
def t(name, f):
    try:
        r = f(); print(name, '->', r); return r
    except Exception as e:
        print(name, 'RAISED', type(e).__name__, str(e)[:90])
rng = np.random.default_rng(0)
x = VectorVariable("x", 4); y = VectorVariable("y", 4)
vals = {f"x[{i}]": float(rng.normal()) for i in range(4)}; vals.update({f"y[{i}]": float(rng.normal()) for i in range(4)})
xv = np.array([vals[f"x[{i}]"] for i in range(4)]); yv = np.array([vals[f"y[{i}]"] for i in range(4)])
def ev(e):
    r = e.evaluate(vals); return np.asarray(r, dtype=float)
a = np.array([1.,2.,3.,4.])
cases = {
 "x+y": (lambda: x+y, xv+yv), "x-y": (lambda: x-y, xv-yv), "2-x": (lambda: 2-x, 2-xv), "x/2": (lambda: x/2, xv/2), "2/x": (lambda: 2/x, 2/xv),
 "a+x": (lambda: a+x, a+xv), "a-x": (lambda: a-x, a-xv), "x-a": (lambda: x-a, xv-a), "a*x": (lambda: a*x, a*xv), "x*a": (lambda: x*a, xv*a), "a/x": (lambda: a/x, a/xv), "x/a": (lambda: x/a, xv/a),
 "x*y": (lambda: x*y, xv*yv), "x**2": (lambda: x**2, xv**2), "(x+y)**2": (lambda: (x+y)**2, (xv+yv)**2), "-(x+y)": (lambda: -(x+y), -(xv+yv)),
 "(x+1)-a": (lambda: (x+1)-a, (xv+1)-a), "a-(x+1)": (lambda: a-(x+1), a-(xv+1)), "(x+1)*y": (lambda: (x+1)*y, (xv+1)*yv),
 "x[::2]+y[1::2]": (lambda: x[::2]+y[1::2], xv[::2]+yv[1::2]), "x[::-1]-y": (lambda: x[::-1]-y, xv[::-1]-yv), "x[-3:-1]": (lambda: x[-3:-1]+0, xv[-3:-1]),
 "x[1:][::2]": (lambda: x[1:][::2]+0, xv[1:][::2]),
 "a@x": (lambda: a@x, a@xv), "x@a": (lambda: x@a, xv@a), "x@y": (lambda: x@y, xv@yv), "(x+y)@a": (lambda: (x+y)@a, (xv+yv)@a), "a@(x+y)": (lambda: a@(x+y), a@(xv+yv)),
 "x.dot(x+y)": (lambda: x.dot(x+y), xv@(xv+yv)), "norm1": (lambda: (x-y).norm(1) if hasattr(x-y,'norm') else norm(x-y,1), np.abs(xv-yv).sum()), "norm2": (lambda: norm(x-y), np.linalg.norm(xv-yv)),
 "sum(x-y)": (lambda: (x-y).sum(), (xv-yv).sum()), "vector_sum": (lambda: vector_sum(x*2), (xv*2).sum()),
 "(x**2)+y": (lambda: (x**2)+y, xv**2+yv), "y+(x**2)": (lambda: y+(x**2), yv+xv**2), "(x**2)*2": (lambda: (x**2)*2, xv**2*2), "sin(x)+1": (lambda: sin(x)+1, np.sin(xv)+1),
}
Q = rng.normal(size=(4,4)); M = rng.normal(size=(3,4))
cases.update({"Q@x": (lambda: Q@x, Q@xv), "M@x": (lambda: M@x, M@xv), "x.dot(Q@x)": (lambda: x.dot(Q@x), xv@Q@xv), "M@(x+y)": (lambda: M@(x+y), M@(xv+yv)), "(Q@x).dot(x)": (lambda: (Q@x).dot(x), xv@Q.T@xv), "x.dot(Q@y)": (lambda: x.dot(Q@y), xv@Q@yv)})
for k,(f,ref) in cases.items():
    try:
        e = f(); got = ev(e); ok = np.allclose(got, ref)
        if not ok: print("MISMATCH", k, got, ref)
    except Exception as ex:
        print("RAISED", k, type(ex).__name__, str(ex)[:80])
print("vector cases done")
# mismatched shapes must raise
z = VectorVariable("z", 3)
for k,f in {"x+z":lambda:x+z,"x-z":lambda:x-z,"x.dot(z)":lambda:x.dot(z),"a[:3]@x":lambda:a[:3]@x,"x@a[:3]":lambda:x@a[:3],"x<=z":lambda:x<=z,"x>=a[:3]":lambda:x>=a[:3], "x+a[:3]":lambda:x+a[:3], "(x+1)+z":lambda:(x+1)+z, "M[:, :3]@x":lambda:M[:,:3]@x, "x.dot(z+1)":lambda:x.dot(z+1), "(x**2)+z":lambda:(x**2)+z, "z+(x**2)":lambda:z+(x**2), "(x+1).eq(z)": lambda:(x+1).eq(z), "Q[:3,:3] qf": lambda: quadratic_form(x, Q[:3,:3])}.items():
    try:
        r = f(); print("NO RAISE", k, type(r).__name__, getattr(r,'size',None))
    except Exception as ex:
        pass
print("mismatch cases done")


# ---- probe9 ----
import numpy as np, itertools, warnings
from optyx import *
rng = np.random.default_rng(1)
A = MatrixVariable("A", 2, 3); B = MatrixVariable("B", 2, 3); S = MatrixVariable("S", 3, 3, symmetric=True)
vals = {}
for Mx in (A,B):
    for i in range(2):
        for j in range(3): vals[Mx._variables[i][j].name] = float(rng.normal())
for v in S.get_variables(): vals[v.name] = float(rng.normal())
def num(Mx): return np.array([[vals[Mx._variables[i][j].name] for j in range(Mx.cols)] for i in range(Mx.rows)])
Av, Bv, Sv = num(A), num(B), num(S)
C = rng.normal(size=(2,3)); x = VectorVariable("x", 3); xv = rng.normal(size=3)
for i in range(3): vals[f"x[{i}]"] = xv[i]
def ev(e):
    r = e.evaluate(vals); return np.asarray(r, dtype=float)
cases = {
 "A+B": (lambda: A+B, Av+Bv), "A-B": (lambda: A-B, Av-Bv), "A*B": (lambda: A*B, Av*Bv), "2-A": (lambda: 2-A, 2-Av), "2/A": (lambda: 2/A, 2/Av), "A/2": (lambda: A/2, Av/2),
 "C+A": (lambda: C+A, C+Av), "C-A": (lambda: C-A, C-Av), "A-C": (lambda: A-C, Av-C), "C*A": (lambda: C*A, C*Av), "A**2": (lambda: A**2, Av**2), "-A": (lambda: -A, -Av),
 "(A+B).T": (lambda: (A+B).T, (Av+Bv).T), "A.T+B.T": (lambda: A.T+B.T, Av.T+Bv.T), "A.T.T": (lambda: A.T.T+0, Av), "A[0,:]": (lambda: A[0,:]+0, Av[0,:]), "A[:,1]": (lambda: A[:,1]+0, Av[:,1]),
 "A[0:2,1:3]": (lambda: A[0:2,1:3]+0, Av[0:2,1:3]), "A.T[1,:]": (lambda: A.T[1,:]+0, Av.T[1,:]), "A[-1,-1]": (lambda: A[-1,-1]+0, Av[-1,-1]), "A[::-1, ::2]": (lambda: A[::-1, ::2]+0, Av[::-1, ::2]),
 "S sym": (lambda: S+0, Sv), "S.T": (lambda: S.T+0, Sv.T), "S.diag": (lambda: S.diagonal()+0, np.diag(Sv)), "S.trace": (lambda: S.trace(), np.trace(Sv)), "trace(S)": (lambda: trace(S), np.trace(Sv)),
 "A@x": (lambda: A@x, Av@xv), "S@x": (lambda: S@x, Sv@xv), "A@(x+1)": (lambda: A@(x+1), Av@(xv+1)), "A.sum()": (lambda: A.sum(), Av.sum()), "(A*B).sum()": (lambda: (A*B).sum(), (Av*Bv).sum()),
 "frob": (lambda: frobenius_norm(A), np.linalg.norm(Av)), "S.sum()": (lambda: S.sum(), Sv.sum()), "diag(S)": (lambda: diag(S)+0, np.diag(Sv)),
 "(A+B)-C": (lambda: (A+B)-C, Av+Bv-C), "C-(A+B)": (lambda: C-(A+B), C-(Av+Bv)), "(A+B)*2": (lambda: (A+B)*2, (Av+Bv)*2), "2/(A+B)": (lambda: 2/(A+B), 2/(Av+Bv)),
 "qf S": (lambda: quadratic_form(x, np.eye(3)*2), 2*xv@xv),
}
for k,(f,ref) in cases.items():
    try:
        e = f(); got = ev(e); ok = got.shape == np.asarray(ref).shape and np.allclose(got, ref)
        if not ok: print("MISMATCH", k, got.shape, np.asarray(ref).shape)
    except Exception as ex:
        print("RAISED", k, type(ex).__name__, str(ex)[:80])
print("matrix cases done")
D = MatrixVariable("D", 3, 2)
for k,f in {"A+D":lambda:A+D,"A+C.T":lambda:A+C.T,"A@x[:2]":lambda:A@x[0:2],"A<=D":lambda:A<=D,"A>=C.T":lambda:A>=C.T,"(A+B)+D":lambda:(A+B)+D,"C.T-A":lambda:C.T-A,"A+row":lambda:A+C[0],"A<=row":lambda:A<=C[0], "D.trace":lambda:D.trace(), "D.diag":lambda:D.diagonal(), "sym nonsq":lambda:MatrixVariable("Z",2,3,symmetric=True), "A+list":lambda: A+[[1,2],[3,4]]}.items():
    try:
        r = f(); print("NO RAISE", k, type(r).__name__)
    except Exception as ex:
        pass
print("mismatch done")
# C16 get_variables per kind
from optyx.core.expressions import get_all_variables
y = VectorVariable("y", 3)
exprs = {"VS": x.sum(), "VES": (x+y).sum(), "DP": x.dot(y), "DPe": x.dot(y+1), "L2": (x-y).norm() if hasattr(x-y,'norm') else None, "LC": np.ones(3)@(x*y), "PS": None, "QF": quadratic_form(x+y, np.eye(3)), "MS": (A*B).sum(), "FN": frobenius_norm(A), "MSv": S.sum()}
for k,e in exprs.items():
    if e is None: continue
    print(k, sorted(v.name for v in get_all_variables(e)))
p = Problem().minimize(S.sum()); print([v.name for v in p.variables])
p = Problem().minimize(x.sum() + Variable("x[1]")); print([v.name for v in p.variables])


# ---- probe10 ----
import numpy as np, itertools, warnings
warnings.simplefilter("ignore")
from optyx import *
def fresh_solve(build, m):
    return build().solve(method=m)
x = Variable("x", lb=0, ub=10); y = Variable("y", lb=0, ub=10)
def same(a, b):
    return a.status == b.status and (a.objective_value is None) == (b.objective_value is None) and (a.objective_value is None or abs(a.objective_value-b.objective_value) < 1e-5)
# history: LP -> add nonlinear constraint -> maximize -> swap objective -> method switch
p = Problem().minimize(x + 2*y).subject_to(x + y >= 1)
steps = [
 ("solve auto", lambda: None, lambda: Problem().minimize(x+2*y).subject_to(x+y>=1)),
 ("add nl c", lambda: p.subject_to(x*y >= 0.1), lambda: Problem().minimize(x+2*y).subject_to(x+y>=1).subject_to(x*y>=0.1)),
 ("maximize", lambda: p.maximize(x + 2*y - x**2), lambda: Problem().maximize(x+2*y-x**2).subject_to(x+y>=1).subject_to(x*y>=0.1)),
 ("min quad", lambda: p.minimize((x-3)**2 + (y-1)**2), lambda: Problem().minimize((x-3)**2+(y-1)**2).subject_to(x+y>=1).subject_to(x*y>=0.1)),
]
for name, op, fresh in steps:
    op()
    for m in ["auto", "trust-constr", "SLSQP", "trust-constr"]:
        a = p.solve(method=m); b = fresh().solve(method=m)
        print(name, m, a.status.value, round(a.objective_value,5) if a.objective_value is not None else None, "same" if same(a,b) else f"DIFF fresh={b.status.value},{b.objective_value}")
# parameter history
pr = Parameter("pr", 2.0); q = Variable("q", lb=0, ub=5)
P = Problem().maximize(pr*q - q**2)
for v in [2.0, 4.0, 1.0]:
    pr.set(v)
    for m in ["auto", "trust-constr", "SLSQP"]:
        s = P.solve(method=m)
        print("param", v, m, s.status.value, round(s.values['q'],4), round(s.objective_value,4), "expect q", v/2)
# parameter in constraint rhs and LP-looking model
cap = Parameter("cap", 3.0)
P2 = Problem().maximize(q).subject_to(q <= cap)
for v in [3.0, 1.5, 4.5]:
    cap.set(v); s = P2.solve(); print("cap", v, s.status.value, round(s.values['q'],4))
# Solution accessors
Xm = MatrixVariable("X", 2, 2, lb=0, ub=1); vv = VectorVariable("v", 3, lb=0, ub=2)
s = Problem().maximize(Xm.sum() + vv.sum() - vv[1]).solve()
print(s[Xm], s[vv], s[vv[::-1]], s[Xm.T], s[vv[0]], s["v[1]"], sorted(s.values))
import numpy as np, itertools, warnings
warnings.simplefilter("ignore")
from optyx import *
from optyx.core.autodiff import gradient, compile_jacobian, compile_hessian
from optyx.core.compiler import compile_gradient
from optyx.core.vectors import VectorPowerSum, VectorUnarySum
rng = np.random.default_rng(0)
def numgrad(e, V, x, h=1e-6):
    def f(xx): return float(e.evaluate({v.name: xx[i] for i, v in enumerate(V)}))
    g = np.zeros(len(V))
    for i in range(len(V)):
        d = np.zeros(len(V)); d[i] = h
        g[i] = (f(x+d) - f(x-d)) / (2*h)
    return g
def numhess(e, V, x, h=1e-4):
    n = len(V); H = np.zeros((n,n))
    def f(xx): return float(e.evaluate({v.name: xx[i] for i, v in enumerate(V)}))
    for i in range(n):
        for j in range(n):
            di = np.zeros(n); dj = np.zeros(n); di[i]=h; dj[j]=h
            H[i,j] = (f(x+di+dj)-f(x+di-dj)-f(x-di+dj)+f(x-di-dj))/(4*h*h)
    return H
x = VectorVariable("x", 3); y = VectorVariable("y", 2); s = Variable("s")
def mk(cls, *a):
    o = cls(*a); 
    try: o._hash
    except AttributeError: o._hash = None   # work around D1 to look past it
    return o
Q = rng.normal(size=(3,3))
exprs = {
 "pow1": mk(VectorPowerSum, x, 1), "pow2": mk(VectorPowerSum, x, 2), "pow3": mk(VectorPowerSum, x, 3), "pow2.5": mk(VectorPowerSum, x, 2.5), "pow-1": mk(VectorPowerSum, x, -1),
 **{f"u_{op}": mk(VectorUnarySum, x, op) for op in ["sin","cos","tan","exp","log","abs","sqrt","sinh","cosh","tanh"]},
 "xx": x.dot(x), "xy": x[0:2].dot(y), "sum": x.sum(), "sum+c": x.sum() + 3, "2*sum": 2*x.sum(), "sum*2-1": x.sum()*2 - 1, "lc": np.array([1.,-2.,3.])@x, "3*lc+1": 3*(np.array([1.,-2.,3.])@x)+1,
 "qf": x.dot(Q@x), "2*xx": 2*x.dot(x), "xx+s": x.dot(x) + s, "norm": x.norm(), "l1": x.norm(1), "xx*s": x.dot(x)*s, "pow2 of slice": mk(VectorPowerSum, x[1:], 2), "c - sum": 5 - x.sum(),
 "dotexp": (x+1).dot(x*2), "ves": (x*x).sum(), "lcve": np.array([1.,2.,3.])@(x*x+1),
}
allv = list(x) + list(y) + [s]
bad = 0
for name, e in exprs.items():
    used = sorted(e.get_variables(), key=lambda v: v.name)
    orders = [used, used[::-1], used + [v for v in allv if v not in used], [v for v in allv if v not in used][::-1] + used[::-1]]
    for V in orders:
        pt = rng.uniform(0.5, 1.5, size=len(V))
        ng = numgrad(e, V, pt)
        for fn_name, fn in [("jac", lambda: compile_jacobian([e], V)), ("grad", lambda: compile_gradient(e, V))]:
            try:
                f = fn(); g = np.asarray(f(pt)).flatten()
                if not np.allclose(g, ng, rtol=1e-4, atol=1e-5):
                    bad += 1; print("MISMATCH", fn_name, name, [v.name for v in V], f.__name__, g, ng)
            except Exception as ex:
                bad += 1; print("RAISED", fn_name, name, type(ex).__name__, str(ex)[:60])
        try:
            hf = compile_hessian(e, V); H = hf(pt); nH = numhess(e, V, pt)
            if not np.allclose(H, nH, rtol=1e-3, atol=1e-4) or not np.allclose(H, H.T):
                bad += 1; print("HESS MISMATCH", name, [v.name for v in V], hf.__name__)
        except Exception as ex:
            bad += 1; print("HESS RAISED", name, type(ex).__name__, str(ex)[:60])
print("done, bad =", bad)
import warnings; warnings.simplefilter("ignore")
from optyx import *
x = Variable("x", lb=0, ub=10)
p = Problem().maximize(x)
print("before:", p.solve().values)
try:
    p.subject_to([x <= 3, "oops"])
except Exception as e:
    print("raised", type(e).__name__)
print("constraints now:", p.n_constraints)
print("after failed subject_to:", p.solve().values, " fresh:", Problem().maximize(x).subject_to(x <= 3).solve().values)
from optyx import *
from optyx.core.vectors import VectorPowerSum
x = VectorVariable("x", 3)
for p in [0.5, -1, 2, 3.0]:
    e = VectorPowerSum(x, p); e._hash = None
    print(p, "degree:", e.degree, "second read:", e.degree, "is_linear:", e.is_linear())
import numpy as np, warnings; warnings.simplefilter("ignore")
from optyx import *
from optyx.core.autodiff import gradient
from optyx.core.compiler import compile_expression
from optyx.core.vectors import VectorPowerSum
y = Variable("y"); x = VectorVariable("x", 3)
for fn in [atan, asin, acos, asinh, acosh, atanh, log2, log10, sin]:
    e = fn(y*0.5)
    for i in range(450): e = e + y
    try:
        g = gradient(e, y); print("D18", fn.__name__, "ok", g.evaluate({"y": 0.3}))
    except Exception as ex:
        print("D18", fn.__name__, "RAISED", type(ex).__name__, str(ex)[:60])
ps = VectorPowerSum(x, 2); ps._hash = None
for name, leaf in [("VectorPowerSum", ps), ("VectorSum", x.sum()), ("L2Norm", x.norm()), ("QuadraticForm", x.dot(np.eye(3) @ x)), ("VES", (x*x).sum())]:
    e = leaf
    for i in range(450): e = e + y
    V = list(x) + [y]
    try:
        f = compile_expression(e, V); print("D19", name, "ok", f(np.array([1.,2.,3.,0.5])))
    except Exception as ex:
        print("D19", name, "RAISED", type(ex).__name__, str(ex)[:60])
