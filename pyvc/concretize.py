"""Counter-model -> recipe of a real optyx input (DESIGN.md section 5, concretiser).

Objects are rebuilt from the model's interpretation of `kind` and the field functions; names of sort Name are mapped
to strings (literals keep their text).  Children the model says nothing specific about are rebuilt with whatever the
completed model assigns, cut off at a small depth with an affine witness that has the model's value and derivative.
"""
from __future__ import annotations

import z3

from . import sym
from .sym import Ref, Name, R, I, fn


class Concretizer:
    def __init__(self, eng, model):
        self.eng = eng
        self.S = eng.schema_factory()
        self.m = model
        self.names: dict[str, str] = {}
        self.env: dict[str, float] = {}
        self.degree_mode = False
        self.name_terms: dict[str, object] = {}

    def ev(self, t):
        return self.m.eval(t, model_completion=True)

    def fnum(self, t) -> float:
        v = self.ev(t)
        try:
            if z3.is_rational_value(v):
                f = v.as_fraction()
                return float(f.numerator) / float(f.denominator)
            if z3.is_int_value(v):
                return float(v.as_long())
            if z3.is_algebraic_value(v):
                return float(v.approx(12).as_fraction())
        except Exception:
            pass
        return 1.0

    def inum(self, t) -> int:
        v = self.ev(t)
        try:
            return v.as_long()
        except Exception:
            return 1

    def name(self, t) -> str:
        v = self.ev(t)
        key = str(v)
        if key not in self.names:
            s = sym.lit_of_model_value(self.m, v)
            self.names[key] = s if s is not None else f"n{len(self.names)}"
        nm = self.names[key]
        self.name_terms.setdefault(nm, t)
        return nm

    def column_order(self, IDX, NVfn) -> list[str]:
        """Variable names in the order the model's index map gives them (fillers for unused positions)."""
        n = max(1, min(8, self.inum(NVfn(IDX))))
        slots: dict[int, str] = {}
        for nm, t in self.name_terms.items():
            if nm not in self.env:
                continue
            pos = self.inum(z3.Select(IDX, t))
            if 0 <= pos < n and pos not in slots:
                slots[pos] = nm
        order = []
        for i in range(n):
            order.append(slots.get(i, f"zz_fill{i}"))
        for nm in self.env:
            if nm not in order and nm in self.name_terms:
                order.append(nm)
        return order

    def kind(self, ref) -> str:
        return str(self.ev(self.S.kinds.kind(ref)))

    def opname(self, ref, table) -> str:
        s = sym.lit_of_model_value(self.m, self.ev(self.S.F("op", Name)(ref)))
        return s if s in table else table[0]

    def expr(self, ref, depth=0, E=None, PV=None):
        from .spec import BINARY_OPS, UNARY_OPS, VEC_UNARY_OPS
        S = self.S
        E = S.E if E is None else E
        k = self.kind(ref)
        F = lambda f, s=Ref: S.F(f, s)(ref)
        if depth > 4:
            return {"cls": "Constant", "value": 1.0}
        if self.degree_mode and depth > 0:
            # witness chosen by the model's (ISPOLY, SDEG) of this sub-term (DESIGN.md appendix C)
            if not z3.is_true(self.ev(S.ISPOLY(ref))):
                return {"cls": "UnaryOp", "operand": {"cls": "Variable", "name": "u"}, "op": "sin"}
            d = max(0, min(4, self.inum(S.SDEG(ref))))
            if d == 0:
                if k == "Constant":
                    return {"cls": "Constant", "value": self.fnum(F("value", R))}
                return {"cls": "BinaryOp", "left": {"cls": "Constant", "value": 2.0}, "right": {"cls": "Constant", "value": 3.0}, "op": "+"}
            if d == 1:
                if k == "Variable":
                    return {"cls": "Variable", "name": self.name(F("name", Name))}
                return {"cls": "BinaryOp", "left": {"cls": "BinaryOp", "left": {"cls": "Constant", "value": 2.0},
                                                      "right": {"cls": "Variable", "name": "u"}, "op": "*"},
                        "right": {"cls": "Constant", "value": 5.0}, "op": "+"}
            return {"cls": "BinaryOp", "left": {"cls": "Variable", "name": "u"}, "right": {"cls": "Constant", "value": float(d)}, "op": "**"}
        if k == "Constant":
            return {"cls": "Constant", "value": self.fnum(F("value", R))}
        if k == "Variable":
            nm = self.name(F("name", Name))
            self.env.setdefault(nm, self.fnum(z3.Select(E, F("name", Name))))
            return {"cls": "Variable", "name": nm}
        if k == "Parameter":
            return {"cls": "Parameter", "name": self.name(F("name", Name)), "value": 1.5}
        if k == "BinaryOp":
            return {"cls": "BinaryOp", "left": self.expr(F("left"), depth + 1), "right": self.expr(F("right"), depth + 1),
                    "op": self.opname(ref, BINARY_OPS)}
        if k == "UnaryOp":
            return {"cls": "UnaryOp", "operand": self.expr(F("operand"), depth + 1), "op": self.opname(ref, UNARY_OPS)}
        if k in ("VectorSum", "L2Norm", "L1Norm"):
            return {"cls": k, "vector": self.vector(F("vector"), depth + 1)}
        if k == "VectorExpressionSum":
            return {"cls": k, "expression": self.vector(F("expression"), depth + 1, force="VectorExpression")}
        if k == "DotProduct":
            l = self.vector(F("left"), depth + 1)
            r = self.vector(F("right"), depth + 1, n=len(l.get("vars", l.get("exprs", []))))
            return {"cls": k, "left": l, "right": r}
        if k == "LinearCombination":
            v = self.vector(F("vector"), depth + 1)
            n = len(v.get("vars", v.get("exprs", [])))
            arr = fn("ARR_coefficients", Ref, sym.RealArr)(ref)
            return {"cls": k, "coefficients": [self.fnum(z3.Select(arr, z3.IntVal(i))) for i in range(n)], "vector": v}
        if k == "VectorPowerSum":
            return {"cls": k, "vector": self.vector(F("vector"), depth + 1, force="VectorVariable"),
                    "power": self.fnum(F("power", R))}
        if k == "VectorUnarySum":
            return {"cls": k, "vector": self.vector(F("vector"), depth + 1, force="VectorVariable"),
                    "op": self.opname(ref, VEC_UNARY_OPS)}
        if k == "ElementwisePower":
            return {"cls": k, "vector": self.vector(F("vector"), depth + 1, force="VectorVariable"),
                    "power": self.fnum(F("power", R))}
        if k == "ElementwiseUnary":
            return {"cls": k, "vector": self.vector(F("vector"), depth + 1, force="VectorVariable"),
                    "op": self.opname(ref, VEC_UNARY_OPS)}
        if k == "MatrixSum":
            return {"cls": "py", "expr": "MatrixVariable('M', 2, 2).sum()"}
        if k == "FrobeniusNorm":
            return {"cls": "py", "expr": "frobenius_norm(MatrixVariable('M', 2, 2))"}
        if k == "QuadraticForm":
            v = self.vector(F("vector"), depth + 1)
            n = len(v.get("vars", v.get("exprs", [])))
            return {"cls": k, "vector": v, "matrix": [[1.0 if i == j else 0.5 for j in range(n)] for i in range(n)]}
        return {"cls": "Variable", "name": "u"}

    def vector(self, v, depth=0, force=None, n=None):
        S = self.S
        k = force or self.kind(v)
        n = n or max(1, min(4, self.inum(fn("VLEN", Ref, I)(v))))
        if k == "VectorVariable":
            EL = fn("ELEM__variables", Ref, I, Ref)
            vs = []
            seen = set()
            for i in range(n):
                nm = self.name(S.F("name", Name)(EL(v, z3.IntVal(i))))
                if nm in seen:       # A6: distinct names
                    nm = nm + f"_{i}"
                seen.add(nm)
                self.env.setdefault(nm, self.fnum(z3.Select(S.E, S.F("name", Name)(EL(v, z3.IntVal(i))))))
                vs.append({"cls": "Variable", "name": nm})
            return {"cls": "VectorVariable", "name": self.name(S.F("name", Name)(v)), "vars": vs}
        EL = fn("ELEM__expressions", Ref, I, Ref)
        return {"cls": "VectorExpression", "exprs": [self.expr(EL(v, z3.IntVal(i)), depth + 1) for i in range(n)]}


def find_const(ob, prefix: str):
    """z3 constant whose name starts with `prefix` (e.g. 'expr!') among the obligation's terms."""
    seen = set()
    work = list(ob.assumptions) + [ob.goal]
    while work:
        t = work.pop()
        if t.get_id() in seen:
            continue
        seen.add(t.get_id())
        if z3.is_const(t) and t.decl().kind() == z3.Z3_OP_UNINTERPRETED and t.decl().name().startswith(prefix):
            return t
        work.extend(t.children())
    return None
