"""Spike 2: closures, default-arg capture, comprehension rule, gather, Sum/Dot with manual
extensionality -- on the real AST of compiler._build_evaluator and the real evaluate methods."""
import ast, time, itertools
import z3

def load(path):
    return ast.parse(open(path).read())
COMP = load("/repo/src/optyx/core/compiler.py")
EXPR = load("/repo/src/optyx/core/expressions.py")
VECS = load("/repo/src/optyx/core/vectors.py")
def func(tree, name, cls=None):
    for n in ast.walk(tree):
        if cls and isinstance(n, ast.ClassDef) and n.name == cls:
            for m in n.body:
                if isinstance(m, ast.FunctionDef) and m.name == name: return m
        if not cls and isinstance(n, ast.FunctionDef) and n.name == name: return n
    raise KeyError(name)

R, I, S = z3.RealSort(), z3.IntSort(), z3.StringSort()
Ref = z3.DeclareSort("Ref")
KINDS = ["Constant", "Parameter", "Variable", "BinaryOp", "UnaryOp", "VectorSum", "LinearCombination",
         "VectorVariable", "VectorExpression", "VectorExpressionSum", "DotProduct", "L2Norm", "L1Norm",
         "QuadraticForm", "VectorPowerSum", "VectorUnarySum", "ElementwisePower", "ElementwiseUnary", "Other"]
Kind, kc = z3.EnumSort("Kind", KINDS); K = dict(zip(KINDS, kc))
kind = z3.Function("kind", Ref, Kind)
F = {"value": z3.Function("f_value", Ref, R), "name": z3.Function("f_name", Ref, S),
     "op": z3.Function("f_op", Ref, S), "left": z3.Function("f_left", Ref, Ref),
     "right": z3.Function("f_right", Ref, Ref), "operand": z3.Function("f_operand", Ref, Ref),
     "vector": z3.Function("f_vector", Ref, Ref)}
VLEN = z3.Function("vlen", Ref, I)                 # len(vec._variables)
VAR_AT = z3.Function("var_at", Ref, I, Ref)        # vec._variables[k]
COEF = z3.Function("coef", Ref, z3.ArraySort(I, R))  # lc.coefficients
IDX = z3.Function("IDX", S, I)                     # var_indices[name]
X = z3.Array("X", I, R)                            # the solver vector
PVAL = z3.Function("PVAL", Ref, R)                 # heap: parameter value at call time
DEN = z3.Function("DEN", Ref, R)                   # spec denotation at env(V,X), call-time heap
APPLY = z3.Function("APPLY", Ref, R)               # closure(ref)(X) for closures returned by callees
SUM = z3.Function("SUM", I, z3.ArraySort(I, R), R)
DOT = z3.Function("DOT", I, z3.ArraySort(I, R), z3.ArraySort(I, R), R)
NPF = {n: z3.Function("np_" + n, R, R) for n in ["sin", "cos", "exp", "log", "sqrt", "abs", "neg"]}
BIN = {"+": lambda a, b: a + b, "-": lambda a, b: a - b, "*": lambda a, b: a * b,
       "/": lambda a, b: a / b, "**": z3.Function("pow", R, R, R)}

class Obj:      # opaque heap reference
    def __init__(s, ref): s.ref = ref
class Seq:      # (len, pointwise definition)
    def __init__(s, n, f): s.n, s.f = n, f
    def arr(s):
        k = z3.Int("k!")
        return z3.Lambda([k], s.f(k))
class Closure:
    def __init__(s, node, env, defaults): s.node, s.env, s.defaults = node, env, defaults
class CalleeClosure:   # closure returned by a contracted call: only its contract is known
    def __init__(s, ref): s.ref = ref
class Val:
    def __init__(s, t): s.t = t
class Cls:
    def __init__(s, n): s.n = n
class NpFunc:
    def __init__(s, n): s.n = n
XVAL = object()
_c = itertools.count()

class Ex:
    """tiny path-forking evaluator (continuation style) for the constructs _build_evaluator uses"""
    def __init__(self): self.out = []
    def feasible(self, pc):
        s = z3.Solver(); s.add(*pc); return s.check() != z3.unsat
    def run(self, node, env, pc):
        self.block(node.body, dict(env), list(pc))
        return self.out
    def block(self, stmts, env, pc):
        for i, s in enumerate(stmts):
            if isinstance(s, (ast.ImportFrom, ast.Import)): continue
            if isinstance(s, ast.Expr): continue
            if isinstance(s, ast.Assign):
                env[s.targets[0].id] = self.ev(s.value, env, pc); continue
            if isinstance(s, ast.Return):
                self.out.append((pc, ("return", self.ev(s.value, env, pc)))); return
            if isinstance(s, ast.Raise):
                self.out.append((pc, ("raise", ast.unparse(s.exc)[:30]))); return
            if isinstance(s, ast.If):
                c = self.ev(s.test, env, pc).t
                rest = stmts[i + 1:]
                if self.feasible(pc + [c]): self.block(list(s.body) + rest, dict(env), pc + [c])
                if self.feasible(pc + [z3.Not(c)]): self.block(list(s.orelse) + rest, dict(env), pc + [z3.Not(c)])
                return
            raise NotImplementedError(ast.dump(s)[:60])
        self.out.append((pc, ("return", None)))
    def ev(self, e, env, pc):
        if isinstance(e, ast.Constant): return Val(z3.StringVal(e.value) if isinstance(e.value, str) else z3.RealVal(e.value))
        if isinstance(e, ast.Name):
            if e.id in env: return env[e.id]
            if e.id in K: return Cls(e.id)
            raise NotImplementedError("name " + e.id)
        if isinstance(e, ast.Attribute):
            if ast.unparse(e).startswith("np."): return NpFunc(e.attr)
            o = self.ev(e.value, env, pc)
            if e.attr == "_variables":
                return Seq(VLEN(o.ref), lambda k, r=o.ref: VAR_AT(r, k))
            if e.attr == "coefficients":
                return Seq(VLEN(F["vector"](o.ref)), lambda k, r=o.ref: z3.Select(COEF(r), k))
            if e.attr == "_numpy_func": return ("numpy_func_of", o)
            if e.attr == "value" and isinstance(o, Obj) and env.get("__param__") is o:
                return Val(PVAL(o.ref))
            t = F[e.attr](o.ref)
            return Obj(t) if t.sort() == Ref else Val(t)
        if isinstance(e, ast.Compare):
            l, r = self.ev(e.left, env, pc), self.ev(e.comparators[0], env, pc)
            return Val(l.t == r.t)
        if isinstance(e, ast.Lambda):
            defaults = {}
            args = e.args.args
            for a, d in zip(args[len(args) - len(e.args.defaults):], e.args.defaults):
                defaults[a.arg] = self.ev(d, env, pc)          # bound NOW (creation time)
            return Closure(e, dict(env), defaults)
        if isinstance(e, ast.Subscript):
            base, key = self.ev(e.value, env, pc), self.ev(e.slice, env, pc)
            if base == "var_indices": return Val(IDX(key.t))
            if base is XVAL:
                if isinstance(key, Seq): return Seq(key.n, lambda k, ks=key: z3.Select(X, ks.f(k)))   # gather
                return Val(z3.Select(X, key.t))
            raise NotImplementedError("subscript")
        if isinstance(e, ast.ListComp):
            g = e.generators[0]
            src = self.ev(g.iter, env, pc)
            def f(k, src=src, env=env, g=g, e=e, pc=pc):
                elt = src.f(k); env2 = dict(env); env2[g.target.id] = Obj(elt) if elt.sort() == Ref else Val(elt)
                return self.ev(e.elt, env2, pc).t
            return Seq(src.n, f)
        if isinstance(e, ast.BinOp):
            l, r = self.ev(e.left, env, pc), self.ev(e.right, env, pc)
            sym = {ast.Add: "+", ast.Sub: "-", ast.Mult: "*", ast.Div: "/", ast.Pow: "**"}[type(e.op)]
            return Val(BIN[sym](l.t, r.t))
        if isinstance(e, ast.Call):
            fn = e.func
            if isinstance(fn, ast.Name) and fn.id == "isinstance":
                o, c = self.ev(e.args[0], env, pc), self.ev(e.args[1], env, pc)
                return Val(kind(o.ref) == K[c.n])
            f = self.ev(fn, env, pc) if not (isinstance(fn, ast.Name) and fn.id == "_build_evaluator") else "REC"
            args = [self.ev(a, env, pc) for a in e.args]
            if f == "REC":                      # induction hypothesis: callee contract only
                child = args[0]; ref = z3.Const(f"clo{next(_c)}", Ref)
                pc.append(APPLY(ref) == DEN(child.ref))
                return CalleeClosure(ref)
            if isinstance(f, NpFunc):
                if f.n in ("array", "asarray"): return args[0]
                if f.n == "dot": return Val(DOT(args[0].n, args[0].arr(), args[1].arr()))
                if f.n == "sum": return Val(SUM(args[0].n, args[0].arr()))
                raise NotImplementedError(f.n)
            if isinstance(f, Closure): return self.apply(f, args, pc)
            if isinstance(f, CalleeClosure): return Val(APPLY(f.ref))     # applied at X
            if isinstance(f, tuple) and f[0] == "numpy_func_of":
                # UnaryOp._numpy_func = _OPS[op] ; _OPS read from the class body
                return Val(np_apply(f[1], args[0].t))
            raise NotImplementedError(ast.dump(e)[:80])
        raise NotImplementedError(ast.dump(e)[:80])
    def apply(self, clo, args, pc):
        env = dict(clo.env)
        params = [a.arg for a in clo.node.args.args]
        for p, a in zip(params, args): env[p] = a
        for p in params[len(args):]: env[p] = clo.defaults[p]
        return self.ev(clo.node.body, env, pc)

# UnaryOp._OPS table, read from the real class body
OPS_TABLE = {}
for n in ast.walk(EXPR):
    if isinstance(n, ast.ClassDef) and n.name == "UnaryOp":
        for st in n.body:
            if isinstance(st, ast.AnnAssign) and st.target.id == "_OPS":
                for k_, v_ in zip(st.value.keys, st.value.values):
                    OPS_TABLE[k_.value] = v_.attr
NP2SPEC = {"negative": "neg", "abs": "abs", "sin": "sin", "cos": "cos", "exp": "exp", "log": "log", "sqrt": "sqrt"}
def np_apply(o, t):
    # value depends on f_op(o): ite-chain over the table actually present in the source
    res = t
    for opname, npname in OPS_TABLE.items():
        if npname in NP2SPEC:
            res = z3.If(F["op"](o.ref) == z3.StringVal(opname), NPF[NP2SPEC[npname]](t), res)
    return res

def spec_den(e, k):
    """⟦e⟧ for the node under proof, children opaque (DEN)"""
    r = e.ref
    if k == "Constant": return F["value"](r)
    if k == "Parameter": return PVAL(r)
    if k == "Variable": return z3.Select(X, IDX(F["name"](r)))         # env(V,x)(name) = x[idx(name)]
    if k == "VectorSum":
        v = F["vector"](r); kk = z3.Int("k!")
        return SUM(VLEN(v), z3.Lambda([kk], z3.Select(X, IDX(F["name"](VAR_AT(v, kk))))))
    if k == "LinearCombination":
        v = F["vector"](r); kk = z3.Int("k!")
        return DOT(VLEN(v), COEF(r), z3.Lambda([kk], z3.Select(X, IDX(F["name"](VAR_AT(v, kk))))))
    raise KeyError(k)

def prove(pc, goal, label):
    s = z3.Solver(); s.set("timeout", 10000); s.add(*pc); s.add(z3.Not(goal))
    t = time.time(); r = s.check(); dt = (time.time() - t) * 1000
    print(f"  [{'PROVED ' if r == z3.unsat else 'REFUTED' if r == z3.sat else 'UNKNOWN'}] {label} ({dt:.0f} ms)")
    if r == z3.sat: print("     ", s.model())
    return r

BE = func(COMP, "_build_evaluator")
print("== _build_evaluator: apply(result, X) == ⟦expr⟧(env(V,X), call-time heap)")
for k in ["Constant", "Parameter", "Variable", "VectorSum", "LinearCombination"]:
    e = Obj(z3.Const("e", Ref))
    pre = [kind(e.ref) == K[k]]
    if k in ("VectorSum", "LinearCombination"):
        pre.append(kind(F["vector"](e.ref)) == K["VectorVariable"])
    env = {"expr": e, "var_indices": "var_indices"}
    if k == "Parameter": env["__param__"] = e
    ex = Ex()
    for pc, (tag, v) in ex.run(BE, env, pre):
        if tag == "raise": print("  [REFUTED] raises", v); continue
        res = ex.apply(v, [XVAL], pc)          # call the returned closure on the symbolic x
        prove(pc, res.t == spec_den(e, k), f"{k}")
for op in ["+", "-", "*", "/", "**"]:
    e = Obj(z3.Const("e", Ref))
    pre = [kind(e.ref) == K["BinaryOp"], F["op"](e.ref) == z3.StringVal(op)]
    ex = Ex()
    for pc, (tag, v) in ex.run(BE, {"expr": e, "var_indices": "var_indices"}, pre):
        if tag == "raise": print("  [REFUTED] raises", v); continue
        res = ex.apply(v, [XVAL], pc)
        goal = res.t == BIN[op](DEN(F["left"](e.ref)), DEN(F["right"](e.ref)))
        prove(pc, goal, f"BinaryOp {op}")
for op in ["neg", "sin", "sqrt", "abs"]:
    e = Obj(z3.Const("e", Ref))
    pre = [kind(e.ref) == K["UnaryOp"], F["op"](e.ref) == z3.StringVal(op)]
    ex = Ex()
    for pc, (tag, v) in ex.run(BE, {"expr": e, "var_indices": "var_indices"}, pre):
        if tag == "raise": print("  [REFUTED] raises", v); continue
        res = ex.apply(v, [XVAL], pc)
        prove(pc, res.t == NPF[op](DEN(F["operand"](e.ref))), f"UnaryOp {op} (table read from UnaryOp._OPS)")

print("== frozen-parameter mutant (value captured at build time) must be refuted")
mut = ast.parse("def f(expr, var_indices):\n    v = expr.value\n    return lambda x: v\n").body[0]
BUILD_PVAL = z3.Function("PVAL_at_build", Ref, R)
e = Obj(z3.Const("e", Ref))
class Ex2(Ex):
    def ev(self, node, env, pc):
        if isinstance(node, ast.Attribute) and node.attr == "value":
            return Val(BUILD_PVAL(self.ev(node.value, env, pc).ref))   # read of the build-time heap
        return super().ev(node, env, pc)
ex = Ex2()
for pc, (tag, v) in ex.run(mut, {"expr": e}, [kind(e.ref) == K["Parameter"]]):
    res = ex.apply(v, [XVAL], pc)
    prove(pc, res.t == PVAL(e.ref), "Parameter frozen at build time")

print("== extensionality: two different-looking comprehensions, equal pointwise")
n = z3.Int("n"); a = z3.Array("a", I, R); kk = z3.Int("k!"); sk = z3.Int("sk")
A1 = z3.Lambda([kk], z3.Select(a, kk) + 0); A2 = z3.Lambda([kk], 1 * z3.Select(a, kk))
lemma = z3.Or(z3.And(0 <= sk, sk < n, z3.Select(A1, sk) != z3.Select(A2, sk)), SUM(n, A1) == SUM(n, A2))
prove([lemma], SUM(n, A1) == SUM(n, A2), "SUM congruence via Skolem-instantiated lemma")
