"""Models of Python builtins, containers and the NumPy functions optyx uses (assumption A2/A4).

Every NumPy entry is an executable statement about real arithmetic; the table is sampled against the
installed NumPy by `native/numpy_model_check.py` (labelled assumed+sampled, never proved).
"""
from __future__ import annotations

import ast
from typing import Any

import z3

from . import sym
from .values import (GList, SDict, HeapList, BoundBuiltin, BoundMethod, BuiltinRef, ClassRef, Closure, ExcVal, FuncRef, ModuleRef, NOTIMPL,
                     Obj, Opaque, PDict, PList, SArr, SBool, SInt, SMap, SName, SOpt, SReal, SSeq, SSet, SStrOpaque,
                     SpecFn, Unsupported, num_term, real_term)


class SType:
    """type(o) of an opaque object whose exact class is not known on this path."""
    __slots__ = ("ref", "upper")

    def __init__(self, ref, upper):
        self.ref = ref
        self.upper = upper

    def __repr__(self):
        return f"SType({self.ref})"


NUMERIC_PY = ("int", "float", "bool", "num", "pynum")
NP_UFUNCS = {
    "numpy.negative": "neg", "numpy.abs": "abs", "numpy.absolute": "abs", "numpy.sin": "sin", "numpy.cos": "cos",
    "numpy.tan": "tan", "numpy.exp": "exp", "numpy.log": "log", "numpy.log2": "log2", "numpy.log10": "log10",
    "numpy.sqrt": "sqrt", "numpy.tanh": "tanh", "numpy.sinh": "sinh", "numpy.cosh": "cosh",
    "numpy.arcsin": "asin", "numpy.arccos": "acos", "numpy.arctan": "atan", "numpy.arcsinh": "asinh",
    "numpy.arccosh": "acosh", "numpy.arctanh": "atanh", "numpy.sign": "sign",
}
NP_BINARY = {"numpy.add": ast.Add, "numpy.subtract": ast.Sub, "numpy.multiply": ast.Mult, "numpy.divide": ast.Div,
             "numpy.power": ast.Pow}


def norm_np(name: str) -> str:
    if name.startswith("np."):
        return "numpy." + name[3:]
    return name


class Models:
    def __init__(self, source):
        self.src = source

    # ------------------------------------------------------------------ keys of concrete dicts/sets
    def key(self, v):
        if isinstance(v, (str, int, float, bool, tuple)) or v is None:
            return v
        if isinstance(v, SName):
            return ("name", str(v.t), v)
        if isinstance(v, ClassRef):
            return ("class", v.name)
        if isinstance(v, Obj):
            return ("obj", v.oid, v)
        if isinstance(v, Opaque):
            return ("ref", str(v.ref), v)
        raise Unsupported(f"dict key {v!r}")

    def unkey(self, k):
        if isinstance(k, tuple) and len(k) >= 2 and k[0] in ("name", "obj", "ref") and len(k) == 3:
            return k[2]
        if isinstance(k, tuple) and len(k) == 2 and k[0] == "class":
            return ClassRef(k[1])
        return k

    # ------------------------------------------------------------------ boolean helpers
    def bnot(self, v):
        if isinstance(v, bool):
            return not v
        if isinstance(v, SBool):
            return SBool(z3.Not(v.t))
        raise Unsupported(f"not of {v!r}")

    def band(self, a, b):
        if isinstance(a, bool):
            return b if a else False
        if isinstance(b, bool):
            return a if b else False
        return SBool(z3.And(a.t, b.t))

    def bor(self, a, b):
        if isinstance(a, bool):
            return True if a else b
        if isinstance(b, bool):
            return True if b else a
        return SBool(z3.Or(a.t, b.t))

    def mkbool(self, t):
        t = z3.simplify(t) if not isinstance(t, bool) else t
        if isinstance(t, bool):
            return t
        if z3.is_true(t):
            return True
        if z3.is_false(t):
            return False
        return SBool(t)

    # ------------------------------------------------------------------ identity / equality
    def ref_of(self, ip, v):
        if isinstance(v, Opaque):
            return v.ref
        if isinstance(v, Obj):
            return ip.schema.materialize(ip, v)
        return None

    def identical(self, ip, l, r):
        if l is None or r is None:
            other = r if l is None else l
            if other is None:
                return True
            if isinstance(other, SOpt):
                return self.mkbool(other.isnone)
            return False
        if isinstance(l, SOpt):
            if ip.path.guards and r is None:
                return self.mkbool(l.isnone)        # as a term: no fork inside a lazily evaluated sequence element
            if ip.path.branch(l.isnone, "is None"):
                return self.identical(ip, None, r)
            return self.identical(ip, l.val, r)
        if isinstance(r, SOpt):
            return self.identical(ip, r, l)
        if isinstance(l, Obj) and isinstance(r, Obj):
            return l is r
        if isinstance(l, Opaque) and isinstance(r, Opaque):
            return self.mkbool(l.ref == r.ref)
        if isinstance(l, (Obj, Opaque)) and isinstance(r, (Obj, Opaque)):
            # one allocated on this path, the other pre-existing: fresh objects are distinct from all
            # pre-existing ones unless the allocated one has been materialised and aliased by a contract
            return False
        if isinstance(l, bool) and isinstance(r, bool):
            return l is r
        if isinstance(l, ClassRef) and isinstance(r, ClassRef):
            return l.name == r.name
        if isinstance(l, SType) or isinstance(r, SType):
            return self.equals(ip, l, r)
        if type(l) is type(r) and isinstance(l, (PList, PDict, SArr, Closure, SpecFn, SSeq)):
            return l is r
        if isinstance(l, BuiltinRef) and isinstance(r, BuiltinRef):
            return l.name == r.name
        if isinstance(l, (Obj, Opaque)) or isinstance(r, (Obj, Opaque)):
            return False
        if isinstance(l, (int, float, str)) and isinstance(r, (int, float, str)):
            return l == r and type(l) is type(r)
        return l is r

    def equals(self, ip, l, r, node=None):
        if ip.path.guards and (isinstance(l, SOpt) or isinstance(r, SOpt)):
            # inside a lazily evaluated element / a filter predicate: optional numbers are compared as one term
            def parts(v):
                if isinstance(v, SOpt) and self.isnum(v.val):
                    return v.isnone, real_term(v.val)
                if v is None:
                    return z3.BoolVal(True), sym.rv(0)
                if self.isnum(v):
                    return z3.BoolVal(False), real_term(v)
                return None
            pl, pr = parts(l), parts(r)
            if pl is not None and pr is not None:
                return self.mkbool(z3.If(z3.Or(pl[0], pr[0]), z3.And(pl[0], pr[0]), pl[1] == pr[1]))
        if isinstance(l, SOpt):
            if ip.path.branch(l.isnone, "lhs is None"):
                return self.equals(ip, None, r, node)
            return self.equals(ip, l.val, r, node)
        if isinstance(r, SOpt):
            if ip.path.branch(r.isnone, "rhs is None"):
                return self.equals(ip, l, None, node)
            return self.equals(ip, l, r.val, node)
        if l is None or r is None:
            return l is None and r is None
        if isinstance(l, (Obj, Opaque)):
            res = ip.call_method(l, "__eq__", [r], {}, node)
            if res is NOTIMPL and isinstance(r, (Obj, Opaque)):
                res = ip.call_method(r, "__eq__", [l], {}, node)
            return self.identical(ip, l, r) if res is NOTIMPL else res
        if isinstance(r, (Obj, Opaque)):
            return self.equals(ip, r, l, node)
        if self.isnum(l) and self.isnum(r):
            if isinstance(l, (int, float, bool)) and isinstance(r, (int, float, bool)):
                return l == r
            return self.mkbool(real_term(l) == real_term(r))
        if isinstance(l, (str, SName)) and isinstance(r, (str, SName)):
            if isinstance(l, str) and isinstance(r, str):
                return l == r
            return self.mkbool(self.name_term(l) == self.name_term(r))
        if isinstance(l, tuple) and isinstance(r, tuple):
            if len(l) != len(r):
                return False
            acc: Any = True
            for a, b in zip(l, r):
                acc = self.band(acc, self.equals(ip, a, b, node))
            return acc
        if isinstance(l, (ClassRef, SType)) or isinstance(r, (ClassRef, SType)):
            return self.type_equal(ip, l, r)
        if isinstance(l, ExcVal) or isinstance(r, ExcVal):
            return l is r
        if isinstance(l, (str, SName, SStrOpaque)) != isinstance(r, (str, SName, SStrOpaque)):
            return False
        if isinstance(l, BuiltinRef) and isinstance(r, BuiltinRef):
            return l.name == r.name
        if isinstance(l, SStrOpaque) or isinstance(r, SStrOpaque):
            raise Unsupported("equality on an untracked string")
        if type(l) is not type(r):
            return False
        raise Unsupported(f"equality of {type(l).__name__} and {type(r).__name__}")

    def type_equal(self, ip, l, r):
        if isinstance(l, ClassRef) and isinstance(r, ClassRef):
            return l.name == r.name
        if isinstance(l, SType) and isinstance(r, ClassRef):
            return self.mkbool(ip.schema.kinds.is_kind(l.ref, r.name)) if r.name in ip.schema.kinds.const else False
        if isinstance(r, SType) and isinstance(l, ClassRef):
            return self.type_equal(ip, r, l)
        if isinstance(l, SType) and isinstance(r, SType):
            return self.mkbool(ip.schema.kinds.kind(l.ref) == ip.schema.kinds.kind(r.ref))
        return False

    def name_term(self, v):
        if isinstance(v, str):
            return sym.lit(v)
        if isinstance(v, SName):
            return v.t
        if isinstance(v, Obj) and v.cls == "Variable" and "name" in v.fields:
            return self.name_term(v.fields["name"])          # Variable.__eq__/__hash__ are by name (proved in memo_c)
        if isinstance(v, Opaque) and v.cls == "Variable":
            return sym.fn("F_name", sym.Ref, sym.Name)(v.ref)
        raise Unsupported(f"not a name: {v!r}")

    def isnum(self, v) -> bool:
        return isinstance(v, (int, float, bool, SReal, SInt))

    # ------------------------------------------------------------------ ordering
    def unopt(self, ip, v):
        """Optional value used where a plain value is needed: decide `is None` on the path (None then behaves as None)."""
        while isinstance(v, SOpt):
            if ip.path.branch(v.isnone, "value is None"):
                return None
            v = v.val
        return v

    def narrow(self, ip, v):
        """Optional value whose None-ness is already decided by the path condition."""
        while isinstance(v, SOpt):
            if ip.path.entails(z3.Not(v.isnone)):
                v = v.val
            elif ip.path.entails(v.isnone):
                return None
            else:
                return v
        return v

    def order(self, ip, op, l, r, node=None):
        l, r = self.unopt(ip, l), self.unopt(ip, r)
        if l is None or r is None:
            ip.raise_exc("TypeError", "ordering with None")
        if self.isnum(l) and self.isnum(r):
            if isinstance(l, (int, float, bool)) and isinstance(r, (int, float, bool)):
                return {ast.Lt: l < r, ast.LtE: l <= r, ast.Gt: l > r, ast.GtE: l >= r}[type(op)]
            a, b = num_term(l), num_term(r)
            if z3.is_int(a) != z3.is_int(b):
                a, b = sym.to_real(a), sym.to_real(b)
            t = {ast.Lt: a < b, ast.LtE: a <= b, ast.Gt: a > b, ast.GtE: a >= b}[type(op)]
            return self.mkbool(t)
        if isinstance(l, (SArr, SSeq)) or isinstance(r, (SArr, SSeq)):
            raise Unsupported("array comparison")
        raise Unsupported(f"ordering of {type(l).__name__} and {type(r).__name__}")

    # ------------------------------------------------------------------ arithmetic
    def pytype(self, v) -> str:
        if isinstance(v, bool):
            return "bool"
        if isinstance(v, int):
            return "int"
        if isinstance(v, float):
            return "float"
        if isinstance(v, SInt):
            return "int"
        if isinstance(v, SReal):
            return v.pytype
        raise Unsupported(f"pytype of {v!r}")

    def join_type(self, a: str, b: str, div=False) -> str:
        if "npfloat" in (a, b) or ("npint" in (a, b) and ("float" in (a, b) or div)):
            return "npfloat"
        if "npint" in (a, b):
            return "npint"
        if div:
            return "float"
        if "float" in (a, b):
            return "float"
        if "pynum" in (a, b):
            return "pynum"
        if "num" in (a, b):
            return "num"
        return "int"

    def pow_term(self, ip, a, b):
        """a ** b over the reals: uninterpreted POW with the instances x^0=1, x^1=x, x^2=x*x, x^3, (x^-1 = 1/x)."""
        if z3.is_rational_value(b) or z3.is_int_value(b):
            try:
                bv = b.as_fraction() if z3.is_rational_value(b) else None
            except Exception:
                bv = None
            if z3.is_int_value(b):
                n = b.as_long()
            elif bv is not None and bv.denominator == 1:
                n = bv.numerator
            else:
                n = None
            if n is not None and 0 <= n <= 4:
                out = sym.rv(1)
                for _ in range(n):
                    out = out * a
                return out if n > 0 else sym.rv(1)
        t = sym.POW(a, b)
        key = "pow:" + str(t)
        if key not in ip.path.unfolded:
            ip.path.unfolded.add(key)
            ip.path.assume(z3.Implies(b == 0, t == 1))
            ip.path.assume(z3.Implies(b == 1, t == a))
            ip.path.assume(z3.Implies(b == 2, t == a * a))
            ip.path.assume(z3.Implies(b == 3, t == a * a * a))
            ip.path.assume(z3.Implies(z3.And(a == 0, b > 0), t == 0))      # Real.zero_rpow
            ip.path.assume(z3.Implies(a == 1, t == 1))                      # Real.one_rpow
            ip.path.assume(z3.Implies(z3.And(b == -1, a != 0), t == 1 / a))
            ip.path.assume(z3.Implies(z3.And(b == -2, a != 0), t == 1 / (a * a)))
        return t

    def arith(self, ip, op, l, r, node=None):
        l, r = self.unopt(ip, l), self.unopt(ip, r)
        if l is None or r is None:
            ip.raise_exc("TypeError", "arithmetic with None")
        if isinstance(l, (SArr, SSeq)) or isinstance(r, (SArr, SSeq)):
            return self.array_binary(ip, op, l, r, node)
        if isinstance(l, PList) and isinstance(r, PList) and isinstance(op, ast.Add):
            return PList(l.items + r.items)
        if isinstance(l, PList) and isinstance(r, int) and isinstance(op, ast.Mult):
            return PList(l.items * r)
        if isinstance(l, PList) and isinstance(r, SInt) and isinstance(op, ast.Mult):
            item = l.items[0] if len(l.items) == 1 else None
            if item is None:
                raise Unsupported("list * symbolic int")
            return SSeq(r.t, lambda k: item, "list", "repeat")
        if isinstance(l, SSet) and isinstance(r, SSet) and isinstance(op, ast.BitOr):
            return SSet(lambda nm, a=l.member, b=r.member: z3.Or(a(nm), b(nm)), "union")
        if isinstance(l, str) and isinstance(r, str) and isinstance(op, ast.Add):
            return l + r
        if isinstance(l, (str, SStrOpaque)) and isinstance(r, (str, SStrOpaque)) and isinstance(op, ast.Add):
            return SStrOpaque((l, r))
        if isinstance(l, tuple) and isinstance(r, tuple) and isinstance(op, ast.Add):
            return l + r
        if not (self.isnum(l) and self.isnum(r)):
            raise Unsupported(f"arithmetic {type(op).__name__} on {type(l).__name__}, {type(r).__name__}")
        conc = isinstance(l, (int, float, bool)) and isinstance(r, (int, float, bool))
        tl, tr = self.pytype(l), self.pytype(r)
        if conc:
            try:
                if isinstance(op, ast.Add):
                    return l + r
                if isinstance(op, ast.Sub):
                    return l - r
                if isinstance(op, ast.Mult):
                    return l * r
                if isinstance(op, ast.Div):
                    return l / r
                if isinstance(op, ast.FloorDiv):
                    return l // r
                if isinstance(op, ast.Mod):
                    return l % r
                if isinstance(op, ast.Pow):
                    v = l ** r
                    if isinstance(v, complex):
                        raise Unsupported("complex power")
                    return v
            except ZeroDivisionError:
                ip.raise_exc("ZeroDivisionError")
            except OverflowError:
                ip.raise_exc("OverflowError")
        a, b = num_term(l), num_term(r)
        both_int = z3.is_int(a) and z3.is_int(b)
        if isinstance(op, (ast.Add, ast.Sub, ast.Mult)):
            if not both_int:
                a, b = sym.to_real(a), sym.to_real(b)
            t = a + b if isinstance(op, ast.Add) else a - b if isinstance(op, ast.Sub) else a * b
            if both_int and tl in ("int", "bool") and tr in ("int", "bool"):
                return SInt(t)
            return SReal(sym.to_real(t), self.join_type(tl, tr))
        if isinstance(op, ast.Div):
            a, b = sym.to_real(a), sym.to_real(b)
            if tl in NUMERIC_PY and tr in NUMERIC_PY:
                # Python float division raises on a zero divisor (NumPy scalars give inf instead)
                if ip.path.branch(b == 0, "divisor == 0"):
                    ip.raise_exc("ZeroDivisionError")
            return SReal(a / b, self.join_type(tl, tr, div=True))
        if isinstance(op, ast.Pow):
            a, b = sym.to_real(a), sym.to_real(b)
            return SReal(self.pow_term(ip, a, b), self.join_type(tl, tr) if not both_int else "num")
        if isinstance(op, ast.FloorDiv) and both_int:
            if ip.path.branch(b == 0, "divisor == 0"):
                ip.raise_exc("ZeroDivisionError")
            return SInt(a / b)   # z3 Int division is floor division for positive divisors (checked)
        raise Unsupported(f"arithmetic operator {type(op).__name__}")

    # ------------------------------------------------------------------ arrays (1-D) ---------------------------
    def seq_len(self, v):
        if isinstance(v, SSeq):
            return v.n
        if isinstance(v, HeapList):
            raise Unsupported("len of heap list outside an interpreter context")
        if isinstance(v, SArr):
            if v.n is None:
                raise Unsupported("len of 2-D array")
            return v.n
        if isinstance(v, PList):
            return len(v.items)
        if isinstance(v, tuple):
            return len(v)
        raise Unsupported(f"length of {type(v).__name__}")

    def seq_get(self, v, k):
        if isinstance(v, SSeq):
            return v.get(k)
        if isinstance(v, SArr):
            kt = k if not isinstance(k, int) else z3.IntVal(k)
            self.env_fact(v, kt)
            return SReal(z3.Select(v.arr, kt), "npfloat")
        if isinstance(v, PList):
            if isinstance(k, int):
                return v.items[k]
            raise Unsupported("symbolic index into concrete list")
        if isinstance(v, tuple):
            return v[k]
        raise Unsupported(f"element of {type(v).__name__}")

    def env_fact(self, arr: SArr, kt) -> None:
        """x[IDX[name]] = ENV[name] for the point array x (definition of the environment denoted by x)."""
        if arr.envlink is None:
            return
        IDX, ENV, path = arr.envlink
        if z3.is_app(kt) and kt.decl().kind() == z3.Z3_OP_SELECT and kt.arg(0).eq(IDX):
            nm = kt.arg(1)
            key = f"envfact:{arr.arr}:{nm}"
            if key not in path.unfolded:
                path.unfolded.add(key)
                path.assume(z3.Select(arr.arr, kt) == z3.Select(ENV, nm))

    def inplace_update(self, ip, arr: SArr, new) -> None:
        """x op= y on an ndarray: contents of the same object become the element-wise result."""
        S = self.as_seq(new)
        fresh = sym.fresh("inplace", sym.RealArr)
        h = getattr(ip.reg, "define_array_hook", None)
        if h is None:
            raise Unsupported("in-place array operator")
        h(ip, fresh, self.len_term(S.n), lambda k: real_term(S.get(k)))
        arr.arr = fresh

    def as_seq(self, v) -> SSeq:
        if isinstance(v, SSeq):
            return v
        n = self.seq_len(v)
        return SSeq(n, lambda k, v=v: self.seq_get(v, k), "ndarray" if isinstance(v, SArr) else "list")

    def array_binary(self, ip, op, l, r, node=None):
        if isinstance(op, ast.MatMult):
            return self.matmul(ip, l, r, node)
        ls = isinstance(l, (SArr, SSeq))
        rs = isinstance(r, (SArr, SSeq))
        if ls and isinstance(l, SArr) and l.shape is not None or rs and isinstance(r, SArr) and r.shape is not None:
            return self.matrix_binary(ip, op, l, r, node)
        n = self.seq_len(l) if ls else self.seq_len(r)
        if ls and rs:
            # NumPy broadcasting of two 1-D arrays needs equal lengths (length-1 broadcasting is not modelled)
            n2 = self.seq_len(r)
            if isinstance(n, int) and isinstance(n2, int):
                if n != n2:
                    ip.raise_exc("ValueError", "operands could not be broadcast together")
            else:
                ip.path.oblige(ip.cur_oid("array lengths equal"), self.len_term(n) == self.len_term(n2), kind="pre")
        A = self.as_seq(l) if ls else None
        Bq = self.as_seq(r) if rs else None

        def elem(k):
            a = A.get(k) if A is not None else l
            b = Bq.get(k) if Bq is not None else r
            a = self.np_scalar(a)
            b = self.np_scalar(b)
            return self.arith(ip, op, a, b, node)
        return SSeq(n, elem, "ndarray", "elementwise")

    def np_scalar(self, v):
        """Elements taking part in NumPy arithmetic behave as NumPy scalars (no ZeroDivisionError)."""
        if isinstance(v, SReal) and v.pytype in ("float", "int", "num", "bool", "pynum"):
            return SReal(v.t, "npfloat")
        if isinstance(v, SInt):
            return SReal(sym.to_real(v.t), "npfloat")
        if isinstance(v, (int, float)) and not isinstance(v, bool):
            return SReal(sym.rv(v), "npfloat")
        return v

    def len_term(self, n):
        return z3.IntVal(n) if isinstance(n, int) else n

    def array_unary(self, ip, opname: str, v):
        S = self.as_seq(v)
        return SSeq(S.n, lambda k: self.unary_real(ip, opname, S.get(k)), "ndarray", opname)

    def unary_real(self, ip, opname: str, v):
        if isinstance(v, (SArr, SSeq)):
            if isinstance(v, SArr) and v.shape is not None:
                raise Unsupported("ufunc on 2-D array")
            return self.array_unary(ip, opname, v)
        if not self.isnum(v):
            raise Unsupported(f"ufunc {opname} on {type(v).__name__}")
        t = real_term(v)
        if opname == "neg":
            return SReal(-t, "npfloat")
        if opname == "abs":
            return SReal(sym.zabs(t), "npfloat")
        if opname == "sign":
            return SReal(z3.If(t > 0, sym.rv(1), z3.If(t < 0, sym.rv(-1), sym.rv(0))), "npfloat")
        res = sym.UF[opname](t)
        hook = getattr(ip.schema, "uf_hook", None)
        if hook is not None:
            hook(ip, opname, t, res)
        return SReal(res, "npfloat")

    # sums: PSUM(array, n) with unfolding instances supplied by pyvc.spec
    def sum_of(self, ip, v):
        S = self.as_seq(v)
        if isinstance(S.n, int):
            acc = sym.rv(0)
            for k in range(S.n):
                acc = acc + real_term(S.get(k))
            return SReal(acc, "npfloat")
        return SReal(ip.schema.psum_of_seq(ip, S), "npfloat")

    def dot(self, ip, a, b):
        A, Bq = self.as_seq(a), self.as_seq(b)
        n = A.n
        prod = SSeq(n, lambda k: SReal(real_term(A.get(k)) * real_term(Bq.get(k)), "npfloat"), "ndarray", "dot-terms")
        n2 = Bq.n
        if isinstance(n, int) and isinstance(n2, int):
            if n != n2:
                ip.raise_exc("ValueError", "shapes not aligned")
        else:
            ip.path.oblige(ip.cur_oid("dot operand lengths equal"), self.len_term(n) == self.len_term(n2), kind="pre")
        return self.sum_of(ip, prod)

    def matmul(self, ip, l, r, node=None):
        l2 = isinstance(l, SArr) and l.shape is not None
        r2 = isinstance(r, SArr) and r.shape is not None
        if not l2 and not r2:
            return self.dot(ip, l, r)
        if l2 and not r2:
            rows, cols = l.shape
            R_ = self.as_seq(r)
            return SSeq(rows, lambda i: self.sum_of(ip, SSeq(cols, lambda j: SReal(
                sym.msel(l.arr, self.len_term(i), self.len_term(j)) * real_term(R_.get(j)), "npfloat"), "ndarray", "row-terms")),
                "ndarray", "M@v")
        if r2 and not l2:
            rows, cols = r.shape
            L_ = self.as_seq(l)
            return SSeq(cols, lambda j: self.sum_of(ip, SSeq(rows, lambda i: SReal(
                real_term(L_.get(i)) * sym.msel(r.arr, self.len_term(i), self.len_term(j)), "npfloat"), "ndarray", "col-terms")),
                "ndarray", "v@M")
        raise Unsupported("matrix @ matrix")

    def matrix_binary(self, ip, op, l, r, node=None):
        l2 = isinstance(l, SArr) and l.shape is not None
        r2 = isinstance(r, SArr) and r.shape is not None
        shape = l.shape if l2 else r.shape
        out = sym.fresh("mat", sym.RealMat)
        res = SArr(out, shape=shape)
        res_lazy = (op, l, r)
        ip.schema.register_lazy_matrix(ip, res, res_lazy)
        return res

    # ------------------------------------------------------------------ containers: contains / getitem / setitem
    def contains(self, ip, container, item, node=None):
        if isinstance(container, SOpt):
            container = self.unopt(ip, container)
            if container is None:
                ip.raise_exc("TypeError", "argument of type 'NoneType' is not iterable")
        if isinstance(container, (tuple, PList)):
            items = container if isinstance(container, tuple) else container.items
            acc: Any = False
            for x in items:
                acc = self.bor(acc, self.equals(ip, item, x, node))
                if acc is True:
                    return True
            return acc
        if isinstance(container, PDict):
            if isinstance(item, SType):
                acc = False
                for k in container.items:
                    if isinstance(k, tuple) and k[0] == "class":
                        acc = self.bor(acc, self.type_equal(ip, item, ClassRef(k[1])))
                return acc
            if isinstance(item, SName):
                acc = False
                for k in container.items:
                    if isinstance(k, str):
                        acc = self.bor(acc, self.mkbool(item.t == sym.lit(k)))
                    elif isinstance(k, tuple) and k[0] == "name":
                        acc = self.bor(acc, self.mkbool(item.t == k[2].t))
                return acc
            if isinstance(item, str) and any(isinstance(k, tuple) and k and k[0] == "name" for k in container.items):
                acc = False
                for k in container.items:
                    if isinstance(k, str):
                        acc = self.bor(acc, item == k)
                    elif isinstance(k, tuple) and k[0] == "name":
                        acc = self.bor(acc, self.mkbool(sym.lit(item) == k[2].t))
                return acc
            return self.key(item) in container.items
        if isinstance(container, SMap):
            return self.mkbool(container.indom(self.name_term(item)))
        if isinstance(container, SDict):
            return self.mkbool(z3.Select(container.keys, self.name_term(item)))
        if isinstance(container, SSet):
            return self.mkbool(container.member(ip.schema.name_of(ip, item)))
        if isinstance(container, str):
            if isinstance(item, str):
                return item in container
            raise Unsupported("symbolic substring test")
        if isinstance(container, SStrOpaque):
            if isinstance(item, str):
                return SBool(ip.schema.str_contains(container, item))
            raise Unsupported("symbolic substring test")
        if isinstance(container, SpecFn) and container.meta.get("contains") is not None:
            return container.meta["contains"](ip, item)
        if isinstance(container, (Obj, Opaque)):
            return ip.call_method(container, "__contains__", [item], {}, node)
        raise Unsupported(f"`in` on {type(container).__name__}")

    def index_in_bounds(self, ip, k, n, what="index"):
        """Python list/array indexing with a possibly symbolic index: IndexError outside [-n, n)."""
        if isinstance(k, int) and isinstance(n, int):
            if -n <= k < n:
                return k if k >= 0 else k + n
            ip.raise_exc("IndexError", what)
        kt = num_term(k)
        nt = self.len_term(n)
        if ip.path.branch(z3.And(kt >= 0, kt < nt), f"{what} in range"):
            return kt
        if ip.path.branch(z3.And(kt < 0, kt >= -nt), f"{what} negative in range"):
            return kt + nt
        ip.raise_exc("IndexError", what)

    def getitem(self, ip, o, k, node=None):
        if isinstance(o, PList):
            if isinstance(k, slice):
                if all(x is None or isinstance(x, int) for x in (k.start, k.stop, k.step)):
                    return PList(o.items[k])
                raise Unsupported("symbolic slice of a list")
            if isinstance(k, int):
                if -len(o.items) <= k < len(o.items):
                    return o.items[k]
                ip.raise_exc("IndexError")
            if isinstance(k, (SInt, SReal)):
                raise Unsupported("symbolic index into a concrete-length list")
        if isinstance(o, tuple):
            if isinstance(k, (int, slice)):
                try:
                    return o[k]
                except IndexError:
                    ip.raise_exc("IndexError")
        if isinstance(o, str):
            if isinstance(k, (int, slice)):
                return o[k]
        if isinstance(o, SStrOpaque):
            return SStrOpaque((o, "[slice]"))
        if isinstance(o, PDict):
            kk = self.key(k)
            if kk in o.items:
                return o.items[kk]
            if isinstance(k, (SName, SType)):
                return self.symbolic_dict_lookup(ip, o, k, node)
            ip.raise_exc("KeyError", k)
        if isinstance(o, SMap):
            nm = self.name_term(k)
            if not ip.path.branch(o.indom(nm), f"key in {o.desc}"):
                ip.raise_exc("KeyError", k)
            return o.lookup(nm)
        if isinstance(o, SDict):
            nm = self.name_term(k)
            if not ip.path.branch(z3.Select(o.keys, nm), "key in dict"):
                ip.raise_exc("KeyError", k)
            return SReal(z3.Select(o.vals, nm), "float")
        if isinstance(o, SSeq):
            if isinstance(k, slice):
                return self.slice_seq(ip, o, k)
            if isinstance(k, (SSeq, SArr)):
                return self.gather(ip, o, k)
            idx = self.index_in_bounds(ip, k, o.n)
            return o.get(idx)
        if isinstance(o, SArr):
            return self.array_getitem(ip, o, k, node)
        if isinstance(o, SpecFn) and o.meta.get("getitem") is not None:
            return o.meta["getitem"](ip, k)
        raise Unsupported(f"subscript of {type(o).__name__} with {type(k).__name__}")

    def symbolic_dict_lookup(self, ip, d: PDict, k, node=None):
        for key, val in d.items.items():
            if isinstance(k, SName):
                if isinstance(key, str):
                    cond = k.t == sym.lit(key)
                elif isinstance(key, tuple) and key[0] == "name":
                    cond = k.t == key[2].t
                else:
                    continue
            else:
                if not (isinstance(key, tuple) and key[0] == "class"):
                    continue
                cond = ip.schema.kinds.is_kind(k.ref, key[1])
            if ip.path.branch(cond, f"key == {key if isinstance(key, str) else key[1]}"):
                return val
        ip.raise_exc("KeyError", k)

    def slice_seq(self, ip, o: SSeq, k: slice):
        if k.step is not None and k.step != 1:
            raise Unsupported("strided slice of symbolic sequence")
        lo = 0 if k.start is None else k.start
        if isinstance(o.n, int) and isinstance(lo, int) and (k.stop is None or isinstance(k.stop, int)):
            idxs = range(o.n)[k]
            return SSeq(len(idxs), lambda j, idxs=idxs: o.get(idxs[j] if isinstance(j, int) else None), o.kind, o.elem_desc)
        # general Python slice semantics with symbolic bounds (slice.indices for step 1)
        nt = self.len_term(o.n)

        def norm(i):
            it = num_term(i) if not isinstance(i, int) else z3.IntVal(i)
            return z3.If(it < 0, sym.zmax(it + nt, z3.IntVal(0)), sym.zmin(it, nt))
        a = norm(lo)
        b = nt if k.stop is None else norm(k.stop)
        newn = z3.simplify(z3.If(b >= a, b - a, z3.IntVal(0)))
        res = SSeq(newn, lambda j: o.get(z3.simplify(self.len_term(j) + a)), o.kind, o.elem_desc)
        return res

    def gather(self, ip, o, idx):
        O, Ix = self.as_seq(o), self.as_seq(idx)
        return SSeq(Ix.n, lambda j: O.get(num_term(Ix.get(j))), "ndarray", "gather")

    def array_getitem(self, ip, o: SArr, k, node=None):
        if o.shape is None:
            if isinstance(k, (SSeq, SArr)):
                return self.gather(ip, o, k)
            if isinstance(k, slice):
                return self.slice_seq(ip, self.as_seq(o), k)
            idx = self.index_in_bounds(ip, k, o.n)
            self.env_fact(o, self.len_term(idx))
            return SReal(z3.Select(o.arr, self.len_term(idx)), "npfloat")
        rows, cols = o.shape
        if isinstance(k, tuple) and len(k) == 2:
            i, j = k
            if isinstance(i, slice) or isinstance(j, slice):
                if isinstance(j, slice) and j == slice(None, None, None) and not isinstance(i, slice):
                    it = self.len_term(self.index_in_bounds(ip, i, rows))
                    return SSeq(cols, lambda c: SReal(sym.msel(o.arr, it, self.len_term(c)), "npfloat"), "ndarray", "row")
                if isinstance(i, slice) and i == slice(None, None, None) and not isinstance(j, slice):
                    jt = self.len_term(self.index_in_bounds(ip, j, cols))
                    return SSeq(rows, lambda r_: SReal(sym.msel(o.arr, self.len_term(r_), jt), "npfloat"), "ndarray", "col")
                raise Unsupported("general 2-D slicing")
            if isinstance(i, (SSeq, SArr)) or isinstance(j, (SSeq, SArr)):
                raise Unsupported("fancy 2-D indexing read")
            it = self.len_term(self.index_in_bounds(ip, i, rows))
            jt = self.len_term(self.index_in_bounds(ip, j, cols))
            return SReal(sym.msel(o.arr, it, jt), "npfloat")
        raise Unsupported("row indexing of 2-D array")

    def setitem(self, ip, o, k, v, node=None):
        if isinstance(o, PList) and isinstance(k, int):
            o.items[k] = v
            return
        if isinstance(o, PDict):
            o.items[self.key(k)] = v
            return
        if isinstance(o, SDict):
            nm = self.name_term(k)
            o.keys = z3.Store(o.keys, nm, z3.BoolVal(True))
            o.vals = z3.Store(o.vals, nm, real_term(v))
            return
        if isinstance(o, SArr):
            if o.shape is None:
                if isinstance(k, (SSeq, SArr)):
                    return ip.schema.scatter_assign(ip, o, k, v, node)
                idx = self.len_term(self.index_in_bounds(ip, k, o.n))
                o.arr = z3.Store(o.arr, idx, real_term(v))
                return
            if isinstance(k, tuple) and len(k) == 2:
                i, j = k
                if isinstance(i, (SSeq, SArr)) or isinstance(j, (SSeq, SArr)):
                    return ip.schema.scatter_assign2(ip, o, i, j, v, node)
                it = self.len_term(self.index_in_bounds(ip, i, o.shape[0]))
                jt = self.len_term(self.index_in_bounds(ip, j, o.shape[1]))
                o.arr = sym.mstore(o.arr, it, jt, real_term(v))
                return
        if isinstance(o, SpecFn) and o.meta.get("setitem") is not None:
            return o.meta["setitem"](ip, k, v)
        raise Unsupported(f"item assignment on {type(o).__name__}")

    # ------------------------------------------------------------------ comprehensions
    def comprehension(self, ip, e, fr, kind: str):
        from .interp import Frame
        gens = e.generators
        if any(g.is_async for g in gens):
            raise Unsupported("async comprehension")
        # concrete expansion where every iterable has a concrete length
        def expand(gi: int, frame) -> list | None:
            if gi == len(gens):
                return [ip.ev(e.elt, frame)]
            g = gens[gi]
            it = ip.ev(g.iter, frame)
            items = ip.concrete_iter(it)
            if items is None:
                return None
            out = []
            for x in items:
                f2 = Frame(frame.module, {}, frame, frame.finfo)
                ip.assign_target(g.target, x, f2)
                if all(ip.truth(ip.ev(c, f2), ip.src_text(c)) for c in g.ifs):
                    sub = expand(gi + 1, f2)
                    if sub is None:
                        return None
                    out.extend(sub)
            return out
        first = ip.ev(gens[0].iter, fr)
        first_items = ip.concrete_iter(first)
        if first_items is not None:
            cframe = Frame(fr.module, {}, fr, fr.finfo)
            # re-evaluate through expand (first iterable evaluated twice is harmless: pure)
            res = expand(0, cframe)
            if res is not None:
                return PList(res)
            # concrete outer iterables, symbolic innermost one: one lazily evaluated sequence per outer combination
            if len(gens) == 2 and not gens[0].ifs and not gens[1].ifs:
                parts = []
                for x in first_items:
                    f2 = Frame(fr.module, {}, fr, fr.finfo)
                    ip.assign_target(gens[0].target, x, f2)
                    inner = ast.ListComp(elt=e.elt, generators=[gens[1]])
                    ast.copy_location(inner, e)
                    parts.append(self.comprehension(ip, inner, f2, "list"))
                return SpecFn(None, "concatenated sequences", meta={"concat": parts})
            raise Unsupported("nested comprehension with symbolic inner length")
        # symbolic length: the comprehension rule (pointwise, no unrolling)
        if len(gens) != 1:
            return ip.schema.nested_symbolic_comprehension(ip, e, fr, kind, first)
        g = gens[0]
        if g.ifs:
            return ip.schema.filtered_comprehension(ip, e, fr, first)
        S = self.as_seq_iter(ip, first)
        # a comprehension is evaluated where it stands: the lazily evaluated element must see the bindings of *now*, not
        # those a later statement (e.g. the next iteration of an enclosing loop) gives to the same names
        fr = self.snapshot_frame(fr)

        def elem(k):
            kt = k if not isinstance(k, int) else z3.IntVal(k)
            ip.reg.index_used(ip, kt)
            f2 = Frame(fr.module, {}, fr, fr.finfo)
            inr = z3.And(kt >= 0, kt < self.len_term(S.n))
            guarded = not ip.path.entails(inr)
            if guarded:
                ip.path.guards.append(inr)
            try:
                ip.assign_target(g.target, S.get(k), f2)
                return ip.ev(e.elt, f2)
            finally:
                if guarded:
                    ip.path.guards.pop()
        return SSeq(S.n, elem, "list", "comprehension@%d" % e.lineno)

    def snapshot_frame(self, fr):
        from .interp import Frame
        chain = []
        f = fr
        while f is not None:
            chain.append(f)
            f = f.parent
        new_parent = None
        for f in reversed(chain):
            g = Frame(f.module, dict(f.locals), new_parent, f.finfo)
            g.nonlocals = set(f.nonlocals)
            g.cls = f.cls
            new_parent = g
        return new_parent

    def as_seq_iter(self, ip, it) -> SSeq:
        """Iterable -> sequence view (enumerate/zip/range handled pointwise)."""
        if isinstance(it, HeapList):
            return ip.schema.hl_snapshot(ip, it)
        if isinstance(it, (SSeq, SArr)):
            return self.as_seq(it)
        if isinstance(it, (Obj, Opaque)):
            r = ip.call_method(it, "__iter__", [], {}, None)
            return self.as_seq_iter(ip, r)
        if isinstance(it, SpecFn) and it.meta.get("iterable") is not None:
            return self.as_seq_iter(ip, it.meta["iterable"])
        if isinstance(it, PList):
            return self.as_seq(it)
        raise Unsupported(f"symbolic iteration over {type(it).__name__}")

    def dict_comprehension(self, ip, e, fr):
        from .interp import Frame
        if len(e.generators) != 1 or e.generators[0].ifs:
            raise Unsupported("dict comprehension shape")
        g = e.generators[0]
        it = ip.ev(g.iter, fr)
        items = ip.concrete_iter(it)
        if items is not None:
            d = PDict()
            for x in items:
                f2 = Frame(fr.module, {}, fr, fr.finfo)
                ip.assign_target(g.target, x, f2)
                d.items[self.key(ip.ev(e.key, f2))] = ip.ev(e.value, f2)
            return d
        S = self.as_seq_iter(ip, it)
        fr = self.snapshot_frame(fr)
        h = getattr(ip.reg, "keyed_map_hook", None)
        if h is not None:
            def at(k, what):
                kt = k if not isinstance(k, int) else z3.IntVal(k)
                f2 = Frame(fr.module, {}, fr, fr.finfo)
                inr = z3.And(kt >= 0, kt < self.len_term(S.n))
                guarded = not ip.path.entails(inr)
                if guarded:
                    ip.path.guards.append(inr)
                try:
                    ip.assign_target(g.target, S.get(kt), f2)
                    return ip.ev(what, f2)
                finally:
                    if guarded:
                        ip.path.guards.pop()
            pk = sym.fresh("probe", sym.I)
            probe = at(pk, e.key)
            if isinstance(probe, (Obj, Opaque)) and probe.cls == "Variable":
                # keys must be pairwise distinct for the position-function model: accepted when key k is element k of a
                # vector's `_variables` list (A6)
                r_ = getattr(probe, "ref", None)
                distinct = (r_ is not None and z3.is_app(r_) and r_.decl().name() == "ELEM__variables" and r_.num_args() == 2
                            and z3.simplify(r_.arg(1) == pk).eq(z3.BoolVal(True)))
                if not distinct:
                    raise Unsupported("dict keyed by Variables whose keys are not known to be pairwise distinct")
                # key and value are evaluated once, at the placeholder position pk (under its range guard); the key / value
                # at another position is obtained by substituting the position term
                kterm = self.name_term(probe)
                vprobe = at(pk, e.value)

                def key_at(k):
                    kt = k if not isinstance(k, int) else z3.IntVal(k)
                    return z3.substitute(kterm, (pk, kt))

                def val_at(k):
                    kt = k if not isinstance(k, int) else z3.IntVal(k)
                    v = self.subst_value(vprobe, pk, kt)
                    self.relearn_elements(ip, v)
                    return v
                return h(ip, S, key_at, val_at, "dict@%d" % e.lineno)
        return ip.schema.symbolic_dict_comprehension(ip, e, fr, S)

    def make_set(self, ip, items):
        return ip.schema.make_set(ip, items)

    def relearn_elements(self, ip, v, depth=0):
        """Values produced by substitution did not pass through the sequence getters: re-state the class invariant of vector
        elements (ELEM__variables(vec, k) is a Variable for k in range) and let the unfolder know their class."""
        if depth > 6:
            return
        if isinstance(v, Obj):
            for x in v.fields.values():
                self.relearn_elements(ip, x, depth + 1)
        elif isinstance(v, tuple):
            for x in v:
                self.relearn_elements(ip, x, depth + 1)
        elif isinstance(v, Opaque) and z3.is_app(v.ref) and v.ref.decl().name() == "ELEM__variables" and v.ref.num_args() == 2:
            vec, kt = v.ref.arg(0), v.ref.arg(1)
            n = sym.fn("LEN__variables", sym.Ref, sym.I)(vec)
            inr = z3.And(kt >= 0, kt < n)
            ip.path.assume(z3.Implies(inr, ip.schema.kinds.is_kind(v.ref, "Variable")))
            if ip.path.entails(inr):
                ip.schema.learn_kind(ip, v.ref, "Variable")

    def subst_value(self, v, old, new):
        """Copy of an engine value with the z3 term `old` replaced by `new` everywhere (allocated objects are re-allocated)."""
        sub = lambda t: z3.substitute(t, (old, new))
        if isinstance(v, (int, float, str, bool)) or v is None:
            return v
        if isinstance(v, SReal):
            return SReal(sub(v.t), v.pytype)
        if isinstance(v, SInt):
            return SInt(sub(v.t))
        if isinstance(v, SBool):
            return SBool(sub(v.t))
        if isinstance(v, SName):
            return SName(sub(v.t))
        if isinstance(v, Opaque):
            return Opaque(sub(v.ref), v.cls, {k_: self.subst_value(x, old, new) for k_, x in v.known.items()}, v.exact)
        if isinstance(v, Obj):
            if v.ref is not None:
                raise Unsupported("substitution into an object that was already given a reference")
            return Obj(v.cls, {k_: self.subst_value(x, old, new) for k_, x in v.fields.items()})
        if isinstance(v, SOpt):
            return SOpt(sub(v.isnone), self.subst_value(v.val, old, new))
        if isinstance(v, tuple):
            return tuple(self.subst_value(x, old, new) for x in v)
        raise Unsupported(f"positional substitution into {type(v).__name__}")

    # ------------------------------------------------------------------ attributes of engine values
    def getattr(self, ip, o, attr, node=None):
        if isinstance(o, (HeapList, GList)):
            return BoundBuiltin(o, attr)
        if isinstance(o, (PList, PDict, SArr, SSeq, SSet, SMap, str, SStrOpaque, tuple, SName)) or isinstance(o, (int, float, SReal, SInt)):
            if isinstance(o, SArr):
                if attr == "shape":
                    return (o.n,) if o.shape is None else tuple(SInt(x) if not isinstance(x, int) else x for x in o.shape)
                if attr == "ndim":
                    return 1 if o.shape is None else 2
                if attr == "T":
                    return ip.schema.transpose(ip, o)
                if attr == "size":
                    return o.n if o.shape is None else None
            if isinstance(o, SSeq) and o.kind == "ndarray":
                if attr == "ndim":
                    return 1
                if attr == "shape":
                    return (o.n if isinstance(o.n, int) else SInt(o.n),)
            return BoundBuiltin(o, attr)
        if isinstance(o, SpecFn) and attr in o.meta.get("attrs", {}):
            return o.meta["attrs"][attr]
        if isinstance(o, SpecFn):
            return BoundBuiltin(o, attr)
        if isinstance(o, SOpt):
            raise Unsupported(f"attribute {attr} of Optional value (test `is None` first)")
        if isinstance(o, SType):
            if attr == "__name__":
                return SStrOpaque(("typename", o))
        if isinstance(o, Closure) or isinstance(o, FuncRef):
            if attr == "__name__":
                return o.qualname.split(".")[-1] if isinstance(o, Closure) else o.finfo.name
        raise Unsupported(f"attribute {attr} of {type(o).__name__}")

    def hasattr(self, ip, o, attr):
        if isinstance(o, SpecFn):
            return attr in o.meta.get("attrs", {})
        if isinstance(o, (PList, PDict, SArr, SSeq)):
            return attr in ("__len__", "__iter__")
        raise Unsupported(f"hasattr on {type(o).__name__}")

    def object_default(self, ip, o, name, args):
        if name == "__eq__":
            return self.identical(ip, o, args[0])
        if name == "__ne__":
            return self.bnot(self.identical(ip, o, args[0]))
        raise Unsupported(f"default {name}")

    # ------------------------------------------------------------------ with
    def exec_with(self, ip, st, fr):
        from .interp import RaiseEx, _Return, _Break, _Continue
        if len(st.items) != 1:
            raise Unsupported("multi-item with")
        item = st.items[0]
        cm = ip.ev(item.context_expr, fr)
        if isinstance(cm, SpecFn) and cm.meta.get("cm") is not None:
            fi, gfr = cm.meta["cm"]
            return ip.schema.run_contextmanager(ip, fi, gfr, st, fr)
        raise Unsupported(f"with over {cm!r}")

    # ------------------------------------------------------------------ builtin calls
    def call_builtin(self, ip, name: str, args, kwargs, node=None, fr=None):
        name = norm_np(name)
        if name.startswith("numpy.") and kwargs.get("out") is not None:
            # NumPy's out= argument: the result is written INTO the given array object (every holder of that object sees it)
            out = kwargs["out"]
            rest = {k: v for k, v in kwargs.items() if k != "out"}
            if not isinstance(out, SArr) or out.shape is not None:
                raise Unsupported(f"{name}(..., out=<{type(out).__name__}>)")
            res = self.call_builtin(ip, name, args, rest, node, fr)
            self.inplace_update(ip, out, res)
            return out
        if name.startswith("numpy."):
            # keyword arguments change what a NumPy call means: only the ones the model table interprets are let through
            allowed = {"dtype", "nan", "posinf", "neginf", "copy", "atol", "rtol", "ord", "k", "a_min", "a_max", "start", "stop", "count"}
            extra = [k for k in kwargs if k not in allowed]
            if extra:
                raise Unsupported(f"{name} with keyword(s) {sorted(extra)} (not interpreted by the NumPy model table)")
        h = getattr(self, "b_" + name.replace(".", "_"), None)
        if h is not None:
            return h(ip, args, kwargs, node)
        if name in NP_UFUNCS:
            return self.unary_real(ip, NP_UFUNCS[name], args[0])
        if name in NP_BINARY:
            return self.arith(ip, NP_BINARY[name](), self.np_arg(args[0]), self.np_arg(args[1]), node)
        ext = ip.reg.external(name)
        if ext is not None:
            return ext(ip, args, kwargs, node)
        raise Unsupported(f"no model for builtin/external {name}")

    def np_arg(self, v):
        return self.np_scalar(v) if self.isnum(v) else v

    def ufunc_value(self, name: str):
        """np.sin etc. used as a value (stored in _OPS tables)."""
        return BuiltinRef(norm_np(name))

    # ---- python builtins
    def b_len(self, ip, a, kw, node):
        v = a[0]
        if isinstance(v, HeapList):
            return SInt(ip.schema.hl_len(ip, v))
        if isinstance(v, (Obj, Opaque)):
            return ip.call_method(v, "__len__", [], {}, node)
        if isinstance(v, PDict):
            return len(v.items)
        if isinstance(v, str):
            return len(v)
        if isinstance(v, SpecFn) and v.meta.get("len") is not None:
            return v.meta["len"]
        n = self.seq_len(v)
        return n if isinstance(n, int) else SInt(n)

    def b_isinstance(self, ip, a, kw, node):
        return ip.schema.isinstance(ip, a[0], a[1])

    def b_hasattr(self, ip, a, kw, node):
        return ip.hasattr(a[0], a[1])

    def b_getattr(self, ip, a, kw, node):
        from .interp import RaiseEx
        if len(a) == 2:
            return ip.getattr(a[0], a[1], node)
        try:
            return ip.getattr(a[0], a[1], node)
        except RaiseEx as r:
            if r.exc.cls == "AttributeError":
                return a[2]
            raise

    def b_float(self, ip, a, kw, node):
        v = a[0]
        if isinstance(v, (int, float)):
            return float(v)
        if isinstance(v, SReal):
            return SReal(v.t, "float")
        if isinstance(v, SInt):
            return SReal(sym.to_real(v.t), "float")
        if isinstance(v, SOpt):
            if ip.path.branch(v.isnone, "float(None)?"):
                ip.raise_exc("TypeError", "float() argument must be a number, not NoneType")
            return self.b_float(ip, [v.val], kw, node)
        if v is None:
            ip.raise_exc("TypeError", "float(None)")
        if isinstance(v, (SSeq, SArr)):
            n = self.seq_len(v) if not (isinstance(v, SArr) and v.shape is not None) else None
            if n == 1:
                return SReal(real_term(self.seq_get(v, 0)), "float")
            raise Unsupported("float() of array")
        if isinstance(v, (str, SName, SStrOpaque)):
            raise Unsupported("float(str)")
        if isinstance(v, (Obj, Opaque)):
            ip.raise_exc("TypeError", "float() argument must be a string or a real number")
        raise Unsupported(f"float({type(v).__name__})")

    def b_int(self, ip, a, kw, node):
        v = a[0]
        if isinstance(v, (int, float)):
            return int(v)
        if isinstance(v, SInt):
            return v
        if isinstance(v, SReal):
            t = v.t
            fl = z3.ToInt(t)
            tr = z3.If(t >= 0, fl, -z3.ToInt(-t))
            return SInt(tr)
        raise Unsupported(f"int({type(v).__name__})")

    def b_bool(self, ip, a, kw, node):
        return ip.truth(a[0])

    def b_abs(self, ip, a, kw, node):
        v = a[0]
        if isinstance(v, (int, float)):
            return abs(v)
        if isinstance(v, SInt):
            return SInt(sym.zabs(v.t))
        if isinstance(v, SReal):
            return SReal(sym.zabs(v.t), v.pytype)
        if isinstance(v, (Obj, Opaque)):
            return ip.call_method(v, "__abs__", [], {}, node)
        raise Unsupported("abs")

    def _minmax(self, ip, a, kw, node, ismax: bool):
        items = a if len(a) > 1 else ip.concrete_iter(a[0])
        if items is None:
            h = getattr(ip.reg, "minmax_hook", None)
            if h is None or "key" in kw or "default" in kw:
                raise Unsupported("max/min over symbolic-length iterable")
            S = self.as_seq_iter(ip, a[0])
            if ip.path.branch(self.len_term(S.n) <= 0, "max()/min() of an empty sequence"):
                ip.raise_exc("ValueError", "max() arg is an empty sequence")
            return h(ip, S, ismax)
        if "key" in kw:
            raise Unsupported("max/min with key")
        items = [self.unopt(ip, x) for x in items]
        if any(x is None for x in items):
            ip.raise_exc("TypeError", "max/min with None")
        acc = items[0]
        for x in items[1:]:
            if isinstance(acc, (int, float)) and isinstance(x, (int, float)):
                acc = max(acc, x) if ismax else min(acc, x)
                continue
            at, xt = num_term(acc), num_term(x)
            if z3.is_int(at) and z3.is_int(xt):
                acc = SInt(sym.zmax(at, xt) if ismax else sym.zmin(at, xt))
            else:
                at, xt = sym.to_real(at), sym.to_real(xt)
                # Python max/min return the first argument on ties: same number, so the term is unaffected
                acc = SReal(sym.zmax(at, xt) if ismax else sym.zmin(at, xt), self.join_type(self.pytype(acc), self.pytype(x)))
        return acc

    def b_max(self, ip, a, kw, node):
        return self._minmax(ip, a, kw, node, True)

    def b_min(self, ip, a, kw, node):
        return self._minmax(ip, a, kw, node, False)

    def b_sum(self, ip, a, kw, node):
        it = a[0]
        items = ip.concrete_iter(it) if not isinstance(it, SSeq) or isinstance(it.n, int) else None
        if items is not None:
            acc: Any = a[1] if len(a) > 1 else 0
            for x in items:
                acc = ip.binop(ast.Add(), acc, x, node)
            return acc
        S = self.as_seq_iter(ip, it)
        r = self.sum_of(ip, S)
        return r

    def b_list(self, ip, a, kw, node):
        if not a:
            return PList()
        items = ip.concrete_iter(a[0]) if not (isinstance(a[0], SSeq) and not isinstance(a[0].n, int)) else None
        if items is not None:
            return PList(items)
        S = self.as_seq_iter(ip, a[0])
        return SSeq(S.n, S.get, "list", S.elem_desc, tag=(S.tag if S.tag and S.tag[0] == "field" else None))

    def b_tuple(self, ip, a, kw, node):
        if not a:
            return ()
        if isinstance(a[0], SpecFn) and a[0].meta.get("as_dict") is not None:
            return a[0]        # tuple(d.items()) of a symbolic map: only dict(...) of it is supported
        items = ip.concrete_iter(a[0]) if not (isinstance(a[0], SSeq) and not isinstance(a[0].n, int)) else None
        if items is not None:
            return tuple(items)
        S = self.as_seq_iter(ip, a[0])
        return SSeq(S.n, S.get, "tuple", S.elem_desc)

    def b_dict(self, ip, a, kw, node):
        if not a:
            return PDict({self.key(k): v for k, v in kw.items()})
        if isinstance(a[0], PDict):
            return PDict(dict(a[0].items))
        if isinstance(a[0], SpecFn) and a[0].meta.get("as_dict") is not None:
            return a[0].meta["as_dict"](ip)
        items = ip.concrete_iter(a[0])
        if items is None:
            raise Unsupported("dict() of symbolic-length iterable")
        d = PDict()
        for kv in items:
            k, v = kv
            d.items[self.key(k)] = v
        return d

    def b_set(self, ip, a, kw, node):
        if not a:
            return ip.schema.make_set(ip, [])
        return ip.schema.make_set(ip, a[0])

    def b_frozenset(self, ip, a, kw, node):
        return self.b_set(ip, a, kw, node)

    def b_enumerate(self, ip, a, kw, node):
        it = a[0]
        start = a[1] if len(a) > 1 else kw.get("start", 0)
        items = ip.concrete_iter(it) if not (isinstance(it, SSeq) and not isinstance(it.n, int)) else None
        if items is not None:
            return PList([(i + start, x) for i, x in enumerate(items)])
        S = self.as_seq_iter(ip, it)
        return SSeq(S.n, lambda k: ((SInt(self.len_term(k) + start) if not isinstance(k, int) else k + start), S.get(k)),
                    "list", "enumerate")

    def b_zip(self, ip, a, kw, node):
        conc = [ip.concrete_iter(x) if not (isinstance(x, SSeq) and not isinstance(x.n, int)) else None for x in a]
        if all(c is not None for c in conc):
            return PList([tuple(t) for t in zip(*conc)])
        seqs = [self.as_seq_iter(ip, x) for x in a]
        return ip.schema.zip_symbolic(ip, seqs, node)

    def b_range(self, ip, a, kw, node):
        if all(isinstance(x, int) for x in a):
            return PList(list(range(*a)))
        if len(a) == 1:
            n = num_term(a[0])
            n = z3.If(n >= 0, n, z3.IntVal(0))
            return SSeq(n, lambda k: k if isinstance(k, int) else SInt(k), "list", "range")
        if len(a) == 2:
            lo, hi = num_term(a[0]), num_term(a[1])
            n = z3.If(hi >= lo, hi - lo, z3.IntVal(0))
            return SSeq(n, lambda k: SInt(lo + self.len_term(k)), "list", "range")
        raise Unsupported("range with step")

    def b_sorted(self, ip, a, kw, node):
        return ip.schema.sorted_model(ip, a[0], kw.get("key"), node)

    def b_id(self, ip, a, kw, node):
        v = a[0]
        if isinstance(v, Obj):
            return ("id", "obj", v.oid)
        if isinstance(v, Opaque):
            # identity of a pre-existing object: keyed by its reference term (two syntactically different reference
            # terms are treated as different objects; aliasing of children -- x*x with one shared node -- is the
            # case the bounded stand-in covers)
            return ("id", "ref", str(v.ref))
        raise Unsupported("id()")

    def b_type(self, ip, a, kw, node):
        v = a[0]
        if isinstance(v, Obj):
            return ClassRef(v.cls)
        if isinstance(v, Opaque):
            ex = ip.exact_class(v)
            return ClassRef(ex) if ex else SType(v.ref, v.cls)
        if v is None:
            return ClassRef("NoneType")
        if isinstance(v, bool):
            return ClassRef("bool")
        if isinstance(v, int):
            return ClassRef("int")
        if isinstance(v, (float,)):
            return ClassRef("float")
        if isinstance(v, str):
            return ClassRef("str")
        if isinstance(v, (SReal, SInt)):
            return ClassRef(self.pytype(v))
        return ClassRef(type(v).__name__)

    def b_repr(self, ip, a, kw, node):
        return SStrOpaque(("repr", a[0]))

    def b_str(self, ip, a, kw, node):
        if isinstance(a[0], str):
            return a[0]
        return SStrOpaque(("str", a[0]))

    def b_iter(self, ip, a, kw, node):
        return SpecFn(None, "iterator", meta={"iterable": a[0]})

    def b_any(self, ip, a, kw, node):
        it = a[0]
        if isinstance(it, SSeq) and not isinstance(it.n, int):
            h = getattr(ip.reg, "any_hook", None)
            if h is None:
                raise Unsupported("any() over symbolic-length iterable")
            return h(ip, it, node)
        items = ip.concrete_iter(a[0])
        if items is None:
            raise Unsupported("any() over symbolic-length iterable")
        for x in items:
            if ip.truth(x):
                return True
        return False

    def b_all(self, ip, a, kw, node):
        it = a[0]
        if isinstance(it, SpecFn) and it.meta.get("concat") is not None:
            acc = True
            for part in it.meta["concat"]:
                r = self.b_all(ip, [part], kw, node)
                acc = self.band(acc, r)
                if acc is False:
                    return False
            return acc
        if isinstance(it, SSeq) and not isinstance(it.n, int):
            return ip.schema.all_symbolic(ip, it, node)
        items = ip.concrete_iter(it)
        for x in items:
            if not ip.truth(x):
                return False
        return True

    def b_hash(self, ip, a, kw, node):
        v = a[0]
        if isinstance(v, (Obj, Opaque)):
            return ip.call_method(v, "__hash__", [], {}, node)
        return SpecFn(None, "hash", meta={"hash_of": v})

    def b_print(self, ip, a, kw, node):
        return None

    def b_callable(self, ip, a, kw, node):
        return isinstance(a[0], (Closure, SpecFn, FuncRef, BoundMethod, BuiltinRef, ClassRef))

    def b_object___new__(self, ip, a, kw, node):
        cls = a[0]
        if isinstance(cls, ClassRef):
            return Obj(cls.name)
        raise Unsupported("object.__new__ of symbolic class")

    def b_typing_cast(self, ip, a, kw, node):
        return a[1]

    def b_dataclasses_field(self, ip, a, kw, node):
        if "default_factory" in kw:
            return SpecFn(None, "field", meta={"default_factory": kw["default_factory"]})
        return kw.get("default")

    def b_re_compile(self, ip, a, kw, node):
        return SpecFn(None, "regex", meta={"pattern": a[0]})

    def b_time_perf_counter(self, ip, a, kw, node):
        return SReal(sym.fresh("clock", sym.R), "float")

    # ---- numpy
    def _array_of_tuples(self, ip, v):
        """np.asarray / np.array of a symbolic-length list of k-tuples: an n x k array of which only the transpose (a list of k
        column arrays), ndim and shape are modelled; None / Optional components (NaN after conversion) are out of reach."""
        # (elements are computed lazily and may carry obligations, so they are never probed: the creator of the sequence
        # declares the arity of its elements in `elem_tuple`)
        m = getattr(v, "elem_tuple", None) if isinstance(v, SSeq) else None
        if m is None:
            return None
        def comp(k, j):
            x = v.get(k)[j]
            if x is None or isinstance(x, SOpt):
                raise Unsupported("array of tuples with optional components")
            return x
        cols = PList([SSeq(v.n, (lambda k, j=j: comp(k, j)), "ndarray", "column") for j in range(m)])
        n_ = v.n if isinstance(v.n, int) else SInt(v.n)
        return SpecFn(None, "array of tuples", meta={"attrs": {"T": cols, "ndim": 2, "shape": (n_, m)}})

    def b_numpy_asarray(self, ip, a, kw, node):
        v = a[0]
        t_ = self._array_of_tuples(ip, v)
        if t_ is not None:
            return t_
        if isinstance(v, (SArr, SSeq)):
            return v if isinstance(v, SArr) else SSeq(v.n, v.get, "ndarray", v.elem_desc, v.tag)
        if isinstance(v, PList):
            return SSeq(len(v.items), lambda k: v.items[k], "ndarray", "asarray")
        if self.isnum(v):
            return self.np_scalar(v)
        raise Unsupported(f"np.asarray({type(v).__name__})")

    def b_numpy_array(self, ip, a, kw, node):
        v = a[0]
        if isinstance(v, PList) and v.items and all(isinstance(x, (PList, SSeq)) for x in v.items):
            return ip.schema.matrix_from_rows(ip, v.items)
        if isinstance(v, (SArr,)):
            return SArr(v.arr, v.n, v.shape)
        t_ = self._array_of_tuples(ip, v)
        if t_ is not None:
            return t_
        if isinstance(v, SSeq) and v.elem_rowlen is not None:
            # np.array(list of m rows of equal length): an m x rowlen matrix whose row p is element p of the list (the link is
            # instantiated by `matrix_row`, at the positions a contract talks about)
            M = sym.fresh("rowsmatrix", sym.RealMat)
            ip.path.ghost.setdefault("matrix_rows", {})[str(M)] = v
            return SArr(M, shape=(self.len_term(v.n), v.elem_rowlen))
        if isinstance(v, (SSeq, PList)):
            S = self.as_seq(v)
            def el(k):
                v_ = S.get(k)
                if isinstance(v_, (SInt, int)) and not isinstance(v_, bool):
                    return v_           # integer dtype (index arrays)
                return self.np_scalar(v_) if self.isnum(v_) else v_
            return SSeq(S.n, el, "ndarray", "np.array")
        raise Unsupported(f"np.array({type(v).__name__})")

    def matrix_row(self, ip, A, p):
        """Row p of a matrix built by np.array(list of rows): the array term, linked to element p of the source list."""
        src_ = ip.path.ghost.get("matrix_rows", {}).get(str(A.arr))
        row = z3.Select(A.arr, p)
        if src_ is not None:
            el = src_.get(p)
            if isinstance(el, SArr):
                ip.path.assume(z3.Implies(z3.And(p >= 0, p < self.len_term(src_.n)), row == el.arr))
        return row

    def b_numpy_zeros(self, ip, a, kw, node):
        return self._filled(ip, a[0], sym.rv(0))

    def b_numpy_ones(self, ip, a, kw, node):
        return self._filled(ip, a[0], sym.rv(1))

    def b_numpy_full(self, ip, a, kw, node):
        return self._filled(ip, a[0], real_term(a[1]))

    def _filled(self, ip, shape, val):
        if isinstance(shape, tuple):
            if len(shape) == 2:
                s0, s1 = (x if isinstance(x, int) else num_term(x) for x in shape)
                return SArr(z3.K(sym.I, z3.K(sym.I, val)) if False else self._const_mat(val), shape=(s0, s1))
            shape = shape[0]
        n = shape if isinstance(shape, int) else num_term(shape)
        return SArr(z3.K(sym.I, val), n=n)

    def _const_mat(self, val):
        m = sym.fresh("cmat", sym.RealMat)
        # a constant matrix: pointwise facts are added on demand by schema.mat_select
        self._const_mats = getattr(self, "_const_mats", {})
        self._const_mats[str(m)] = val
        return m

    def b_numpy_dot(self, ip, a, kw, node):
        return self.dot(ip, a[0], a[1])

    def b_numpy_sum_real(self, ip, a, kw, node):
        return self.sum_of(ip, a[0])

    def b_numpy_fromiter(self, ip, a, kw, node):
        S = self.as_seq_iter(ip, a[0])
        if kw.get("count") is not None:
            # count = number of items to read: the model covers the usual case count == len(iterable) only
            if not ip.path.entails(sym.to_real(num_term(kw["count"])) == sym.to_real(self.len_term(S.n))):
                raise Unsupported("np.fromiter with a count that is not the length of the iterable")
        return SSeq(S.n, lambda k: self.np_scalar(S.get(k)) if self.isnum(S.get(k)) else S.get(k), "ndarray", "fromiter")

    def b_numpy_linalg_norm(self, ip, a, kw, node):
        S = self.as_seq(a[0])
        sq = SSeq(S.n, lambda k: SReal(real_term(S.get(k)) * real_term(S.get(k)), "npfloat"), "ndarray", "squares")
        return SReal(sym.UF["sqrt"](real_term(self.sum_of(ip, sq))), "npfloat")

    def b_numpy_arange(self, ip, a, kw, node):
        n = a[0]
        return SSeq(n if isinstance(n, int) else num_term(n), lambda k: k if isinstance(k, int) else SInt(k), "ndarray", "arange")

    def b_numpy_allclose(self, ip, a, kw, node):
        """np.allclose(a, b): True whenever the arrays are equal entry by entry; for arrays that differ the answer depends on the
        tolerances and magnitudes and is left open (a fresh Boolean)."""
        eq = ip.schema.array_equal(ip, self.as_seq(a[0]), self.as_seq(a[1]))
        r = sym.fresh("allclose", sym.B)
        et = eq.t if isinstance(eq, SBool) else z3.BoolVal(bool(eq))
        ip.path.assume(z3.Implies(et, r))
        return SBool(r)

    def b_numpy_array_equal(self, ip, a, kw, node):
        return ip.schema.array_equal(ip, self.as_seq(a[0]), self.as_seq(a[1]))

    def b_numpy_isfinite(self, ip, a, kw, node):
        return ip.schema.isfinite(ip, a[0])

    def b_numpy_all(self, ip, a, kw, node):
        return ip.schema.np_all(ip, a[0])

    def _xhook(self, ip, name, a, kw):
        h = getattr(ip.reg, "xarr_hooks", {}).get(name)
        if h is None:
            raise Unsupported(f"no model for builtin/external numpy.{name}")
        return h(ip, a, kw)

    def b_numpy_size(self, ip, a, kw, node):
        if isinstance(a[0], (SArr, SSeq)) and len(a) == 1:
            v = a[0]
            if isinstance(v, SArr) and v.shape is not None:
                return SInt(self.len_term(v.shape[0]) * self.len_term(v.shape[1]))
            n = v.n
            return n if isinstance(n, int) else SInt(n)
        return self._xhook(ip, "size", a, kw)

    def b_numpy_max(self, ip, a, kw, node):
        return self._xhook(ip, "max", a, kw)

    def b_numpy_min(self, ip, a, kw, node):
        return self._xhook(ip, "min", a, kw)

    def b_numpy_amax(self, ip, a, kw, node):
        return self._xhook(ip, "max", a, kw)

    def b_numpy_amin(self, ip, a, kw, node):
        return self._xhook(ip, "min", a, kw)

    def b_numpy_sum(self, ip, a, kw, node):
        if getattr(ip.reg, "xarr_hooks", None) and type(a[0]).__name__ in ("XArr",):
            return self._xhook(ip, "sum", a, kw)
        return self.b_numpy_sum_real(ip, a, kw, node)

    def b_numpy_ndim(self, ip, a, kw, node):
        v = a[0]
        if isinstance(v, (int, float, SReal, SInt, SBool, bool)):
            return 0
        if isinstance(v, SArr):
            return 1 if v.shape is None else 2
        if isinstance(v, (SSeq, PList)):
            return 1
        raise Unsupported(f"np.ndim of {type(v).__name__}")

    def b_numpy_isscalar(self, ip, a, kw, node):
        return isinstance(a[0], (int, float, SReal, SInt, bool))

    def b_numpy_any(self, ip, a, kw, node):
        return self._xhook(ip, "any", a, kw)

    def b_numpy_isnan(self, ip, a, kw, node):
        return self._xhook(ip, "isnan", a, kw)

    def b_numpy_isinf(self, ip, a, kw, node):
        return self._xhook(ip, "isinf", a, kw)

    def b_numpy_nan_to_num(self, ip, a, kw, node):
        return ip.schema.nan_to_num(ip, a[0], kw)

    def b_numpy_where(self, ip, a, kw, node):
        return self._xhook(ip, "where", a, kw)

    def b_numpy_clip(self, ip, a, kw, node):
        if type(a[0]).__name__ == "XArr":
            return self._xhook(ip, "clip", a, kw)
        X = self.as_seq(a[0])
        lo = a[1] if len(a) > 1 else kw.get("a_min")
        hi = a[2] if len(a) > 2 else kw.get("a_max")

        def bound(b, k):
            if b is None:
                return None
            if isinstance(b, (SSeq, SArr, PList)):
                v_ = self.seq_get(b, k) if not isinstance(b, SSeq) else b.get(k)
                if isinstance(v_, SpecFn) and isinstance(v_.meta.get("opt"), SOpt) and v_.meta.get("inf") in ("inf", "-inf"):
                    # "the bound, or an infinity when there is none": clipping against an infinity changes nothing
                    o_ = v_.meta["opt"]
                    return (o_.isnone, real_term(o_.val))
                return real_term(v_)
            return real_term(b)

        def el(k):
            t = real_term(X.get(k))
            l_, h_ = bound(lo, k), bound(hi, k)
            if l_ is not None:
                t = sym.zmax(t, l_) if not isinstance(l_, tuple) else z3.If(l_[0], t, sym.zmax(t, l_[1]))
            if h_ is not None:
                t = sym.zmin(t, h_) if not isinstance(h_, tuple) else z3.If(h_[0], t, sym.zmin(t, h_[1]))
            return SReal(t, "npfloat")
        return SSeq(X.n, el, "ndarray", "clip")

    def b_numpy_diag(self, ip, a, kw, node):
        return ip.schema.np_diag(ip, a[0])

    # ---- bound methods of engine containers
    def call_bound(self, ip, recv, name, args, kwargs, node=None):
        if isinstance(recv, GList):
            if name == "append":
                recv.appended.append(args[0])
                return None
            raise Unsupported(f"list.{name} on a list under construction")
        if isinstance(recv, HeapList):
            if name == "append":
                ip.schema.hl_append(ip, recv, args[0])
                return None
            if name == "copy":
                return ip.schema.hl_snapshot(ip, recv)
            if name == "extend":
                items = ip.concrete_iter(args[0])
                if items is None:
                    raise Unsupported("list.extend on a heap list with a symbolic-length iterable")
                for x in items:
                    ip.schema.hl_append(ip, recv, x)
                return None
            raise Unsupported(f"list.{name} on a heap list")
        if isinstance(recv, PList):
            if name == "append":
                recv.items.append(args[0])
                return None
            if name == "extend":
                items = ip.concrete_iter(args[0])
                if items is None:
                    raise Unsupported("list.extend with symbolic-length iterable")
                recv.items.extend(items)
                return None
            if name == "pop":
                if not recv.items:
                    ip.raise_exc("IndexError", "pop from empty list")
                return recv.items.pop(*args)
            if name == "copy":
                return PList(recv.items)
            if name == "insert":
                recv.items.insert(args[0], args[1])
                return None
        if isinstance(recv, PDict):
            if name == "get":
                k = args[0]
                kk = self.key(k)
                if kk in recv.items:
                    return recv.items[kk]
                if isinstance(k, (SName, SType)):
                    from .interp import RaiseEx
                    try:
                        return self.symbolic_dict_lookup(ip, recv, k, node)
                    except RaiseEx as r:
                        if r.exc.cls != "KeyError":
                            raise
                return args[1] if len(args) > 1 else None
            if name == "items":
                return PList([(self.unkey(k), v) for k, v in recv.items.items()])
            if name == "keys":
                return PList([self.unkey(k) for k in recv.items])
            if name == "values":
                return PList(list(recv.items.values()))
            if name == "update":
                other = args[0] if args else PDict()
                if isinstance(other, PDict):
                    recv.items.update(other.items)
                elif isinstance(other, SpecFn) and other.meta.get("kwargs") is not None:
                    ip.path.event("kwargs-merged", other)
                    recv.items[("**",)] = other
                else:
                    raise Unsupported("dict.update with non-dict")
                for k, v in kwargs.items():
                    recv.items[k] = v
                return None
            if name == "copy":
                return PDict(dict(recv.items))
            if name == "clear":
                recv.items.clear()
                return None
            if name == "pop":
                kk = self.key(args[0])
                if kk in recv.items:
                    return recv.items.pop(kk)
                if len(args) > 1:
                    return args[1]
                ip.raise_exc("KeyError")
        if isinstance(recv, SMap):
            if name == "get":
                nm = self.name_term(args[0])
                default = args[1] if len(args) > 1 else None
                if ip.path.guards and isinstance(default, (int, SInt)) and not isinstance(default, bool):
                    # inside a lazily evaluated sequence element: an integer-valued lookup with an integer default is
                    # handed back as one term instead of forking
                    lk = recv.lookup(nm)
                    if isinstance(lk, (int, SInt)) and not isinstance(lk, bool):
                        return SInt(z3.If(recv.indom(nm), num_term(lk), num_term(default)))
                if ip.path.branch(recv.indom(nm), f"key in {recv.desc}"):
                    return recv.lookup(nm)
                return default
            if name == "items":
                return SpecFn(None, "map.items", meta={"items_of": recv, "idx": recv.idx, "as_dict": lambda ip2, m=recv: m})
        if isinstance(recv, (SSeq, SArr)):
            if name in ("flatten", "copy", "ravel"):
                if isinstance(recv, SArr) and recv.shape is not None:
                    return ip.schema.flatten(ip, recv)
                return recv if isinstance(recv, SSeq) else SArr(recv.arr, recv.n, recv.shape)
            if name == "reshape":
                return ip.schema.reshape(ip, recv, args)
            if name == "item":
                n = self.seq_len(recv)
                if n == 1:
                    return SReal(real_term(self.seq_get(recv, 0)), "float")
                raise Unsupported(".item() of non-singleton")
            if name == "tolist":
                return recv
            if name == "astype":
                return recv
            if name in ("any", "all") and not args and not kwargs and not (isinstance(recv, SArr) and recv.shape is not None):
                # arr.any() / arr.all() of a 1-D array of numbers: some / every entry is non-zero
                h = getattr(ip.reg, "any_hook" if name == "any" else "all_hook", None)
                if h is None:
                    raise Unsupported(f"ndarray.{name}() over a symbolic-length array")
                S_ = self.as_seq(recv)
                nz = SSeq(S_.n, lambda k: SBool(real_term(S_.get(k)) != 0), "list", "nonzero-mask")
                return h(ip, nz, node)
        if isinstance(recv, str):
            if name in ("lower", "upper", "strip", "isdigit", "startswith", "endswith", "format", "join", "split"):
                try:
                    if all(isinstance(x, (str, int, float)) for x in args):
                        return getattr(recv, name)(*args)
                except Exception:
                    pass
                if name == "join":
                    return SStrOpaque(("join", recv, args[0]))
            if name == "join":
                return SStrOpaque(("join", recv, args[0]))
        if isinstance(recv, SStrOpaque):
            if name == "lower":
                return SStrOpaque(("lower", recv))
            if name in ("strip", "format"):
                return SStrOpaque((name, recv))
        if isinstance(recv, (SReal,)) and name == "is_integer":
            return self.mkbool(z3.IsInt(recv.t))
        if isinstance(recv, float) and name == "is_integer":
            return recv.is_integer()
        if isinstance(recv, (SReal, float, int)) and name == "item":
            return recv
        if isinstance(recv, SSet) or (isinstance(recv, SpecFn) and recv.meta.get("set") is not None):
            return ip.schema.set_method(ip, recv, name, args, node)
        if isinstance(recv, SpecFn) and recv.meta.get("methods") and name in recv.meta["methods"]:
            return recv.meta["methods"][name](ip, *args, **kwargs)
        raise Unsupported(f"method {name} of {type(recv).__name__}")
