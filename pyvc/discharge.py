"""Discharge obligations: z3 (python API, in worker processes) and /usr/bin/cvc5 on the same SMT-LIB text.

Verdicts: 'proved' (unsat of assumptions & not goal), 'refuted' (sat), 'unknown'.
quick tier  : z3 first; cvc5 only on z3's unknowns.
thorough tier: both solvers on every obligation; a proved/refuted disagreement is an engine error (exit 3).
"""
from __future__ import annotations

import os
import subprocess
import tempfile
import time
from concurrent.futures import ProcessPoolExecutor
from dataclasses import dataclass

import z3

from . import sym
from .path import Obligation


@dataclass
class Verdict:
    oid: str
    verdict: str              # proved | refuted | unknown
    solver: str
    seconds: float
    detail: str = ""
    z3: str = ""
    cvc5: str = ""
    index: int = -1


def to_smt2(ob: Obligation) -> str:
    s = z3.Solver()
    for f in sym.lit_facts():
        s.add(f)
    for a in ob.assumptions:
        s.add(a)
    s.add(z3.Not(ob.goal))
    return s.to_smt2()


def _run_z3(args):
    text, timeout_ms = args
    t0 = time.time()
    try:
        s = z3.Solver()
        s.set("timeout", timeout_ms)
        s.from_string(text)
        r = s.check()
        v = "proved" if r == z3.unsat else "refuted" if r == z3.sat else "unknown"
        return v, time.time() - t0, "" if v != "unknown" else s.reason_unknown()
    except Exception as e:  # pragma: no cover
        return "unknown", time.time() - t0, f"z3 error: {e}"


def _run_cvc5(args):
    text, timeout_ms = args
    t0 = time.time()
    fd, path = tempfile.mkstemp(suffix=".smt2", prefix="pyvc_")
    try:
        with os.fdopen(fd, "w") as f:
            txt = text
            if "(set-logic" not in txt:
                txt = "(set-logic ALL)\n" + txt
            f.write(txt)
        try:
            out = subprocess.run(["/usr/bin/cvc5", "--lang=smt2", f"--tlimit={timeout_ms}", path],
                                 capture_output=True, text=True, timeout=timeout_ms / 1000 + 5)
            o = out.stdout.strip().splitlines()
            first = o[0].strip() if o else ""
            v = "proved" if first == "unsat" else "refuted" if first == "sat" else "unknown"
            return v, time.time() - t0, "" if v != "unknown" else (first or out.stderr.strip()[:200])
        except subprocess.TimeoutExpired:
            return "unknown", time.time() - t0, "cvc5 timeout"
    finally:
        try:
            os.unlink(path)
        except OSError:
            pass


def discharge(obs: list[Obligation], tier: str = "quick", timeout_ms: int = 10000, workers: int | None = None) -> list[Verdict]:
    workers = workers or min(16, os.cpu_count() or 4)
    texts = []
    trivial: dict[int, Verdict] = {}
    for i, ob in enumerate(obs):
        g = ob.goal
        if z3.is_true(g):
            trivial[i] = Verdict(ob.oid, "proved", "trivial", 0.0, index=i)
            texts.append(None)
            continue
        texts.append(to_smt2(ob))
    todo = [i for i in range(len(obs)) if i not in trivial]
    out: dict[int, Verdict] = dict(trivial)
    if not todo:
        return [out[i] for i in range(len(obs))]
    with ProcessPoolExecutor(max_workers=workers) as ex:
        zres = list(ex.map(_run_z3, [(texts[i], timeout_ms) for i in todo], chunksize=4))
        need_cvc = [i for i, (v, _, _) in zip(todo, zres) if tier == "thorough" or v == "unknown"]
        cres = dict(zip(need_cvc, ex.map(_run_cvc5, [(texts[i], timeout_ms) for i in need_cvc], chunksize=2))) if need_cvc else {}
    for i, (v, dt, det) in zip(todo, zres):
        vd = Verdict(obs[i].oid, v, "z3", dt, det, z3=v, index=i)
        if i in cres:
            cv, cdt, cdet = cres[i]
            vd.cvc5 = cv
            if v == "unknown" and cv != "unknown":
                vd.verdict, vd.solver, vd.seconds, vd.detail = cv, "cvc5", dt + cdt, cdet
            elif v != "unknown" and cv != "unknown" and cv != v:
                vd.verdict, vd.detail = "disagree", f"z3={v} cvc5={cv}"
            elif v == "unknown" and cv == "unknown":
                vd.detail = f"z3: {det}; cvc5: {cdet}"
        out[i] = vd
    return [out[i] for i in range(len(obs))]


def model_of(ob: Obligation, timeout_ms: int = 10000):
    """In-process model of a refuted obligation (for the concretiser)."""
    s = z3.Solver()
    s.set("timeout", timeout_ms)
    for f in sym.lit_facts():
        s.add(f)
    for a in ob.assumptions:
        s.add(a)
    s.add(z3.Not(ob.goal))
    if s.check() == z3.sat:
        return s.model()
    return None
