"""Native replay / refutation search on the real code (stdin: one JSON job, stdout: one JSON result line)."""
from __future__ import annotations

import importlib
import json
import math
import random
import sys
import time
import traceback

import numpy as np

from build import build, rand_env, rand_scalar, rand_vector_node
from oracle import Undefined, close, den, dnum, variables_of, poly_degree_at_most


def resolve(key: str):
    mod, qn = key.split(":")
    m = importlib.import_module(mod)
    if "_register_vector_gradient_rules." in qn:
        from optyx.core import autodiff
        name = qn.split(".")[-1]
        for cls, fn in autodiff._gradient_registry.items():
            if fn.__name__ == name:
                return fn
        raise KeyError(qn)
    obj = m
    for part in qn.split("."):
        obj = getattr(obj, part)
    return getattr(obj, "__wrapped__", obj) if False else obj


def is_zero_const(e):
    from optyx.core.expressions import Constant
    return isinstance(e, Constant) and np.ndim(e.value) == 0 and float(e.value) == 0.0


def check_clause(job, env):
    """Returns (violated: bool | None, detail).  None = clause not applicable at this point (outside precondition)."""
    fam = job["family"]
    if fam == "compile":
        return check_compile(job, env)
    if fam == "lp":
        return check_lp(job, env)
    if fam == "sanitize":
        return check_sanitize(job)
    args = [build(a) for a in job["args"]]
    fn = resolve(job["fn"])
    clause = job["clause"].split("#")[0]
    try:
        res = fn(*args)
    except Exception as ex:
        if clause == "no-raise" or job.get("any_raise_is_violation"):
            return True, f"raised {type(ex).__name__}: {str(ex)[:120]}"
        return (True, f"raised {type(ex).__name__}: {str(ex)[:120]}") if job.get("no_raise_expected", True) else (None, "raised")
    if clause == "no-raise":
        return False, "did not raise"
    if fam == "simplify":
        op = job["op"]
        try:
            vals = [den(a, env) for a in args]
            exp = {"add": lambda a, b: a + b, "sub": lambda a, b: a - b, "mul": lambda a, b: a * b,
                   "div": lambda a, b: a / b, "pow": lambda a, b: a ** b, "neg": lambda a: -a}[op](*vals)
            got = den(res, env)
        except (Undefined, ZeroDivisionError, OverflowError, ValueError):
            return None, "outside domain"
        if isinstance(exp, complex):
            return None, "outside domain"
        if clause == "den":
            return (not close(got, exp)), f"den(result)={got} expected {exp}"
        if clause == "zero":
            zl = [is_zero_const(a) for a in args]
            want = {"add": all(zl), "sub": all(zl), "mul": any(zl), "div": zl[0], "neg": zl[0]}.get(op, False)
            return (want and not is_zero_const(res)), "zero-form not kept"
        return None, "clause not checked natively"
    if fam == "gradient":
        e, wrt = args[0], args[1]
        if clause == "G2":
            if wrt.name in variables_of(e):
                return None, "variable occurs"
            return (not is_zero_const(res)), f"result {res!r} is not Constant(0) although {wrt.name} does not occur"
        if clause == "G1":
            try:
                exp = dnum(e, wrt.name, env)
                got = den(res, env)
            except Undefined:
                return None, "not a regular point"
            return (not close(got, exp, 1e-5)), f"gradient value {got} but d/d{wrt.name} = {exp} at {env_of(e, env, wrt.name)}"
        return None, "clause not checked natively"
    if fam == "degree":
        e = args[0]
        names = sorted(variables_of(e)) or ["x"]
        if res is None:
            return False, "None"
        rng = random.Random(1)
        if not isinstance(res, (int, np.integer)) or res < 0:
            return True, f"degree {res!r} is not a non-negative int"
        ok = poly_degree_at_most(e, int(res), names, rng)
        return (not ok), f"reported degree {res} but the formula is not a polynomial of total degree <= {res}"
    return None, "unknown family"


def check_compile(job, env):
    """value clause of the compiler family: f(x) == den(e) for an ordering/superset of the variables."""
    from optyx.core.expressions import Variable
    from optyx.core import compiler
    e = build(job["args"][0])
    names = sorted(variables_of(e))
    order = job.get("order") or (list(reversed(names)) + ["zz_extra"])
    for n in names:
        if n not in order:
            order.append(n)
    vs = [build({"cls": "Variable", "name": n}) for n in order]
    fnkey = job["fn"]
    clause = job["clause"].split("#")[0]
    try:
        if fnkey.endswith(":_build_evaluator") or fnkey.endswith(":_build_evaluator_iterative"):
            f = resolve(fnkey)(e, {v.name: i for i, v in enumerate(vs)})
        elif fnkey.endswith(":_compile_cached"):
            idx = {v.name: i for i, v in enumerate(vs)}
            f = compiler._compile_cached(e, tuple(v.name for v in vs), tuple(idx.items()))
        else:
            f = compiler.compile_expression(e, vs)
    except Exception as ex:
        return True, f"compilation raised {type(ex).__name__}: {str(ex)[:120]}"
    if clause in ("no-raise",) or "hashable" in clause:
        return False, "compiled"
    x = np.array([float(env.get(n, 0.3)) for n in order])
    try:
        exp = den(e, {n: float(x[i]) for i, n in enumerate(order)})
    except Undefined:
        return None, "outside domain"
    try:
        got = float(np.asarray(f(x)).item())
    except Exception as ex:
        return True, f"compiled callable raised {type(ex).__name__}: {str(ex)[:100]}"
    if not math.isfinite(exp):
        return None, "outside domain"
    return (not close(got, exp)), f"compiled value {got}, formula value {exp} at {dict(zip(order, x.tolist()))}"


def check_sanitize(job):
    """C19 clause of _sanitize_derivatives on one concrete array: finite output, finite entries unchanged, NaN -> 0,
    +Inf -> 1e16, -Inf -> -1e16 (entries are given as floats or the strings 'nan', 'inf', '-inf')."""
    import numpy as np
    from optyx.core.compiler import _sanitize_derivatives
    a = np.array([float(x) for x in job["args"][0]], dtype=float)
    if job["args"][0] and job.get("shape"):
        a = a.reshape(job["shape"])
    with np.errstate(all="ignore"):
        out = np.asarray(_sanitize_derivatives(a.copy()), dtype=float)
    if out.shape != a.shape:
        return True, f"shape {out.shape} for input shape {a.shape}"
    for x, y in zip(a.reshape(-1), out.reshape(-1)):
        want = 0.0 if x != x else (1e16 if x == float("inf") else (-1e16 if x == float("-inf") else x))
        if not (y == y and abs(y) != float("inf")) or y != want:
            return True, f"_sanitize_derivatives({a.tolist()}) = {out.tolist()}: entry {x} became {y}, expected {want}"
    return False, "as specified"


def check_lp(job, env):
    """LP extraction family: constants at the zero point, coefficient vectors as  c.x = f(x) - f(0)  in index-map order."""
    from optyx import analysis
    e = build(job["args"][0])
    names = sorted(variables_of(e))
    fnkey = job["fn"]
    fn = resolve(fnkey)
    short = fnkey.split(":")[1]
    zero = {n: 0.0 for n in names}
    try:
        f0 = den(e, zero)
    except Undefined:
        return None, "outside domain"
    try:
        if not analysis.is_linear(e):
            return None, "not classified linear by optyx"
    except Exception as ex:
        return None, f"is_linear raised {type(ex).__name__}"
    if short in ("_extract_constant_impl", "extract_constant_term"):
        try:
            got = float(fn(e))
        except Exception as ex:
            return True, f"raised {type(ex).__name__}: {str(ex)[:100]}"
        return (not close(got, f0)), f"constant term {got}, value of the formula at 0 is {f0}"
    order = job.get("order")
    if not order:
        # several column orders: the fast paths only trigger for exact covers whose first column is in place
        from oracle import vec_elems
        first = None
        root = e
        for cand in (getattr(e, "left", None), e):
            v = getattr(cand, "vector", None)
            if v is not None and hasattr(v, "_variables"):
                first = [x.name for x in v._variables]
        cands = []
        if first and set(first) == set(names):
            cands.append([first[0]] + sorted(first[1:], reverse=True))
            cands.append([first[0]] + sorted(first[1:]))
        sh = list(names)
        random.Random(len(names) * 7 + 1).shuffle(sh)
        cands.append(sh + ["zz_extra"])
        cands.append(list(names))
        for od in cands:
            j2 = dict(job)
            j2["order"] = od
            v_, d_ = check_lp(j2, env)
            if v_:
                return v_, d_
        return False, "all column orders agree"
    for n in names:
        if n not in order:
            order.append(n)
    idx = {n: i for i, n in enumerate(order)}
    n_ = len(order)
    x = np.array([float(env.get(nm, 0.7)) for nm in order])
    try:
        fx = den(e, {nm: float(x[i]) for i, nm in enumerate(order)})
    except Undefined:
        return None, "outside domain"
    try:
        if short == "_extract_all_coefficients_impl":
            r = np.zeros(n_)
            fn(e, idx, r, 1.0)
        elif short == "_try_extract_fast_binop":
            r = fn(e, idx, n_)
            if r is None:
                return False, "no fast path"
        else:
            r = fn(e, idx, n_)
    except Exception as ex:
        return True, f"raised {type(ex).__name__}: {str(ex)[:100]}"
    got = float(np.dot(np.asarray(r, dtype=float), x))
    return (not close(got, fx - f0)), f"c.x = {got} but f(x) - f(0) = {fx - f0} with columns {order} and x = {x.tolist()}, c = {np.asarray(r).tolist()}"


def env_of(e, env, extra=None):
    names = variables_of(e) | ({extra} if extra else set())
    return {n: env.get(n) for n in sorted(names)}


def main():
    job = json.loads(sys.stdin.read())
    t0 = time.time()
    try:
        if job.get("mode") == "search":
            rng = random.Random(job.get("seed", 0))
            tried = 0
            for inp in job["pool"]:
                j2 = dict(job)
                j2["args"] = inp["args"]
                for _ in range(job.get("points", 3)):
                    env = rand_env(rng)
                    env.update(inp.get("env", {}))
                    tried += 1
                    v, detail = check_clause(j2, env)
                    if v:
                        j2.pop("pool", None)
                        j2["mode"] = "replay"
                        j2["env"] = env
                        print(json.dumps({"reproduced": True, "detail": detail, "job": j2, "tried": tried}))
                        return
            print(json.dumps({"reproduced": False, "tried": tried, "seconds": time.time() - t0}))
            return
        env = rand_env(random.Random(0))
        env.update(job.get("env", {}))
        v, detail = check_clause(job, env)
        print(json.dumps({"reproduced": bool(v), "applicable": v is not None, "detail": detail}))
    except Exception:
        print(json.dumps({"reproduced": False, "error": traceback.format_exc()[-1500:]}))


if __name__ == "__main__":
    main()
