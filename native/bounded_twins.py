"""Bounded stand-in for C15 (labelled bounded, never counted as proved).

What the proof side leaves open for the iterative twins is the traversal glue: the block lemmas
(`lemma:block:*`) prove every loop-body block of the stack machines against the node's specification,
but that the stack discipline composes the blocks into a post-order evaluation is an informal induction.
This script runs the real twins side by side on

  (a) every "focus" node kind (each leaf, every binary operator, every unary function, every vector node over a
      VectorVariable and over a VectorExpression) placed in each of a fixed set of contexts (left / right operand of
      every non-commutative operator, under a unary minus, alone), and
  (b) term-by-term accumulations of n terms (n around and above every module's _RECURSION_THRESHOLD) with each operator,
      compared with the same formula built balanced,

and reports any disagreement between the recursive and the iterative algorithm: one raises and the other does not,
values differ at sample points, degrees differ, variable sets differ, a RecursionError escapes.
Bounds: focus trees of depth <= 3, accumulations n in the listed sizes; sample points fixed by the seed.
"""
from __future__ import annotations

import json
import math
import random
import sys
import time

import numpy as np

import build as B
import oracle as O


def focus_pool():
    x, y = {"cls": "Variable", "name": "x"}, {"cls": "Variable", "name": "y"}
    c2, ch = {"cls": "Constant", "value": 2.0}, {"cls": "Constant", "value": 0.5}
    par = {"cls": "Parameter", "name": "p", "value": 1.5}
    vv = {"cls": "VectorVariable", "name": "v", "vars": [{"cls": "Variable", "name": f"v[{i}]"} for i in range(3)]}
    vw = {"cls": "VectorVariable", "name": "v", "vars": [{"cls": "Variable", "name": f"v[{i}]"} for i in (2, 0, 1)]}
    ve = {"cls": "VectorExpression", "exprs": [{"cls": "BinaryOp", "left": x, "right": ch, "op": "*"},
                                               {"cls": "UnaryOp", "operand": y, "op": "sin"},
                                               {"cls": "Variable", "name": "v[1]"}]}
    small = {"cls": "BinaryOp", "left": x, "right": ch, "op": "*"}     # |value| < 1 at the sample points: asin/acos/atanh defined
    pool = [("Constant", c2), ("Variable", x), ("Parameter", par)]
    for op in ["+", "-", "*", "/", "**"]:
        for ln, l in (("var", x), ("const", c2), ("sum", {"cls": "BinaryOp", "left": x, "right": y, "op": "+"})):
            for rn, r in (("var", y), ("const", c2), ("half", ch), ("par", par)):
                pool.append((f"BinaryOp:{op}|{ln}|{rn}", {"cls": "BinaryOp", "left": l, "right": r, "op": op}))
    for op in B.UNARY:
        arg = small if op in ("asin", "acos", "atanh") else {"cls": "BinaryOp", "left": x, "right": c2, "op": "+"} if op == "acosh" else x
        pool.append((f"UnaryOp:{op}", {"cls": "UnaryOp", "operand": arg, "op": op}))
    for vn, v in (("VectorVariable", vv), ("VectorExpression", ve)):
        pool.append((f"DotProduct|{vn}|VectorVariable", {"cls": "DotProduct", "left": v, "right": vw}))
        pool.append((f"DotProduct|VectorVariable|{vn}", {"cls": "DotProduct", "left": vw, "right": v}))
        for k in ("L2Norm", "L1Norm"):
            pool.append((f"{k}|{vn}", {"cls": k, "vector": v}))
        pool.append((f"LinearCombination|{vn}", {"cls": "LinearCombination", "coefficients": [2.0, 0.0, -1.5], "vector": v}))
        pool.append((f"QuadraticForm|{vn}", {"cls": "QuadraticForm", "vector": v, "matrix": [[1.0, 2.0, 0.0], [0.0, -1.0, 0.5], [3.0, 0.0, 2.0]]}))
    pool.append(("VectorSum|VectorVariable", {"cls": "VectorSum", "vector": vv}))
    pool.append(("VectorSum|VectorExpression", {"cls": "py", "setup": "from optyx.core.vectors import VectorSum, VectorExpression\nx=Variable('x'); y=Variable('y')",
                                                "expr": "VectorSum(VectorExpression([x*0.5, sin(y), x]))"}))
    pool.append(("VectorExpressionSum", {"cls": "VectorExpressionSum", "expression": ve}))
    for pw in (2, 3, 1, 0, 0.5, -1.0):
        pool.append((f"VectorPowerSum:{pw}", {"cls": "VectorPowerSum", "vector": vv, "power": pw}))
    for op in B.VUNARY:
        pool.append((f"VectorUnarySum:{op}", {"cls": "VectorUnarySum", "vector": vv, "op": op}))
    return pool


CONTEXTS = [
    ("alone", lambda f: f),
    ("f+x", lambda f: {"cls": "BinaryOp", "left": f, "right": {"cls": "Variable", "name": "x"}, "op": "+"}),
    ("x-f", lambda f: {"cls": "BinaryOp", "left": {"cls": "Variable", "name": "x"}, "right": f, "op": "-"}),
    ("f-y", lambda f: {"cls": "BinaryOp", "left": f, "right": {"cls": "Variable", "name": "y"}, "op": "-"}),
    ("2/f", lambda f: {"cls": "BinaryOp", "left": {"cls": "Constant", "value": 2.0}, "right": f, "op": "/"}),
    ("f/y", lambda f: {"cls": "BinaryOp", "left": f, "right": {"cls": "Variable", "name": "y"}, "op": "/"}),
    ("f*f'", lambda f: {"cls": "BinaryOp", "left": f, "right": {"cls": "BinaryOp", "left": {"cls": "Variable", "name": "y"}, "right": {"cls": "Constant", "value": 3.0}, "op": "+"}, "op": "*"}),
    ("f**2", lambda f: {"cls": "BinaryOp", "left": f, "right": {"cls": "Constant", "value": 2.0}, "op": "**"}),
    ("2**f", lambda f: {"cls": "BinaryOp", "left": {"cls": "Constant", "value": 2.0}, "right": f, "op": "**"}),
    ("-f", lambda f: {"cls": "UnaryOp", "operand": f, "op": "neg"}),
    ("exp(f)*x", lambda f: {"cls": "BinaryOp", "left": {"cls": "UnaryOp", "operand": f, "op": "exp"}, "right": {"cls": "Variable", "name": "x"}, "op": "*"}),
]

ENVS = [
    {"x": 0.7, "y": 1.3, "z": 0.4, "v[0]": 0.9, "v[1]": 1.6, "v[2]": 0.4},
    {"x": 1.1, "y": 0.6, "z": 2.1, "v[0]": 1.2, "v[1]": 0.5, "v[2]": 2.2},
]


def outcome(f):
    try:
        return ("ok", f())
    except RecursionError:
        return ("RecursionError", None)
    except Exception as e:          # noqa: BLE001 - the class is the observation
        return (type(e).__name__, None)


def safe_eval(e, env):
    try:
        with np.errstate(all="ignore"):
            v = e.evaluate(env)
        v = float(np.asarray(v).reshape(-1)[0]) if np.asarray(v).size == 1 else None
        return v
    except Exception:               # noqa: BLE001
        return None


def agree(a, b):
    if a is None or b is None:
        return a is None and b is None
    if not (math.isfinite(a) and math.isfinite(b)):
        return (math.isnan(a) and math.isnan(b)) or a == b
    return abs(a - b) <= 1e-9 * max(1.0, abs(a), abs(b))


def compare_twins(e, label, fails, stats):
    from optyx.core import autodiff as AD, compiler as CP, expressions as EX
    from optyx import analysis as AN
    names = sorted(set(O.variables_of(e)) | {"x", "y"})
    # (1) variable discovery
    r, i = outcome(lambda: {v.name for v in e.get_variables()}), outcome(lambda: {v.name for v in EX._get_variables_iterative(e)})
    stats["variables"] += 1
    if r[0] != i[0]:
        fails.append(("variables", label, f"recursive:{r[0]} iterative:{i[0]}"))
    elif r[0] == "ok" and r[1] != i[1]:
        fails.append(("variables", label, f"sets differ: {sorted(r[1] ^ i[1])}"))
    # (2) degree
    r, i = outcome(lambda: AN._compute_degree_impl(e)), outcome(lambda: AN._compute_degree_iterative(e))
    stats["degree"] += 1
    if r[0] != i[0]:
        fails.append(("degree", label, f"recursive:{r[0]} iterative:{i[0]}"))
    elif r[0] == "ok" and r[1] != i[1]:
        fails.append(("degree", label, f"recursive={r[1]} iterative={i[1]}"))
    # (3) symbolic gradient
    for wn in names:
        w = B.build({"cls": "Variable", "name": wn})      # build() interns Variables by name: the object used in the tree
        r, i = outcome(lambda: AD._gradient_cached(e, w)), outcome(lambda: AD._gradient_iterative(e, w))
        stats["gradient"] += 1
        if r[0] != i[0]:
            fails.append(("gradient", label, f"recursive:{r[0]} iterative:{i[0]}"))
            break
        if r[0] == "ok":
            bad = False
            for env in ENVS:
                a, b = safe_eval(r[1], env), safe_eval(i[1], env)
                if not agree(a, b):
                    fails.append(("gradient", label, f"d/d{wn}: recursive={a} iterative={b}"))
                    bad = True
                    break
            if bad:
                break
    # (4) evaluator
    order = list(reversed(names)) + ["u"]
    idx = {n: k for k, n in enumerate(order)}
    r, i = outcome(lambda: CP._build_evaluator(e, idx)), outcome(lambda: CP._build_evaluator_iterative(e, idx))
    stats["evaluator"] += 1
    if r[0] != i[0]:
        fails.append(("evaluator", label, f"recursive:{r[0]} iterative:{i[0]}"))
    elif r[0] == "ok":
        for env in ENVS:
            xarr = np.array([env.get(n, 0.25) for n in order], dtype=float)
            with np.errstate(all="ignore"):
                a, b = outcome(lambda: float(r[1](xarr))), outcome(lambda: float(i[1](xarr)))
            if a[0] != b[0] or (a[0] == "ok" and not agree(a[1], b[1])):
                fails.append(("evaluator", label, f"recursive={a} iterative={b}"))
                break


def chain(terms, op, assoc):
    from optyx.core.expressions import BinaryOp
    if assoc == "left":
        e = terms[0]
        for t in terms[1:]:
            e = BinaryOp(e, t, op)
        return e
    # balanced build of the same left-associated formula: only for the associative operators
    def bal(ts):
        if len(ts) == 1:
            return ts[0]
        m = len(ts) // 2
        return BinaryOp(bal(ts[:m]), bal(ts[m:]), op)
    return bal(terms)


def deep_checks(tier, fails, stats):
    """Term-by-term accumulations through the PUBLIC entry points, around and above the switch depth."""
    from optyx import Variable, Constant
    from optyx.core import autodiff as AD, compiler as CP
    from optyx.core.expressions import get_all_variables
    from optyx import analysis as AN
    from optyx.core.functions import sin
    x, y = Variable("x"), Variable("y")
    sizes = [399, 401, 450] if tier == "quick" else [100, 399, 400, 401, 450, 700, 900]
    env = {"x": 0.7, "y": 1.3}
    for n in sizes:
        for op in ("+", "-", "*", "/"):
            def term(k):
                c = 1.0 + (k % 7) * 0.01
                if op in ("*", "/"):
                    return Constant(c) if k % 3 else (x * 0.01 + 1.0)
                return (x * c) if k % 2 else (y - c)
            terms = [term(k) for k in range(n)]
            deep = chain(terms, op, "left")
            stats["deep"] += 1
            # reference value by direct accumulation in floating point
            vals = [float(t.evaluate(env)) for t in terms]
            ref = vals[0]
            for v in vals[1:]:
                ref = ref + v if op == "+" else ref - v if op == "-" else ref * v if op == "*" else ref / v
            label = f"deep:{op}:n={n}"
            r = outcome(lambda: get_all_variables(deep))
            if r[0] != "ok" or {v.name for v in r[1]} != ({"x", "y"} if op in "+-" else {"x"}):
                fails.append(("variables", label, f"{r[0]} {sorted(v.name for v in r[1]) if r[1] else ''}"))
            r = outcome(lambda: AN.compute_degree(deep))
            want = 1 if op in "+-" else None
            if r[0] != "ok":
                fails.append(("degree", label, r[0]))
            elif op in "+-" and r[1] != 1:
                fails.append(("degree", label, f"degree {r[1]} for a sum of affine terms"))
            r = outcome(lambda: CP.compile_expression(deep, [y, x]))
            if r[0] != "ok":
                fails.append(("evaluator", label, r[0]))
            else:
                got = outcome(lambda: float(r[1](np.array([env["y"], env["x"]]))))
                if got[0] != "ok" or abs(got[1] - ref) > 1e-6 * max(1.0, abs(ref)):
                    fails.append(("evaluator", label, f"compiled value {got} vs accumulated {ref}"))
            g = outcome(lambda: AD.gradient(deep, x))
            if g[0] != "ok":
                fails.append(("gradient", label, g[0]))
            else:
                h = 1e-6
                def val(xx):
                    e2 = dict(env, x=xx)
                    vs = [float(t.evaluate(e2)) for t in terms]
                    a = vs[0]
                    for v in vs[1:]:
                        a = a + v if op == "+" else a - v if op == "-" else a * v if op == "*" else a / v
                    return a
                num = (val(env["x"] + h) - val(env["x"] - h)) / (2 * h)
                # the derivative tree of a deep product is deeper than the product itself: it is evaluated the way optyx uses
                # it (compiled), not through the recursive tree walk
                gv = outcome(lambda: float(CP.compile_expression(g[1], [y, x])(np.array([env["y"], env["x"]]))))
                if gv[0] != "ok" or abs(gv[1] - num) > 1e-4 * max(1.0, abs(num)):
                    fails.append(("gradient", label, f"gradient value {gv} vs central difference {num}"))
    # a base term of every unary function inside a deep '+' chain: supported shallow => supported deep
    from optyx.core.expressions import UnaryOp
    for op in B.UNARY:
        arg = x * 0.5 if op in ("asin", "acos", "atanh") else (x + 2.0) if op == "acosh" else x
        base = UnaryOp(arg, op)
        shallow = outcome(lambda: float(AD.gradient(base + y, x).evaluate(env)))
        deep = base
        for k in range(450):
            deep = deep + y
        stats["deep"] += 1
        d = outcome(lambda: float(AD.gradient(deep, x).evaluate(env)))
        if shallow[0] != d[0] or (shallow[0] == "ok" and not agree(shallow[1], d[1])):
            fails.append(("gradient", f"deep-unary:UnaryOp:{op}", f"shallow {shallow} deep {d}"))
        cs = outcome(lambda: float(CP.compile_expression(base + y, [x, y])(np.array([0.7, 1.3]))))
        cd = outcome(lambda: float(CP.compile_expression(deep, [x, y])(np.array([0.7, 1.3]))))
        if cs[0] != cd[0] or (cs[0] == "ok" and abs(cd[1] - (cs[1] + 449 * 1.3)) > 1e-6 * max(1.0, abs(cd[1]))):
            fails.append(("evaluator", f"deep-unary:UnaryOp:{op}", f"shallow {cs} deep {cd}"))


def main():
    job = json.loads(sys.stdin.read())
    tier = job.get("tier", "quick")
    t0 = time.time()
    from collections import Counter
    stats = Counter()
    fails = []
    pool = focus_pool()
    ctxs = CONTEXTS if tier == "thorough" else CONTEXTS[:6] + CONTEXTS[9:10]
    for fname, frc in pool:
        for cname, ctx in ctxs:
            try:
                e = B.build(ctx(frc))
            except Exception as ex:     # noqa: BLE001 - construction rejected by the API: nothing to compare
                stats["unbuildable"] += 1
                continue
            stats["trees"] += 1
            compare_twins(e, f"{fname}@{cname}", fails, stats)
    if tier == "thorough":
        rng = random.Random(job.get("seed", 0) + 17)
        for k in range(400):
            rc = B.rand_scalar(rng, 3)
            try:
                e = B.build(rc)
            except Exception:           # noqa: BLE001
                continue
            stats["trees"] += 1
            sub = []
            compare_twins(e, f"random#{k}", sub, stats)
            for tw, lab, what in sub:
                fails.append((tw, lab, what + " recipe=" + json.dumps(rc)[:400]))
    deep_checks(tier, fails, stats)
    out = []
    seen = set()
    for tw, lab, what in fails:
        focus = lab.split("@")[0]
        sig = f"{tw}:{focus}"
        if sig in seen:
            continue
        seen.add(sig)
        out.append({"signature": sig, "what": f"{tw} twins disagree on {lab}: {what}", "job": {"twin": tw, "label": lab}})
    print(json.dumps({"cases": sum(stats[k] for k in ("variables", "degree", "gradient", "evaluator", "deep")), "distinct": stats["trees"],
                      "exhaustive": False, "seconds": round(time.time() - t0, 2), "failures": out, "stats": dict(stats)}))


if __name__ == "__main__":
    main()
