"""C11 (vector part): the element-wise vector operations of the modelling API denote their NumPy counterparts.

For a vector object v (VectorVariable or VectorExpression) DENV(v, k, E, PV) is the value of its k-th element.  Proved, for
every length, every element tree and every environment:

    _vector_binary_op(l, r, op)      R has len(l) elements and  [[R_k]] = [[l_k]] op [[r_k]]   (r: scalar, vector, 1-D array);
                                     operands of different length are rejected (DimensionMismatchError), arrays that are not
                                     1-D are rejected (WrongDimensionalityError), anything else is rejected
    the operator methods             x + y, y + x, x - y, c - x, x * c, c * x, x / c, c / x, -x, x ** c (VectorExpression)
                                     dispatch to the element-wise operation with the operands in the written order
    x.sum(), x.dot(y), norms         build the node whose denotation (C01 spec) is the NumPy reduction

Not covered here (matrices.py, views/slicing, reflected operators whose left operand is an ndarray -- NumPy's own dispatch
decides what is called; see DESIGN.md 12.7).
"""
from __future__ import annotations

import z3

from pyvc import sym
from pyvc.contracts import T
from pyvc.values import Obj, Opaque, PList, SInt, SReal, SSeq, Unsupported, real_term

from .specfns import Spec
from .seqtheory import VLEN, DENV, register_vector, skolem, index_used
from .vecspec import vec_wf

VE = "optyx.core.vectors"
VK = ["VectorVariable", "VectorExpression"]
RK = ["int", "float", "VectorVariable", "VectorExpression", "ndarray1", "ndarray2", "str"]
OPS = ["+", "-", "*", "/", "**"]


def combine(ip, op, a, b):
    if op == "+":
        return a + b
    if op == "-":
        return a - b
    if op == "*":
        return a * b
    if op == "/":
        return a / b
    return ip.models.pow_term(ip, a, b)


def result_goals(c, sp, res, n, elem_spec, dom_ok):
    """res is a VectorExpression with n elements whose k-th element denotes elem_spec(k) (checked at an arbitrary k)."""
    ip = c.ip
    if not isinstance(res, (Obj, Opaque)):
        return [z3.BoolVal(False)]
    cls_ok = sp.K.is_kind(sp.ref(res), "VectorExpression")
    S = ip.models.as_seq(ip.getattr(res, "_expressions"))
    size = ip.getattr(res, "size")
    k = skolem(ip, "sk_elem", n)
    index_used(ip, k)
    ip.path.assume(z3.And(k >= 0, k < n))
    goals = [cls_ok, ip.models.len_term(S.n) == n, real_term(size) == sym.to_real(n)]
    if ip.path.check_sat(ip.models.len_term(S.n) == n) == "unsat":
        return goals
    ip.path.assume(ip.models.len_term(S.n) == n)
    el = S.get(k)
    goals.append(z3.Implies(dom_ok(k), sp.den(el, sp.E, sp.PV) == elem_spec(k)))
    goals.append(sp.wf(el))
    ip.reg.saturate(ip)
    return goals


def promised_vector(sp, n, elem_spec, dom_ok):
    """The VectorExpression a contract promises: n well-formed elements, the k-th denoting elem_spec(k) (facts instantiated at
    the index terms in use)."""
    from .seqtheory import seqs, _once, ELEME
    ip = sp.ip
    r = sym.fresh("vecexpr", sym.Ref)
    p = ip.path
    p.assume(sp.K.is_kind(r, "VectorExpression"))
    p.kinds[str(r)] = "VectorExpression"
    register_vector(sp, r, None, sp.E, sp.PV)
    p.assume(z3.And(VLEN(r) == n, vec_wf(sp, r)))

    def pw(k):
        if _once(ip, f"promised:{r}:{k}"):
            p.guards.append(z3.And(k >= 0, k < n))
            try:
                spec, ok = elem_spec(k), dom_ok(k)
            finally:
                p.guards.pop()
            p.assume(z3.Implies(z3.And(k >= 0, k < n, ok), DENV(r, k, sp.E, sp.PV) == spec))
    seqs(ip).pointwise.append(pw)
    return Opaque(r, "VectorExpression", exact=True)


def install(reg, src):
    for prop_ in ("C11", "C10"):
      reg.bounded_checks.setdefault(prop_, []).append({
        "name": "vecmat", "script": "bounded_vecmat.py", "timeout": 600,
        "bound": "fixed list of ~75 API recipes (vector arithmetic incl. arrays on either side, reductions, views and slices, "
                 "matrix variables / expressions / transposes / rows / columns / trace / diagonal / symmetric sharing, A @ x, "
                 "x.dot(Q @ x), element-wise vector / matrix constraints against C- and F-ordered arrays, shape-mismatch "
                 "rejection) x vector sizes {2,3,4} (quick) / {1,2,3,4,6} (thorough) x matrix "
                 "shapes x 2 seeded value sets, compared entry by entry with NumPy",
        "why": "views / slices, matrices.py (incl. element-wise matrix constraints, C10) and the x.dot(A @ x) rewriting are not "
               "under contract (MatrixVectorProduct and matrix operands have no denotation in the spec vocabulary)"})

    def right_operand(c, rk):
        if rk == "int":
            return c.arg("right", T.custom(lambda ip, h: SReal(sym.to_real(sym.fresh("k", sym.I)), "int")))
        if rk == "float":
            return c.arg("right", T.real("float"))
        if rk == "ndarray1":
            return c.arg("right", T.seq(T.real("npfloat"), kind="ndarray"))
        if rk == "ndarray2":
            from pyvc.values import SArr
            return c.arg("right", T.custom(lambda ip, h: SArr(sym.fresh("mat", sym.RealMat), shape=(sym.fresh("r", sym.I), sym.fresh("c", sym.I)))))
        if rk == "str":
            return c.arg("right", T.const("oops"))
        return c.arg("right", T.obj(rk, exact=True))

    @reg.contract(f"{VE}:_vector_binary_op", props=["C11"], cases={"left": VK, "right": RK, "op": OPS})
    def _(c):
        ip = c.ip
        sp = Spec(ip)
        lk, rk, op = c.choose("left", VK), c.choose("right", RK), c.choose("op", OPS)
        left = c.arg("left", T.obj(lk, exact=True) if lk else None)
        right = right_operand(c, rk) if c.verifying else c.arg("right")
        opv = c.arg("op", T.const(op) if op else None)
        if not isinstance(opv, str):
            raise Unsupported("_vector_binary_op with a symbolic operator")
        lv = sp.ref(left)
        register_vector(sp, lv, None, sp.E, sp.PV)
        n = VLEN(lv)
        c.requires(vec_wf(sp, lv), name="well-formed left vector")
        rlen, relem, bad = None, None, None
        if isinstance(right, (Obj, Opaque)):
            rv_ = sp.ref(right)
            register_vector(sp, rv_, None, sp.E, sp.PV)
            c.requires(vec_wf(sp, rv_), name="well-formed right vector")
            rlen = VLEN(rv_)
            relem = lambda k: DENV(rv_, k, sp.E, sp.PV)
        elif isinstance(right, SSeq):
            rlen = ip.models.len_term(right.n)
            relem = lambda k: real_term(right.get(k))
        elif isinstance(right, (SReal, SInt, int, float)):
            relem = lambda k: real_term(right)
        elif hasattr(right, "shape") and getattr(right, "shape", None) is not None:
            bad = "WrongDimensionalityError"
        else:
            bad = "InvalidOperationError"
        if bad:
            c.raises(bad, when=None, name="operand that is not a scalar, a vector or a 1-D array is rejected")
            c.ensures("unreachable", lambda res: z3.BoolVal(False))
            return
        if rlen is not None:
            c.raises("DimensionMismatchError", when=rlen != n, name="operands of different length are rejected")
        lelem = lambda k: DENV(lv, k, sp.E, sp.PV)
        dom_ok = (lambda k: relem(k) != 0) if opv == "/" else (lambda k: z3.BoolVal(True))
        spec_k = lambda k: combine(ip, opv, lelem(k), relem(k))
        if not c.verifying:
            c.returns(lambda cc: promised_vector(sp, n, spec_k, dom_ok))
            return
        c.returns(T.obj("VectorExpression", exact=True))
        c.ensures("element-wise", lambda res: result_goals(c, sp, res, n, spec_k, dom_ok))

    # ---- operator methods
    def method(cls, name, op, kinds, swapped=False, unary=False):
        key = f"{VE}:{cls}.{name}"
        if key not in src.funcs:
            return

        @reg.contract(key, props=["C11"], cases={"other": kinds} if kinds else {})
        def _(c):
            ip = c.ip
            sp = Spec(ip)
            x = c.arg("self", T.obj(cls, exact=True))
            xv = sp.ref(x)
            register_vector(sp, xv, None, sp.E, sp.PV)
            n = VLEN(xv)
            c.requires(vec_wf(sp, xv), name="well-formed vector")
            xe = lambda k: DENV(xv, k, sp.E, sp.PV)
            if unary:
                c.returns(T.obj("VectorExpression", exact=True))
                c.ensures("element-wise", lambda res: result_goals(c, sp, res, n, lambda k: -xe(k), lambda k: z3.BoolVal(True)))
                return
            ok = c.choose("other", kinds)
            other = right_operand_named(c, ok, "other") if c.verifying else c.arg("other")
            rlen = None
            if isinstance(other, (Obj, Opaque)):
                ov = sp.ref(other)
                register_vector(sp, ov, None, sp.E, sp.PV)
                c.requires(vec_wf(sp, ov), name="well-formed operand")
                rlen = VLEN(ov)
                oe = lambda k: DENV(ov, k, sp.E, sp.PV)
            elif isinstance(other, SSeq):
                rlen = ip.models.len_term(other.n)
                oe = lambda k: real_term(other.get(k))
            else:
                oe = lambda k: real_term(other)
            if rlen is not None:
                c.raises("DimensionMismatchError", when=rlen != n, name="operands of different length are rejected")
            c.returns(T.obj("VectorExpression", exact=True))
            a, b = (oe, xe) if swapped else (xe, oe)
            dom_ok = (lambda k: b(k) != 0) if op == "/" else (lambda k: z3.BoolVal(True))
            c.ensures("element-wise, operands in the written order",
                      lambda res: result_goals(c, sp, res, n, lambda k: combine(ip, op, a(k), b(k)), dom_ok))

    def right_operand_named(c, rk, name):
        if rk == "int":
            return c.arg(name, T.custom(lambda ip, h: SReal(sym.to_real(sym.fresh("k", sym.I)), "int")))
        if rk == "float":
            return c.arg(name, T.real("float"))
        if rk == "ndarray1":
            return c.arg(name, T.seq(T.real("npfloat"), kind="ndarray"))
        return c.arg(name, T.obj(rk, exact=True))

    reg.mark_inline(f"{VE}:_vector_reflected_op")        # present after the D21 repair: executed as written
    FULL = ["int", "float", "VectorVariable", "VectorExpression", "ndarray1"]
    SCAL = ["int", "float"]
    for cls in VK:
        method(cls, "__add__", "+", FULL)
        method(cls, "__radd__", "+", SCAL, swapped=True)
        method(cls, "__sub__", "-", FULL)
        method(cls, "__rsub__", "-", SCAL + ["ndarray1"], swapped=True)
        method(cls, "__mul__", "*", FULL)
        method(cls, "__rmul__", "*", SCAL, swapped=True)
        method(cls, "__truediv__", "/", FULL)
        method(cls, "__rtruediv__", "/", SCAL + ["ndarray1"], swapped=True)
        method(cls, "__neg__", None, None, unary=True)
    method("VectorExpression", "__pow__", "**", SCAL)
