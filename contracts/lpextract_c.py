"""Contracts for LinearProgramExtractor (C05; C06/C08 depend on it): extract_objective, extract_constraints, extract_bounds and
extract are verified against the property statement

    forall x:  c.x + f(0) = f(x);   for every constraint k (expr_k sense_k 0):
        sense <=:  A_ub[r].x - b_ub[r] =  expr_k(x)        sense >=:  A_ub[r].x - b_ub[r] = -expr_k(x)
        sense ==:  A_eq[r].x - b_eq[r] =  expr_k(x)
    and every row of A_ub / A_eq is the row of exactly one constraint of that sense (nothing dropped, nothing invented);
    column i is LP.variables[i]; LP.bounds[i] = (lb_i, ub_i).

The row lists are built by a *filter* (one loop, a row appended to the inequality or the equality list depending on the sense):
r = cnt(k), the number of constraints of that block before k (seqtheory.filter_count, pyvc.contracts.FilterListSpec).

What stays assumed: Constraint.sense is one of <=, >=, == (established by Constraint.__post_init__, proved under C10; the field
is assumed not to be reassigned afterwards); variable lists have distinct names (established by Problem.variables, C16); and the
apply-mode view of `extract` (contracts/solvers_c.py) keeps naming the arrays through LP_* functions of an abstract reference.
"""
from __future__ import annotations

import z3

from pyvc import sym
from pyvc.contracts import T, ListSpec, FilterListSpec
from pyvc.values import (Obj, Opaque, PList, SArr, SBool, SInt, SName, SOpt, SReal, SSeq, Unsupported, real_term, num_term)

from .specfns import Spec, NODIV0
from .problem_c import PState, st, NM, NAMES_OF, NATSORTED, DISTINCT, varlist_base

AN = "optyx.analysis"
LPX = f"{AN}:LinearProgramExtractor."
SENSES = ("<=", ">=", "==")


def install(reg, src):
    from .compiler_c import NV, IDXS, DOMOF
    from .seqtheory import named_forall, skolem, seqs, _once, define_array, filter_count
    L = reg.lp
    DOT, ZENV, point, INJ = L["DOT"], L["ZENV"], L["point"], L["INJ"]
    FN = sym.fn("F_name", sym.Ref, sym.Name)
    H = reg.lpx_helpers

    reg.assumption("C05: Constraint.sense is one of '<=', '>=', '==' for every constraint of a problem (checked by "
                   "Constraint.__post_init__, proved under C10; the field is assumed not to be reassigned afterwards)")
    reg.assumption("C05: the index map {v.name: i} of a list of Variables with distinct names is injective on its keys "
                   "(lean: idx_inj)")

    def EXPR(sp):
        return sp.S.F("expr", sym.Ref)

    def SENSE(sp):
        return sp.S.F("sense", sym.Name)

    def con_expr(sp, s0, k):
        return Opaque(EXPR(sp)(z3.Select(s0.cons, k)), "Expression")

    def con_sense(sp, s0, k):
        return SENSE(sp)(z3.Select(s0.cons, k))

    def model_pre(c, sp, P, s0, need_obj):
        """Well-formedness of the model every extraction routine relies on (A7; class invariant of Constraint)."""
        ip = c.ip
        nd_all = named_forall(ip, "CONND0", [s0.cons], s0.ncon, lambda k: NODIV0(EXPR(sp)(z3.Select(s0.cons, k))))
        sn_all = named_forall(ip, "CONSENSE", [s0.cons], s0.ncon,
                              lambda k: z3.Or(*[con_sense(sp, s0, k) == sym.lit(x) for x in SENSES]))
        c.requires(nd_all(s0.ncon), name="no constraint divides by the literal constant 0")
        c.requires(sn_all(s0.ncon), name="every constraint has one of the three senses")
        if need_obj:
            c.requires(z3.Implies(z3.Not(s0.obj_none), sp.nodiv0(Opaque(s0.obj, "Expression"))),
                       name="the objective does not divide by the literal constant 0")

    def lpx_pre(c, sp, P, s0):
        model_pre(c, sp, P, s0, need_obj=True)
        varlist_pre(c, sp, P, s0)
    reg.lpx_pre = lpx_pre

    def varlist_pre(c, sp, P, s0):
        """C13 invariant of the variable-list cache (what Problem.variables requires of its callers)."""
        ip = c.ip
        valid = reg.varlist_valid_for(ip, sp, P, s0)
        cache_none = s0.cache_none["_variables"]
        cache_base = z3.Select(st(ip, "Problem._variables", sym.Ref), P.ref)
        c.requires(z3.Implies(z3.Not(cache_none), valid(cache_base)), name="variable-list cache invariant")

    # =========================================================================== extract_bounds
    @reg.contract(f"{LPX}extract_bounds", props=["C05", "C08", "C06"])
    def _(c):
        ip = c.ip
        c.arg("self", T.obj("LinearProgramExtractor", exact=True))
        vs = c.arg("variables", T.seq(T.obj("Variable", exact=True)))
        S = ip.models.as_seq(vs)
        n = ip.models.len_term(S.n)

        def elem(k):
            v = S.get(k)
            return (ip.getattr(v, "lb"), ip.getattr(v, "ub"))

        def same_opt(got, want):
            """got (None | number | Optional) is the declared bound `want` (an Optional number)"""
            if got is None:
                return want.isnone
            if isinstance(got, SOpt):
                return z3.And(got.isnone == want.isnone, z3.Implies(z3.Not(want.isnone), real_term(got.val) == real_term(want.val)))
            if isinstance(got, (SReal, SInt, int, float)):
                return z3.And(z3.Not(want.isnone), real_term(got) == real_term(want.val))
            return z3.BoolVal(False)

        def equal(ip2, appended, k):
            if not (isinstance(appended, tuple) and len(appended) == 2):
                return [z3.BoolVal(False)]
            want = elem(k)
            return [same_opt(appended[0], want[0]), same_opt(appended[1], want[1])]
        if c.verifying:
            c.loop(1, lambda st_: [], havoc={"bounds": ListSpec(elem, equal, "bounds"), "lb": T.opt(T.real("float")),
                                             "ub": T.opt(T.real("float"))})
        out = SSeq(n, elem, "list", "bounds")
        c.returns(lambda cc: out)

        def post(res):
            if not (isinstance(res, SSeq) and res.tag == ("listspec", "bounds")):
                return z3.BoolVal(False)
            return ip.models.len_term(res.n) == n
        if c.verifying:
            c.ensures("one (lb, ub) pair per variable, in order, None where no bound is declared", post)

    # =========================================================================== extract_objective
    @reg.contract(f"{LPX}extract_objective", props=["C05", "C08", "C06"])
    def _(c):
        sp = Spec(c.ip)
        ip = c.ip
        c.arg("self", T.obj("LinearProgramExtractor", exact=True))
        P = c.arg("problem", T.obj("Problem", exact=True))
        ip.path.assume(z3.Select(st(ip, "Problem._constraints!len", sym.I), P.ref) >= 0)
        s0 = PState(ip, P)
        model_pre(c, sp, P, s0, need_obj=True)
        varlist_pre(c, sp, P, s0)
        vbase = varlist_base(s0)
        IDX = sym.fn("IDX_OF", sym.Ref, IDXS)(vbase)
        n = sym.fn("LEN_any", sym.Ref, sym.I)(vbase)
        X = point(ip, IDX)
        obj = Opaque(s0.obj, "Expression")
        c.raises("NoObjectiveError", when=s0.obj_none, name="raises NoObjectiveError iff no objective")
        c.raises("NonLinearError", when=None)
        if c.verifying:
            ip.path.assume(INJ(IDX))                                # lean: idx_inj (distinct names: Problem.variables)
            reg.covers_from_occ(sp, obj, NAMES_OF(vbase))
        else:
            H["havoc_varcache"](ip, P)
        c_arr = sym.fresh("objrow", sym.RealArr)
        vs_out = ip.schema.seq_of_base(ip, vbase, "Variable")
        sense_out = SName(z3.If(s0.sense == sym.lit("minimize"), sym.lit("min"), sym.lit("max")))
        c.returns(lambda cc: (SArr(c_arr, n=n), sense_out, vs_out))

        def post(res):
            if not (isinstance(res, tuple) and len(res) == 3):
                return z3.BoolVal(False)
            cv, sense, vs = res
            goals = []
            cs = ip.models.as_seq(cv)
            if isinstance(cv, SArr):
                arr = cv.arr
            else:
                arr = sym.fresh("objrow_copy", sym.RealArr)
                define_array(ip, arr, n, lambda k: real_term(cs.get(k)), "code")
            L["dot_update_lemmas"](ip, arr, n, X.arr, X)
            goals.append(ip.models.len_term(cs.n) == n)
            goals.append(DOT(arr, n, X.arr) == sp.den(obj, sp.E, sp.PV) - sp.den(obj, ZENV, sp.PV))
            goals.append(ip.models.name_term(sense) == z3.If(s0.sense == sym.lit("minimize"), sym.lit("min"), sym.lit("max")))
            goals.append(z3.BoolVal(isinstance(vs, SSeq) and bool(vs.tag) and vs.tag[2].eq(vbase)))
            now = PState(ip, P)
            goals.append(now.same_model(s0))
            if not c.verifying:
                reg.assume_varlist_valid(ip, sp, P, s0, vbase)
                ip.path.assume(z3.And(DOMOF(IDX) == NAMES_OF(vbase), NV(IDX) == n))
            return goals
        c.ensures("c.x = f(x) - f(0) at every point; sense; the problem's variable list; model untouched", post)

    # =========================================================================== extract_constraints
    BLOCKS = {"ub": ("<=", ">="), "eq": ("==",)}

    def block_theory(ip, sp, s0, blk):
        keep = lambda k: z3.Or(*[con_sense(sp, s0, k) == sym.lit(x) for x in BLOCKS[blk]])
        cnt, srcf = filter_count(ip, "LPX_" + blk, [s0.cons], s0.ncon, keep)
        return keep, cnt, srcf

    def sign_of(sp, s0, k):
        return z3.If(con_sense(sp, s0, k) == sym.lit(">="), sym.rv(-1), sym.rv(1))

    def row_facts(ip, sp, s0, blk, X, n, keep, cnt, srcf, arr, ln, p):
        """what is known of the coefficient row at list position p of block blk"""
        k = srcf(p)
        ip.reg.index_used(ip, k)
        e = con_expr(sp, s0, k)
        return [k >= 0, k < s0.ncon, keep(k), cnt(k) == p, ln == n,
                DOT(arr, n, X.arr) == sign_of(sp, s0, k) * (sp.den(e, sp.E, sp.PV) - sp.den(e, ZENV, sp.PV))]

    def rhs_facts(ip, sp, s0, blk, keep, cnt, srcf, val, p):
        k = srcf(p)
        ip.reg.index_used(ip, k)
        e = con_expr(sp, s0, k)
        return [k >= 0, k < s0.ncon, keep(k), cnt(k) == p, val == sign_of(sp, s0, k) * (-sp.den(e, ZENV, sp.PV))]

    def array_term(ip, v, n, X):
        """RealArr term of an engine array value + the DOT lemma instances relating it to the coefficient rows of this path"""
        if isinstance(v, SArr) and v.shape is None:
            arr, ln = v.arr, ip.models.len_term(v.n)
        elif isinstance(v, SSeq):
            arr = sym.fresh("rowcopy", sym.RealArr)
            define_array(ip, arr, n, lambda k: real_term(v.get(k)), "code")
            ln = ip.models.len_term(v.n)
        else:
            return None, None
        for b in ip.path.ghost.get("lp_rows", []):
            if b.arr.eq(arr):
                continue
            skn = skolem(ip, "sk_dotneg", n)        # lean: dot_neg
            ip.reg.index_used(ip, skn)
            ip.path.assume(z3.Or(z3.And(skn >= 0, skn < n, z3.Select(arr, skn) != -z3.Select(b.arr, skn)),
                                 DOT(arr, n, X.arr) == -DOT(b.arr, n, X.arr)))
            ske = skolem(ip, "sk_dotext", n)        # lean: dot_ext
            ip.reg.index_used(ip, ske)
            ip.path.assume(z3.Or(z3.And(ske >= 0, ske < n, z3.Select(arr, ske) != z3.Select(b.arr, ske)),
                                 DOT(arr, n, X.arr) == DOT(b.arr, n, X.arr)))
        return arr, ln

    def constraints_view(ip, sp, s0, X, n, blocks=None):
        """The four results promised for the current model: per block an Optional matrix / vector named through fresh arrays,
        plus the filter theory; used by the apply mode and by `extract`."""
        out = {}
        for blk in ("ub", "eq"):
            keep, cnt, srcf = block_theory(ip, sp, s0, blk)
            out[blk] = dict(keep=keep, cnt=cnt, src=srcf)
        return out

    def block_goals(ip, sp, s0, X, n, th, blk, A, b, assume=False):
        """C05 for one block of the returned data: A / b are None (no row) or a matrix / vector.  As goals the two for-all
        statements are checked at Skolem indices; as facts (apply mode) they are instantiated at every index term in use."""
        keep, cnt, srcf = th[blk]["keep"], th[blk]["cnt"], th[blk]["src"]
        rows = cnt(s0.ncon)
        goals = []
        isnoneA = A.isnone if isinstance(A, SOpt) else z3.BoolVal(A is None)
        isnoneb = b.isnone if isinstance(b, SOpt) else z3.BoolVal(b is None)
        Av = A.val if isinstance(A, SOpt) else A
        bv = b.val if isinstance(b, SOpt) else b
        goals.append(z3.And(isnoneA == (rows == 0), isnoneb == (rows == 0)))
        if Av is None or bv is None:
            return goals
        if not (isinstance(Av, SArr) and Av.shape is not None):
            return goals + [z3.BoolVal(False)]
        bs = ip.models.as_seq(bv)
        goals.append(z3.Implies(z3.Not(isnoneA), z3.And(ip.models.len_term(Av.shape[0]) == rows, ip.models.len_term(Av.shape[1]) == n,
                                                        ip.models.len_term(bs.n) == rows)))

        def encoded(kk):
            """(1) constraint kk of the block is encoded by its row"""
            pk = cnt(kk)
            rowk = ip.models.matrix_row(ip, Av, pk)
            e = con_expr(sp, s0, kk)
            return z3.Implies(z3.And(kk >= 0, kk < s0.ncon, keep(kk)),
                              z3.And(z3.Not(isnoneA), pk >= 0, pk < rows,
                                     DOT(rowk, n, X.arr) - real_term(bs.get(pk)) == sign_of(sp, s0, kk) * sp.den(e, sp.E, sp.PV)))

        def encodes(pp):
            """(2) row pp encodes a constraint of the block (nothing invented, no row twice)"""
            rowp = ip.models.matrix_row(ip, Av, pp)
            ks = srcf(pp)
            es = con_expr(sp, s0, ks)
            return z3.Implies(z3.And(z3.Not(isnoneA), pp >= 0, pp < rows),
                              z3.And(ks >= 0, ks < s0.ncon, keep(ks), cnt(ks) == pp,
                                     DOT(rowp, n, X.arr) - real_term(bs.get(pp)) == sign_of(sp, s0, ks) * sp.den(es, sp.E, sp.PV)))
        if assume:
            def pw(k):
                if _once(ip, f"lpxblock:{blk}:{Av.arr}:{k}"):
                    ip.path.assume(encoded(k))
                    ip.path.assume(encodes(k))
            seqs(ip).pointwise.append(pw)
            return goals
        kk = skolem(ip, f"sk_con_{blk}", s0.ncon)
        ip.reg.index_used(ip, kk)
        ip.reg.saturate(ip)
        ip.reg.index_used(ip, cnt(kk))
        pp = skolem(ip, f"sk_row_{blk}", rows)
        ip.reg.index_used(ip, pp)
        ip.reg.saturate(ip)
        ip.reg.index_used(ip, srcf(pp))
        g1, g2 = encoded(kk), encodes(pp)
        ip.reg.saturate(ip)
        return goals + [g1, g2]

    @reg.contract(f"{LPX}extract_constraints", props=["C05", "C08", "C06"])
    def _(c):
        sp = Spec(c.ip)
        ip = c.ip
        c.arg("self", T.obj("LinearProgramExtractor", exact=True))
        P = c.arg("problem", T.obj("Problem", exact=True))
        ip.path.assume(z3.Select(st(ip, "Problem._constraints!len", sym.I), P.ref) >= 0)
        s0 = PState(ip, P)
        vbase = varlist_base(s0)
        if c.verifying:
            vs = c.arg("variables", T.custom(lambda ip_, h: ip_.schema.seq_of_base(ip_, vbase, "Variable")))
        else:
            vs = c.arg("variables")
            if not (isinstance(vs, SSeq) and vs.tag and vs.tag[2].eq(vbase)):
                raise Unsupported("extract_constraints called with a variable list other than problem.variables")
        model_pre(c, sp, P, s0, need_obj=False)
        IDX = sym.fn("IDX_OF", sym.Ref, IDXS)(vbase)
        n = sym.fn("LEN_any", sym.Ref, sym.I)(vbase)
        X = point(ip, IDX)
        NS = NAMES_OF(vbase)
        c.raises("NonLinearError", when=None)
        th = constraints_view(ip, sp, s0, X, n)
        if c.verifying:
            # the list is the problem's variable list (precondition, established by extract_objective): names = mentioned
            # variables, one per name
            reg.assume_varlist_valid(ip, sp, P, s0, vbase)
            ip.path.assume(INJ(IDX))                                # lean: idx_inj
            ip.path.ghost["lp_rows_on"] = True

            def mk_rows(blk):
                keep, cnt, srcf = th[blk]["keep"], th[blk]["cnt"], th[blk]["src"]
                M = sym.fresh(f"rows_{blk}", sym.RealMat)

                def fresh_elem(p):
                    return SArr(z3.Select(M, p), n=n)

                def elem_ok(ip2, v, p):
                    arr, ln = array_term(ip2, v, n, X)
                    if arr is None:
                        return [z3.BoolVal(False)]
                    return row_facts(ip2, sp, s0, blk, X, n, keep, cnt, srcf, arr, ln, p)
                return FilterListSpec(keep, cnt, fresh_elem, elem_ok, f"{blk}_rows", row_len=n)

            def mk_rhs(blk):
                keep, cnt, srcf = th[blk]["keep"], th[blk]["cnt"], th[blk]["src"]
                A = sym.fresh(f"rhs_{blk}", sym.RealArr)

                def fresh_elem(p):
                    return SReal(z3.Select(A, p), "float")

                def elem_ok(ip2, v, p):
                    if not isinstance(v, (SReal, SInt, int, float)):
                        return [z3.BoolVal(False)]
                    return rhs_facts(ip2, sp, s0, blk, keep, cnt, srcf, real_term(v), p)
                return FilterListSpec(keep, cnt, fresh_elem, elem_ok, f"{blk}_rhs")

            def inv(st_):
                # per iteration: the constraint's expression is covered by the index map (bridge from the variable list)
                if st_.i is not None and not isinstance(st_.i, int):
                    reg.covers_from_occ(sp, con_expr(sp, s0, st_.i), NS)
                return []
            c.loop(1, inv, havoc={"ub_rows": mk_rows("ub"), "ub_rhs": mk_rhs("ub"), "eq_rows": mk_rows("eq"), "eq_rhs": mk_rhs("eq"),
                                  "row": T.custom(lambda ip_, h: SArr(sym.fresh("row_hv", sym.RealArr), n=n)),
                                  "rhs": T.real("float")})

        def result(cc):
            out = []
            for blk in ("ub", "eq"):
                cnt = th[blk]["cnt"]
                rows = cnt(s0.ncon)
                M = sym.fresh(f"A_{blk}", sym.RealMat)
                bvec = sym.fresh(f"b_{blk}", sym.RealArr)
                out.append(SOpt(rows == 0, SArr(M, shape=(rows, n))))
                out.append(SOpt(rows == 0, SArr(bvec, n=rows)))
            return tuple(out)
        c.returns(result)

        def post(res):
            if not (isinstance(res, tuple) and len(res) == 4):
                return z3.BoolVal(False)
            goals = []
            goals += block_goals(ip, sp, s0, X, n, th, "ub", res[0], res[1], assume=not c.verifying)
            goals += block_goals(ip, sp, s0, X, n, th, "eq", res[2], res[3], assume=not c.verifying)
            goals.append(PState(ip, P).same_model(s0))
            return goals
        c.ensures("every constraint is encoded by its row / every row encodes a constraint (with sense and sign); model untouched", post)

    # =========================================================================== extract
    old = reg.contracts[f"{LPX}extract"]

    @reg.contract(f"{LPX}extract", props=["C05", "C08", "C06"])
    def _(c):
        if not c.verifying:
            return old.fn(c)
        sp = Spec(c.ip)
        ip = c.ip
        c.arg("self", T.obj("LinearProgramExtractor", exact=True))
        P = c.arg("problem", T.obj("Problem", exact=True))
        ip.path.assume(z3.Select(st(ip, "Problem._constraints!len", sym.I), P.ref) >= 0)
        s0 = PState(ip, P)
        model_pre(c, sp, P, s0, need_obj=True)
        varlist_pre(c, sp, P, s0)
        vbase = varlist_base(s0)
        IDX = sym.fn("IDX_OF", sym.Ref, IDXS)(vbase)
        n = sym.fn("LEN_any", sym.Ref, sym.I)(vbase)
        X = point(ip, IDX)
        obj = Opaque(s0.obj, "Expression")
        th = constraints_view(ip, sp, s0, X, n)
        c.raises("NoObjectiveError", when=s0.obj_none, name="raises NoObjectiveError iff no objective")
        c.raises("NonLinearError", when=None)
        c.returns(T.obj("LPData", exact=True))
        V = ip.schema.seq_of_base(ip, vbase, "Variable")

        def post(res):
            if not (isinstance(res, Obj) and res.cls == "LPData"):
                return z3.BoolVal(False)
            f = res.fields
            goals = []
            cv = f.get("c")
            if not isinstance(cv, SArr):
                return z3.BoolVal(False)
            L["dot_update_lemmas"](ip, cv.arr, n, X.arr, X)
            goals.append(z3.And(ip.models.len_term(cv.n) == n,
                                DOT(cv.arr, n, X.arr) == sp.den(obj, sp.E, sp.PV) - sp.den(obj, ZENV, sp.PV)))
            goals.append(ip.models.name_term(f.get("sense")) == z3.If(s0.sense == sym.lit("minimize"), sym.lit("min"), sym.lit("max")))
            goals += block_goals(ip, sp, s0, X, n, th, "ub", f.get("A_ub"), f.get("b_ub"))
            goals += block_goals(ip, sp, s0, X, n, th, "eq", f.get("A_eq"), f.get("b_eq"))
            # bounds and column names, position by position (IDX is, by definition, the map {name of V_k: k} of the list)
            from .compiler_c import index_map_of_varlist
            index_map_of_varlist(ip, V)
            sk = skolem(ip, "sk_col", n)
            ip.reg.index_used(ip, sk)
            bnds, names = f.get("bounds"), f.get("variables")
            if not (isinstance(bnds, SSeq) and isinstance(names, (SSeq, PList))):
                return goals + [z3.BoolVal(False)]
            names = ip.models.as_seq(names)
            b_ = bnds.get(sk)
            v_ = V.get(sk)
            lb, ub = ip.getattr(v_, "lb"), ip.getattr(v_, "ub")

            def same(got, want):
                if isinstance(got, SOpt):
                    return z3.And(got.isnone == want.isnone, z3.Implies(z3.Not(want.isnone), real_term(got.val) == real_term(want.val)))
                return z3.BoolVal(False)
            ip.reg.saturate(ip)
            goals.append(z3.And(ip.models.len_term(bnds.n) == n, ip.models.len_term(names.n) == n))
            goals.append(z3.Implies(z3.And(sk >= 0, sk < n),
                                    z3.And(same(b_[0], lb), same(b_[1], ub),
                                           ip.models.name_term(names.get(sk)) == FN(v_.ref),
                                           z3.Select(IDX, FN(v_.ref)) == sk)))
            goals.append(PState(ip, P).same_model(s0))
            return goals
        c.ensures("the extracted data denote the model: objective row, constraint rows with sense and sign, bounds, column names", post)
