"""Contracts for optyx.core.expressions / vectors: evaluate() of every kind (C01a), get_variables (C16), operators."""
from __future__ import annotations

import z3

from pyvc import sym
from pyvc.contracts import T
from pyvc.values import SMap, SReal, SInt, real_term, Unsupported

from .specfns import Spec
from .compiler_c import NAMESET, compile_cases

EV_KEYS = {
    "Constant": "optyx.core.expressions:Constant.evaluate", "Variable": "optyx.core.expressions:Variable.evaluate",
    "Parameter": "optyx.core.parameters:Parameter.evaluate", "BinaryOp": "optyx.core.expressions:BinaryOp.evaluate",
    "UnaryOp": "optyx.core.expressions:UnaryOp.evaluate",
}


def values_dict(ip, hint="values"):
    """An arbitrary mapping name -> real number (the point at which evaluate() is called)."""
    ENV = sym.fresh("ENV_" + hint, sym.EnvSort)
    DS = sym.fresh("DOM_" + hint, NAMESET)
    m = SMap(lambda nm: z3.Select(DS, nm), lambda nm: SReal(z3.Select(ENV, nm), "npfloat"), desc="values")
    m.idx = (ENV, DS)
    return m


def install(reg, src):
    from .analysis_c import setup_node
    cases = compile_cases(src)
    by_kind: dict[str, list[str]] = {}
    for cse in cases:
        by_kind.setdefault(cse.split("|")[0].split(":")[0], []).append(cse)

    def eval_contract(c):
        sp = Spec(c.ip)
        case = c.choose("node", [])
        e = setup_node_self(c, sp, case)
        vals = c.arg("values", T.custom(lambda ip, hint: values_dict(ip)))
        if not isinstance(vals, SMap) or vals.idx is None:
            raise Unsupported("evaluate() called with an untracked mapping")
        ENV, DS = vals.idx
        c.decreases(e)
        c.requires(sp.wf(e), name="well-formed scalar expression")
        c.requires(reg.covers(sp, e, DS), name="every variable of the expression has a value")
        c.requires(sp.dom(e, ENV, sp.PV), name="point in the domain of the formula")
        c.returns(T.real("npfloat"))
        c.ensures("value", lambda res: real_term(res) == sp.den(e, ENV, sp.PV))

    def setup_node_self(c, sp, case):
        from .autodiff_c import node_type
        if case is None:
            return c.arg("self", None)
        parts = case.split("|")
        e = c.arg("self", node_type(parts[0]))
        base_kind = parts[0].split(":")[0]
        fixed = {"VectorSum": ("vector", "VectorVariable"), "VectorPowerSum": ("vector", "VectorVariable"),
                 "VectorUnarySum": ("vector", "VectorVariable"), "VectorExpressionSum": ("expression", "VectorExpression")}
        r = sp.ref(e)
        if len(parts) > 1:
            fields = ["left", "right"] if base_kind == "DotProduct" else ["vector"]
            for f, k in zip(fields, parts[1:]):
                v = sp.S.F(f, sym.Ref)(r)
                c.assume(sp.K.is_kind(v, k))
                sp.S.learn_kind(c.ip, v, k)
        elif base_kind in fixed:
            f, k = fixed[base_kind]
            v = sp.S.F(f, sym.Ref)(r)
            c.assume(sp.K.is_kind(v, k))
            sp.S.learn_kind(c.ip, v, k)
        return e

    # virtual contract: dynamic dispatch x.evaluate(values) on an expression of unknown class
    @reg.contract("virtual:Expression.evaluate", props=["C01"], group="eval", rank=0)
    def _(c):
        eval_contract(c)

    for kind, kcases in by_kind.items():
        if kind in ("MatrixSum", "FrobeniusNorm"):
            continue
        ci = src.classes.get(kind)
        if ci is None or "evaluate" not in ci.methods:
            continue
        key = ci.methods["evaluate"].key

        def mk(key=key, kcases=kcases):
            @reg.contract(key, props=["C01"], cases={"node": kcases}, group="eval", rank=1)
            def _(c):
                sp = Spec(c.ip)
                case = c.choose("node", kcases)
                e = setup_node_self(c, sp, case)
                vals = c.arg("values", T.custom(lambda ip, hint: values_dict(ip)))
                ENV, DS = vals.idx
                c.decreases(e)
                c.requires(sp.wf(e), name="well-formed scalar expression")
                c.requires(reg.covers(sp, e, DS), name="every variable of the expression has a value")
                c.requires(sp.dom(e, ENV, sp.PV), name="point in the domain of the formula")
                c.returns(T.real("npfloat"))
                c.ensures("value", lambda res: real_term(res) == sp.den(e, ENV, sp.PV))
        mk()
    reg.mark_inline("optyx.core.vectors:DotProduct._iter_left", "optyx.core.vectors:DotProduct._iter_right",
                    "optyx.core.vectors:L2Norm._iter_vector", "optyx.core.vectors:L1Norm._iter_vector",
                    "optyx.core.vectors:LinearCombination._iter_vector")
    reg.values_dict = values_dict
    install_params(reg, src)


def install_params(reg, src):
    @reg.contract("optyx.core.parameters:Parameter.set", props=["C12"], cases={"value": ["int", "float"]})
    def _(c):
        sp = Spec(c.ip)
        ip = c.ip
        p_ = c.arg("self", T.obj("Parameter", exact=True))
        vk = c.choose("value", [])
        v = c.arg("value", T.custom(lambda ip_, h: SReal(sym.to_real(sym.fresh("v", sym.I)), "int")) if vk == "int" else T.real("float"))
        before = sp.PV
        names_before = {k: t for k, t in ip.path.stores.items()}
        if not c.verifying:
            ip.path.stores["_value"] = z3.Store(before, p_.ref, real_term(v))
        c.returns(T.none())

        def post(res):
            others = [k for k in ip.path.stores if k != "_value" and not ip.path.stores[k].eq(names_before.get(k, ip.path.stores[k]))]
            return [sp.PV == z3.Store(before, p_.ref, real_term(v)), z3.BoolVal(not others)]
        c.ensures("only this parameter's value changes (no cache, no model field, no other parameter)", post)
