"""Bounded stand-in for the declaration side of C18 -- labelled bounded, never counted as proved.

The solver front ends are proved to refuse / warn about every Variable whose *declared domain* is not continuous.  That the
element Variables of a vector or matrix container carry the domain (and bounds) the user declared for the container is a
property of the constructors and view helpers, which are not under contract (matrices.py / views have no denotation in the
spec vocabulary).  Here every container shape is built for every domain and the elements are inspected, including the elements
reached through slices, transposes, rows, columns and diagonals; a strict solve of a tiny linear problem over the container
must raise IntegerVariableError for the non-continuous domains.

Bounds: domains {continuous, integer, binary} x bounds {none, (0, 5)} x containers {Variable, VectorVariable(3),
MatrixVariable(2x3), MatrixVariable(3x3), MatrixVariable(3x3, symmetric)} x 8 views.
"""
from __future__ import annotations

import json
import sys
import time
import warnings


def main():
    json.loads(sys.stdin.read() or "{}")
    t0 = time.time()
    from optyx import Variable, VectorVariable, MatrixVariable, Problem
    fails, cases = [], 0

    def elements(obj):
        if isinstance(obj, Variable):
            return [obj]
        if hasattr(obj, "_variables"):
            vs = obj._variables
            return [v for row in vs for v in row] if vs and isinstance(vs[0], list) else list(vs)
        return list(obj.get_variables())

    for dom in ("continuous", "integer", "binary"):
        for bnds in (None, (0.0, 5.0)):
            kw = {"domain": dom}
            if bnds and dom != "binary":
                kw.update(lb=bnds[0], ub=bnds[1])
            want_lb, want_ub = (0.0, 1.0) if dom == "binary" else (bnds if bnds else (None, None))
            builders = {
                "Variable": lambda: Variable("s", **kw),
                "VectorVariable(3)": lambda: VectorVariable("v", 3, **kw),
                "MatrixVariable(2x3)": lambda: MatrixVariable("M", 2, 3, **kw),
                "MatrixVariable(3x3)": lambda: MatrixVariable("Q", 3, 3, **kw),
                "MatrixVariable(3x3,symmetric)": lambda: MatrixVariable("S", 3, 3, symmetric=True, **kw),
            }
            for bname, mk in builders.items():
                try:
                    obj = mk()
                except Exception as ex:     # noqa: BLE001
                    fails.append((bname, dom, f"constructor raises {type(ex).__name__}: {ex}"))
                    continue
                views = {"itself": obj}
                if bname.startswith("VectorVariable"):
                    views.update({"[1:]": obj[1:], "[::-1]": obj[::-1], "[0]": obj[0]})
                if bname.startswith("MatrixVariable"):
                    views.update({".T": obj.T, "[0,:]": obj[0, :], "[:,1]": obj[:, 1], "[1,1]": obj[1, 1]})
                    if obj.shape[0] == obj.shape[1]:
                        views["diagonal()"] = obj.diagonal()
                for vname, view in views.items():
                    cases += 1
                    try:
                        els = elements(view)
                    except Exception as ex:     # noqa: BLE001
                        fails.append((bname, dom, f"{vname}: cannot list elements ({type(ex).__name__})"))
                        continue
                    bad = [e.name for e in els if e.domain != dom or e.lb != want_lb or e.ub != want_ub]
                    if bad:
                        e0 = next(e for e in els if e.name == bad[0])
                        fails.append((bname, dom, f"{vname}: element {e0.name} has domain={e0.domain!r} lb={e0.lb} ub={e0.ub}, declared "
                                                  f"domain={dom!r} lb={want_lb} ub={want_ub}"))
                # end to end: a strict solve must not hand a relaxation back silently
                if dom != "continuous" and bnds:
                    cases += 1
                    els = elements(obj)
                    obj_expr = None
                    for e in els:
                        obj_expr = e * 1.5 if obj_expr is None else obj_expr + e * 1.5
                    P = Problem().maximize(obj_expr).subject_to(els[0] <= 2.5)
                    try:
                        with warnings.catch_warnings():
                            warnings.simplefilter("ignore")
                            P.solve(strict=True)
                        fails.append((bname, dom, "solve(strict=True) returned instead of raising IntegerVariableError"))
                    except Exception as ex:     # noqa: BLE001
                        if type(ex).__name__ != "IntegerVariableError":
                            fails.append((bname, dom, f"solve(strict=True) raised {type(ex).__name__}"))
    out, seen = [], set()
    for bname, dom, what in fails:
        sig = f"domain:{bname}:{dom}"
        if sig in seen:
            continue
        seen.add(sig)
        out.append({"signature": sig, "what": f"{bname} declared {dom}: {what}", "job": {"container": bname, "domain": dom}})
    print(json.dumps({"cases": cases, "distinct": cases, "exhaustive": True, "seconds": round(time.time() - t0, 2), "failures": out}))


if __name__ == "__main__":
    main()
