#!/usr/bin/env python3
"""Regenerates MANIFEST.json from the table below (kept in one place so it stays valid)."""
import json

CLAIMED = {
    "C02": dict(
        text="Every branch of the recursive differentiator, every registered vector rule and the six algebraic simplifiers are "
             "symbolically executed from the real source; per node kind/operator the result's denotation is proved equal to the "
             "calculus-table derivative at every regular point (G1) and to the literal Constant 0 when the variable does not occur (G2), "
             "using callee contracts only and the induction hypothesis on strict sub-terms. All inputs, no bound.",
        note="A1 real arithmetic; A5 immutable finite trees; A6 distinct names; spec tables (calculus rules, finite sums) restated in "
             "Lean/Mathlib; _gradient_iterative's traversal and gradient_quadratic_form are bounded/trusted (listed in evidence); "
             "known finding D2 is listed in known_findings.json (D3 repaired, see DESIGN.md 12.4)",
        design="6 C02"),
    "C01": dict(
        text="evaluate() of every scalar kind, _build_evaluator (one obligation per node kind / operator / operand class), "
             "_build_vector_evaluator, _compile_cached and compile_expression are symbolically executed; the closure returned is "
             "beta-reduced on a symbolic point x of symbolic length under an arbitrary injective index map (any permutation, any "
             "superset) and against the parameter store *at call time*, and proved equal to the denotation of the tree; hashing of "
             "the memo key and absence of exceptions are separate obligations.",
        note="A1 (two summation orders are the same real number), A2 NumPy model table, A5, A6; QuadraticForm (nested sums) and the "
             "iterative builder's stack discipline are bounded only; vector-valued ElementwisePower/ElementwiseUnary are outside "
             "'scalar expression'; known finding D2 (D1 repaired)",
        design="6 C01"),
    "C04": dict(
        text="The recursive degree routine, its cached/dispatching wrappers, Expression.degree (memo slot) and is_linear/is_quadratic are "
             "symbolically executed per node kind; a reported degree d is proved to bound a structural degree function whose soundness "
             "against MvPolynomial.totalDegree is the Lean-checked spec table (C, X, +, -, neg, *, ^n, /c, finite sums). Unbounded in tree "
             "size and vector length (loop invariants with prefix folds).",
        note="A1, A5, A7 (no division by a literal 0); the memo slot _degree is written only by Expression.degree (scan); "
             "_compute_degree_iterative's stack discipline is bounded (C15); known finding D24 (D6, D7, D8 repaired)",
        design="6 C04"),
    "C05": dict(
        text="The LP extraction routines (_extract_constant_impl, _extract_all_coefficients_impl with its three accumulation loops, "
             "extract_all_linear_coefficients with its fast paths, _try_extract_fast_binop, extract_constant_term) are proved against the "
             "pointwise statement of the property: for an arbitrary point x under an arbitrary injective index map, "
             "dot(result', x) = dot(result, x) + m*(f(x) - f(0)) and constant = f(0); the ones/coefficients shortcuts need the "
             "permutation-of-a-finite-sum lemma and are proved for every variable order.",
        note="A1, A5, A6, A7; linearity hypothesis is the contract of is_linear (C04) restricted to the syntactic class LP extraction is "
             "specified on; LinearProgramExtractor.extract_objective / extract_constraints (filtered row lists, FilterListSpec) / "
             "extract_bounds / extract are proved against the statement of the property (contracts/lpextract_c.py); native/bounded_lp.py "
             "stays as the end-to-end differential companion; D9, D10, D11, D12, D24 (VectorPowerSum part) repaired; known finding D24 "
             "(vector-valued ElementwisePower accepted as an objective)",
        design="6 C05"),
    "C06": dict(
        text="solve_scipy and solve_lp are symbolically executed for every method class and every outcome of the external solver "
             "(pinned per spec case: raises Exception / BaseException-only, success, failure with each message class / status code); "
             "status OPTIMAL is proved to imply the feasibility-loop invariant (no constraint beyond the code's own tolerance) and the "
             "bounds clause of the external contract; linprog's status map is proved injective.",
        note="A3 external contracts of scipy.optimize.minimize/linprog (result object arbitrary; success+bounds passed => within "
             "bounds; fun = objective(x); linprog success => feasible for the arrays passed); C05 for the LP arrays; "
             "_build_solver_cache, LinearProgramExtractor.extract and the Problem.solve dispatcher are proved; the degree and extraction "
             "contracts the LP path rests on are tagged for this property too; D13 and D14 (bounds post-check) repaired",
        design="6 C06"),
    "C07": dict(
        text="On every returning path of both drivers the reported objective value is proved equal to the objective expression's "
             "denotation at the returned point in the user's orientation, and the values dict is proved to hold exactly one entry "
             "per problem variable at the right position (loop invariant over the variable list).",
        note="A3 (fun = objective callable at x); C01/C05 contracts for the compiled objective / cost vector; Solution.__getitem__ "
             "accessors not yet under contract (listed in evidence); D9, D10, D11, D15 repaired",
        design="6 C07"),
    "C08": dict(
        text="Wiring obligations at the linprog call site of the real solve_lp: cost vector negated iff maximise, A_ub/b_ub/A_eq/b_eq/"
             "bounds passed unchanged exactly when present, method passed through, status map, objective un-negation, LP cache "
             "reuse; together with C05 (data = model) the optyx verdict is that of the LP solver on the model's arrays.",
        note="A3 determinism of linprog on identical arrays; no second formulation is solved (DESIGN.md section 8); "
             "LinearProgramExtractor.extract proved (C05); Problem.solve dispatcher proved (routing by _is_linear_problem, method names)",
        design="6 C08"),
    "C09": dict(
        text="Wiring obligations at the minimize call site of the real solve_scipy for every method class: fun is the sign-adjusted "
             "objective, jac its gradient in variable order (None exactly for derivative-free methods), hess exactly for the Hessian "
             "methods, bounds exactly for the bounds methods, constraints = cached SciPy list, x0/method/tol passed through; "
             "_compute_initial_point proved inside the bounds; _auto_select_method never picks a bounds-only method with constraints.",
        note="convergence clause (raw SciPy converges => optyx OPTIMAL) is assumption A3' (DESIGN.md section 8), not decided; "
             "_build_solver_cache and compile_jacobian (one expression) are proved, compile_hessian is stated + bounded; the default "
             "starting point for explicit +-inf bounds is covered by the bounded stand-in native/bounded_x0.py only (A1); "
             "Problem.solve dispatcher proved (method / strict / keyword forwarding)",
        design="6 C09"),
    "C13": dict(
        text="Data-structure invariant over the four caches: every mutator (minimize, maximize, subject_to, _invalidate_caches, "
             "__init__) is proved to reset all four caches and to change only the intended model field; every filling site "
             "(variables, _is_linear_problem, _lp_cache, _solver_cache) is proved to store what a fresh computation gives for the "
             "current model; drivers leave the model untouched on every exit.",
        note="external bound writes v.lb/v.ub := b (D17) are not yet an obligation; is_linear treated as a deterministic function of "
             "the tree (D20, D23 repaired)",
        design="6 C13"),
    "C16": dict(
        text="get_variables of every node kind (and the virtual contract used for dynamic dispatch), Constraint.get_variables, "
             "get_all_variables and Problem.variables are proved: the returned list has exactly the names occurring in objective and "
             "constraints (membership at an arbitrary name), one entry per name, natural order, on both arms of the shortcut; "
             "get_bounds / n_variables follow that list.",
        note="sorted() modelled (A4); natural order is a predicate established by sorted(key=_natural_sort_key) only; the two worklist "
             "helpers (_try_get_single_vector_source, _get_variables_iterative) are contract-only (bounded: native/bounded_order.py multi-view "
             "models, bounded_twins.py; block lemma for the iterative collector proved); that the sort key orders digit runs "
             "numerically is bounded only (native/bounded_order.py) (D20 repaired)",
        design="6 C16"),
    "C18": dict(
        text="Path obligations in both drivers: on every path reaching the external solver call, not (strict and some non-continuous "
             "variable); without strict a warning whose text is joined from exactly the filtered variable list was emitted before "
             "the call; IntegerVariableError carries exactly those names and is raised only under strict.",
        note="Problem.solve forwards `strict` (dispatcher contract); that containers hand the declared domain to their element Variables "
             "(constructors, views) is covered by the bounded stand-in native/bounded_domain.py only",
        design="6 C18"),
    "C20": dict(
        text="Fault mode: the external solver call may raise an arbitrary exception object (Exception-derived or BaseException-only); "
             "on every exit of solve_scipy warnings.showwarning is proved to be the entry object, no other process-global is "
             "written, the model is untouched and each cache is either untouched or assigned a completely built value; a raised "
             "Exception yields a FAILED Solution.",
        note="faults inside callbacks are faults of the external call (they propagate through it); Problem.solve is proved to write "
             "neither the model nor a cache by itself; source scan: the only sites writing process-global state are solve_scipy "
             "(proved) and increased_recursion_limit (restores in a finally, checked syntactically); a new site is exit 2",
        design="6 C20"),
    "C12": dict(
        text="P1: every closure returned by the compiler is proved against the parameter store at call time (store havocked between "
             "build and call); P2: every gradient-family contract is stated and proved at an arbitrary parameter valuation unrelated "
             "to the store at build time; P3: Parameter is never polynomial for the degree routine; P4: Parameter.set writes only "
             "that parameter's value.",
        note="history quantifier handled by invariant (each operation preserves 'cached artefacts are heap-parametric'); frame clause "
             "'no Parameter's current value is read while the result is built' on every builder function "
             "(contracts/paramframe_c.py), tagged for this property only; the bounded derivative checks change every Parameter "
             "between compilation and evaluation; D16 (two Parameter objects with one name through the compile cache) belongs to C14",
        design="6 C12"),
    "C10": dict(
        text="_make_constraint (all operand kinds), Constraint.evaluate/violation/is_satisfied and the element-wise vector constraint "
             "helper are proved: normalised expression = lhs - rhs, sense kept, violation formula per sense, one constraint per "
             "element in order, size mismatch raises (iff).",
        note="the SciPy constraint dictionaries of _build_solver_cache are proved (type, fun and jac per sense); _matrix_constraint "
             "(nested loops over a NumPy array) is covered by native/bounded_vecmat.py only; NumPy scalar on the left is outside the "
             "class table (bounded)",
        design="6 C10"),
    "C14": dict(
        text="For each @lru_cache function found by the decorator scan a memo-soundness lemma is discharged per key-component kind: "
             "if two keys are equal under the __eq__ methods as written in the source (themselves proved: Variable/Parameter by name, "
             "interior nodes by identity), a result that met the function's proved contract for one key meets it for the other at "
             "every later parameter valuation; memo-key hashability (_hash assigned by __init__) is an obligation of the callers.",
        note="A4 lru_cache semantics; eviction is irrelevant to soundness; overriding __eq__ methods are executed and must identify only "
             "trees with one denotation; source scan: every memoised function has its lemma and no function writes a module- or "
             "class-level container (a table keyed by id() or a bare name is a violation, any other new table exit 2); D16 repaired: "
             "'a Parameter root is never memoised' is now a call-site precondition of _compile_cached; D1 repaired",
        design="6 C14"),
    "C03": dict(
        text="Row contract ROW(e, V): every entry k of a Jacobian row is a well-formed tree whose value at every regular point is "
             "d[[e]]/dV[k], with no variable that e lacks. Proved by symbolic execution of the real code for the jacobian_row "
             "overrides of BinaryOp, VectorSum, DotProduct, LinearCombination, VectorPowerSum and VectorUnarySum (dicts keyed by "
             "Variables and the append loops are given position-function / list specifications), for compute_jacobian (1 and 2 "
             "expressions), _is_scaled_variable_pattern (loop invariant), compile_gradient (general path) and compile_jacobian for "
             "a single expression on all four paths (vectorised sums, constant rows, uniformly scaled row, general double loop "
             "inside the returned closure). The callable's entry k equals the partial derivative wrt V[k] for any variable list "
             "V (any order, any superset), at every point where e is regular for V[k] and the compiled derivative tree is inside "
             "its domain, at call-time parameter values. All inputs, no bound.",
        note="A1 real arithmetic: outside the domain of a derivative tree NumPy yields inf/nan (C19's subject), so the domain "
             "hypothesis DOMD/DOMJ is part of 'regular point'; A6 distinct names inside a vector; variable lists with distinct "
             "names. Stated but not proved (bounded stand-in native/bounded_jacobian.py, never counted as proved): "
             "QuadraticForm.jacobian_row, MatrixSum.jacobian_row, _compile_vectorized_power_gradient, "
             "_compile_vectorized_unary_gradient, compile_jacobian for 2+ expressions (pool x 6+ variable lists -- every arrangement "
             "of the variables for the index-array fast paths -- x 2 points, mixed constant / non-constant lists, Parameters changed "
             "after compilation); D4 repaired with proof, D5 repaired with bounded evidence; lemmas covers<->occ are in the Lean table",
        design="6 C03"),
    "C11": dict(
        text="Vector part: _vector_binary_op is symbolically executed for every operand class (scalar, VectorVariable, "
             "VectorExpression, 1-D array, 2-D array, other) and operator: the result has one element per element of the left "
             "operand, element k denotes [[l_k]] op [[r_k]], operands of different length raise DimensionMismatchError, arrays "
             "that are not 1-D and foreign operands are rejected. Every arithmetic operator method of VectorVariable and "
             "VectorExpression (+, -, *, /, ** and the reflected forms, with scalars, vectors and 1-D arrays, unary minus) is "
             "proved to produce the element-wise result with the operands in the written order. All lengths, all element trees.",
        note="NOT proved -- covered only by the bounded stand-in native/bounded_vecmat.py (recipes x sizes x shapes compared with "
             "NumPy, never counted as proved): views and slices, MatrixVariable / MatrixExpression and their operators, "
             "transposes, symmetric sharing, trace / diagonal, A @ x, the x.dot(A @ x) rewriting, shape rejection in the matrix "
             "API. Which reflected method NumPy calls for `array op vector` is NumPy's dispatch (assumed: __array_ufunc__ = None "
             "makes NumPy defer). Known finding D22 (element-wise power nodes lack vector operators).",
        design="12.2 / 12.7"),
    "C15": dict(
        text="Every iterative routine shares the contract of its recursive twin (same clauses, same spec functions), so callers "
             "(gradient, compile_expression, compute_degree, get_all_variables) are proved against one contract whichever twin runs, "
             "for every threshold value. Layer 2: for each node kind x phase the real statements of the while-loop body of "
             "_build_evaluator_iterative, _gradient_iterative, _compute_degree_iterative and _get_variables_iterative are executed "
             "symbolically once, with the children's stack entries assumed to meet the twin's contract, and the entry produced must "
             "meet that contract for the node (block lemmas, all inputs). The composition of blocks into a post-order traversal "
             "(stack discipline) is an informal induction stated in DESIGN.md and is covered only by the bounded twin comparison.",
        note="proved: block lemmas per node kind/phase + the recursive twins; bounded (never counted as proved): traversal glue, "
             "checked natively on focus trees of depth<=3 and accumulations of up to 900 terms; _estimate_tree_depth trusted (only "
             "selects between twins with the same contract); RecursionError / interpreter stack depth is not modelled (A8); known "
             "finding D2 (D1, D6, D7, D8, D18, D19 repaired)",
        design="6 C15"),
    "C17": dict(
        text="compute_hessian is symbolically executed (two nested symbolic loops, list specifications for the rows): entry "
             "H[i][j] is proved to be a well-formed tree that equals, wherever the first-pass tree g_i = gradient(e, V[i]) is "
             "regular for V[j], the partial derivative of g_i with respect to V[j], and g_i is proved (C02) to equal "
             "d[[e]]/dV[i] on the regular set of e -- for every variable list (any order, any superset). The differentiator "
             "contracts used for both passes are the ones proved for C02 on all inputs.",
        note="the step from 'derivative of a tree that equals the first derivative on an open set' to 'second partial derivative' "
             "is the analytic fact that functions agreeing on an open set have the same derivative there (stated in DESIGN.md and "
             "the Lean table, not an SMT obligation). compile_hessian (diagonal shortcuts for vectorised sums, upper-triangle "
             "loop with mirroring, sanitiser) is stated but NOT proved: it is covered only by the bounded stand-in "
             "native/bounded_jacobian.py (pool x 6+ variable lists x points, symmetry and second central differences, Parameters changed "
             "after compilation), never "
             "counted as proved; A1 real arithmetic",
        design="6 C17"),
    "C19": dict(
        text="_sanitize_derivatives is proved over an extended-real abstraction of arrays (class finite/NaN/+Inf/-Inf per entry): "
             "every entry finite afterwards, finite entries unchanged, NaN -> 0, +-Inf -> +-1e16; and for every closure returned by "
             "the derivative builders a sound finite-preservation check of the real return expressions shows it is either an "
             "application of the sanitiser or built from its input by finite-preserving operations only.",
        note="A1/A2: IEEE evaluation at singular points and overflow of finite-preserving operations are outside the model; the "
             "closure check is a syntactic abstraction (sound, not complete), not an SMT obligation; 'identical on general and "
             "vectorised paths' additionally relies on C03",
        design="6 C19"),
}

NOT_YET = "check not built yet (work in progress; see DESIGN.md section 6 for the plan)"


def main():
    props = [json.loads(l) for l in open("properties.jsonl")]
    checks = []
    for p in props:
        pid = p["id"]
        if pid not in CLAIMED:
            continue
        c = CLAIMED[pid]
        checks.append({
            "property_id": pid,
            "quick_cmd": f"./check {pid} --tier quick",
            "thorough_cmd": f"./check {pid} --tier thorough",
            "evidence_file": f"/verif/evidence/{pid}.json",
            "replay_cmd_template": f"./check {pid} --replay {{path}}",
            "engine": "pyvc",
            "level_claimed": {"category": "proof", "text": c["text"], "design_ref": "DESIGN.md section " + c["design"]},
            "level_note": c["note"],
            "technique": "contract-based deductive verification: sidecar pre/postconditions and loop invariants on the real functions, "
                         "verification conditions generated from the real ast by symbolic execution (pyvc), discharged by z3/cvc5; "
                         "spec tables re-checked in Lean/Mathlib",
        })
    m = {
        "version": 1,
        "setup_cmd": "./check setup",
        "hooks": {"guard": "OPTYX_VERIF", "enable": "no source hooks; sidecar contracts only (contracts/*.py keyed by module:qualname)",
                  "baseline_off_cmd": "cd /repo && /venv/bin/python -m pytest -q -p no:cacheprovider --timeout=900",
                  "source_commits": [], "add_only": True},
        "engines": [{"name": "pyvc", "path": "/verif/pyvc", "serves_properties": sorted(CLAIMED),
                     "kind_free_text": "home-built VC generator: symbolic executor over the real Python ast + sidecar contracts, "
                                       "z3/cvc5 back ends, Lean/Mathlib for spec tables, native replay under /venv/bin/python"}],
        "checks": checks,
        "notes": "Exit codes: 0 held (KNOWN-FINDING lines allowed), 1 violation, 2 undecided, 3 checker error. See DESIGN.md.",
        "not_applicable": [{"property_id": p["id"], "reason": NOT_YET} for p in props if p["id"] not in CLAIMED],
    }
    json.dump(m, open("MANIFEST.json", "w"), indent=1)


if __name__ == "__main__":
    main()
