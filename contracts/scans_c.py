"""Source scans that close the "function without a contract" gap for two frame properties (synthetic lemmas, re-run on the current
source every time; nothing here executes optyx).

C13  every function that writes a *model* field of a Problem (`_objective`, `_sense`, `_constraints`) is one of the mutators
     under contract (their contracts prove "model updated and all four caches reset").  A new mutator has no contract yet: the
     proof of C13 is incomplete -> exit 2 (never a violation: the new method may well invalidate the caches).
C20  every write to process-global interpreter state (warnings.showwarning / filters, sys.setrecursionlimit, numpy error state,
     os.environ) happens at a site the contracts know: solve_scipy (proved to restore showwarning on every exit) and the
     recursion-limit context manager of autodiff (restored in a `finally`, checked here syntactically).  A new site -> exit 2.
"""
from __future__ import annotations

import ast

import z3

from pyvc.contracts import T

MODEL_FIELDS = ("_objective", "_sense", "_constraints")
MUTATING_METHODS = {"append", "extend", "insert", "remove", "pop", "clear", "sort", "reverse", "__setitem__", "__delitem__"}
GLOBAL_SETTERS = {"sys.setrecursionlimit", "np.seterr", "numpy.seterr", "np.seterrcall", "warnings.simplefilter", "warnings.filterwarnings",
                  "warnings.resetwarnings", "os.putenv", "np.random.seed", "numpy.random.seed", "random.seed", "locale.setlocale"}
SETTER_NAMES = {"setrecursionlimit", "seterr", "seterrcall", "simplefilter", "filterwarnings", "resetwarnings", "putenv", "setlocale",
                "setswitchinterval", "settrace", "setprofile"}
GLOBAL_ATTRS = {"warnings.showwarning", "warnings.formatwarning", "sys.excepthook", "sys.stdout", "sys.stderr"}


def model_writers(src):
    """functions (module:qualname) that assign, delete or mutate a model field of some object (`<x>._objective = ...`,
    `<x>._constraints.append(...)`, `<x>._constraints[i] = ...`)"""
    out = {}
    for key, fi in src.funcs.items():
        hits = []
        for n_ in ast.walk(fi.node):
            tgs = []
            if isinstance(n_, (ast.Assign, ast.Delete)):
                tgs = n_.targets
            elif isinstance(n_, (ast.AugAssign, ast.AnnAssign)):
                tgs = [n_.target]
            for t_ in tgs:
                base = t_.value if isinstance(t_, ast.Subscript) else t_
                if isinstance(base, ast.Attribute) and base.attr in MODEL_FIELDS:
                    hits.append(ast.unparse(t_))
            if isinstance(n_, ast.Call) and isinstance(n_.func, ast.Attribute) and n_.func.attr in MUTATING_METHODS \
                    and isinstance(n_.func.value, ast.Attribute) and n_.func.value.attr in MODEL_FIELDS:
                hits.append(ast.unparse(n_.func))
        if hits:
            # a nested function is reported through its outermost enclosing function
            out.setdefault(key, []).extend(hits)
    return out


def global_writers(src):
    out = {}
    for key, fi in src.funcs.items():
        hits = []
        for n_ in ast.walk(fi.node):
            if isinstance(n_, ast.Call) and (ast.unparse(n_.func) in GLOBAL_SETTERS or (
                    isinstance(n_.func, ast.Attribute) and n_.func.attr in SETTER_NAMES)):      # whatever alias the module has
                hits.append(ast.unparse(n_.func))
            tgs = n_.targets if isinstance(n_, ast.Assign) else [n_.target] if isinstance(n_, (ast.AugAssign, ast.AnnAssign)) else []
            for t_ in tgs:
                txt = ast.unparse(t_.value if isinstance(t_, ast.Subscript) else t_)
                if txt in GLOBAL_ATTRS or txt == "os.environ":
                    hits.append(ast.unparse(t_))
        if hits:
            out[key] = hits
    return out


def restored_in_finally(fi, setter: str) -> bool:
    """the function calls `setter` inside a try body (or before it) and again inside the matching `finally`"""
    for n_ in ast.walk(fi.node):
        if isinstance(n_, ast.Try) and n_.finalbody:
            fin = any(isinstance(c, ast.Call) and ast.unparse(c.func) == setter for s_ in n_.finalbody for c in ast.walk(s_))
            if fin:
                return True
    return False


def install(reg, src):
    KNOWN_MUTATORS = {"optyx.problem:Problem.__init__", "optyx.problem:Problem.minimize", "optyx.problem:Problem.maximize",
                      "optyx.problem:Problem.subject_to"}
    KNOWN_GLOBAL_SITES = {"optyx.solvers.scipy_solver:solve_scipy": "showwarning saved, replaced around the solver call and restored on every "
                                                                    "exit (proved: solve_scipy contract, C20)",
                          "optyx.core.autodiff:increased_recursion_limit": "context manager: limit raised, restored in a finally"}

    @reg.contract("lemma:frame:model-mutators", props=["C13"])
    def _(c):
        c.returns(T.none())
        writers = model_writers(src)

        def on_exit(cc, outcome, val):
            oid = cc.ip.cur_oid
            for key in sorted(KNOWN_MUTATORS):
                cc.path.oblige(oid(f"mutator {key} is under contract"), z3.BoolVal(key in reg.contracts or key.endswith("__init__")), kind="post")
            for key, hits in sorted(writers.items()):
                top = key
                parts = key.split(":")[1].split(".")
                for i in range(len(parts), 0, -1):
                    k2 = key.split(":")[0] + ":" + ".".join(parts[:i])
                    if k2 in KNOWN_MUTATORS:
                        top = k2
                if top in KNOWN_MUTATORS:
                    continue
                cc.path.oblige(oid(f"{key} writes a model field ({', '.join(sorted(set(hits)))[:80]}) and has a contract proving the caches are reset"),
                               z3.BoolVal(False), kind="post", protocol=True,
                               detail="a function that edits the objective / sense / constraints of a Problem outside the mutators under "
                                      "contract: C13 is not proved for it")
        c.on_exit.append(on_exit)

    @reg.contract("lemma:frame:process-global-state", props=["C20"])
    def _(c):
        c.returns(T.none())
        writers = global_writers(src)

        def on_exit(cc, outcome, val):
            oid = cc.ip.cur_oid
            for key, hits in sorted(writers.items()):
                top = key
                parts = key.split(":")[1].split(".")
                for i in range(len(parts), 0, -1):
                    k2 = key.split(":")[0] + ":" + ".".join(parts[:i])
                    if k2 in KNOWN_GLOBAL_SITES:
                        top = k2
                if top in KNOWN_GLOBAL_SITES:
                    if top.endswith("increased_recursion_limit"):
                        fi = src.funcs.get(top)
                        cc.path.oblige(oid("increased_recursion_limit restores the recursion limit in a finally"),
                                       z3.BoolVal(fi is not None and restored_in_finally(fi, "sys.setrecursionlimit")), kind="post")
                    else:
                        cc.path.oblige(oid(f"{top}: known site ({KNOWN_GLOBAL_SITES[top][:60]})"), z3.BoolVal(True), kind="post")
                    continue
                cc.path.oblige(oid(f"{key} writes process-global state ({', '.join(sorted(set(hits)))[:80]}) and is proved to restore it"),
                               z3.BoolVal(False), kind="post", protocol=True,
                               detail="a new site that changes interpreter-wide state: C20 is not proved for it")
            cc.path.oblige(oid("scan of process-global writes ran"), z3.BoolVal(True), kind="post")
        c.on_exit.append(on_exit)
