"""./check setup : offline build step (byte-compile, Lean check of the spec tables, stamp)."""
from __future__ import annotations

import compileall
import hashlib
import os
import subprocess
import sys
import time

ROOT = os.path.dirname(os.path.dirname(os.path.abspath(__file__)))


def lean_check(force=False) -> int:
    spec = os.path.join(ROOT, "spec", "OptyxSpec.lean")
    if not os.path.exists(spec):
        print("setup: no spec/OptyxSpec.lean yet")
        return 0
    os.makedirs(os.path.join(ROOT, "build"), exist_ok=True)
    digest = hashlib.sha256(open(spec, "rb").read()).hexdigest()
    stamp = os.path.join(ROOT, "build", "lean.stamp")
    if not force and os.path.exists(stamp) and open(stamp).read().strip() == digest:
        print("setup: Lean stamp up to date")
        return 0
    t0 = time.time()
    env = dict(os.environ)
    env.setdefault("LEAN_PATH", "/opt/veriftools/mathlib4/.lake/build/lib/lean:" + ":".join(
        os.path.join("/opt/veriftools/mathlib4/.lake/packages", d, ".lake/build/lib/lean")
        for d in sorted(os.listdir("/opt/veriftools/mathlib4/.lake/packages"))) if os.path.isdir("/opt/veriftools/mathlib4/.lake/packages") else "")
    r = subprocess.run(["lean", spec], capture_output=True, text=True, env=env, cwd=os.path.join(ROOT, "spec"))
    out = (r.stdout + r.stderr).strip()
    ok = r.returncode == 0 and "error" not in out
    print(f"setup: lean spec/OptyxSpec.lean -> {'ok' if ok else 'FAILED'} in {time.time() - t0:.0f}s")
    if out:
        print(out[-3000:])
    with open(os.path.join(ROOT, "build", "lean.log"), "w") as f:
        f.write(out)
    if ok:
        open(stamp, "w").write(digest)
        return 0
    return 1


def main() -> int:
    compileall.compile_dir(os.path.join(ROOT, "pyvc"), quiet=1)
    rc = lean_check("--force" in sys.argv)
    return rc


if __name__ == "__main__":
    sys.exit(main())
