"""From a refuted obligation to a replay file (DESIGN.md section 5)."""
from __future__ import annotations

import json
import os
import re
import subprocess

ROOT = os.path.dirname(os.path.dirname(os.path.abspath(__file__)))
VENV_PY = "/venv/bin/python"


def sanitize(s: str) -> str:
    s = s.replace(" / ", "__")
    for a, b in (("**", "pow"), ("*", "mul"), ("/", "div"), (":+", ":add"), (":-", ":sub")):
        s = s.replace(a, b)
    return re.sub(r"[^A-Za-z0-9_.=+-]+", "_", s)[:170]


def match_known(known: list[dict], oid: str, instances) -> dict | None:
    """A refuted obligation is a listed finding only if its id is listed *and* every refuted path instance carries one
    of the listed case signatures (so a different violation of the same clause is still reported)."""
    for k in known:
        if k.get("kind") == "bounded":
            continue
        if oid not in k.get("obligations", []):
            continue
        sigs = k.get("case_signatures")
        if not sigs:
            return k
        ok = True
        for o, _v in instances:
            if not any(all(part in o.path_sig for part in sig) for sig in sigs):
                ok = False
                break
        if ok:
            return k
    return None


class PlainVerdict:
    def __init__(self, o: dict):
        self.verdict = o["verdict"]
        self.solver = o["solver"]
        self.seconds = o["seconds"]
        self.detail = o["detail"]


def match_known_plain(known: list[dict], oid: str, plain: list[dict]) -> dict | None:
    for k in known:
        if k.get("kind") == "bounded":
            continue
        if oid not in k.get("obligations", []) and not any(re.fullmatch(p_, oid) for p_ in k.get("obligation_patterns", [])):
            continue
        sigs = k.get("case_signatures")
        if not sigs:
            return k
        if all(any(all(part in o["path_sig"] for part in sig) for sig in sigs) for o in plain):
            return k
    return None


def write_minimal(prop: str, oid: str, plain: list[dict]) -> str:
    os.makedirs(os.path.join(ROOT, "replays", prop), exist_ok=True)
    path = os.path.join("replays", prop, sanitize(oid) + ".json")
    rec = {"property": prop, "obligation": oid, "path_signatures": [o["path_sig"] for o in plain][:10],
           "solver": plain[0]["solver"], "solver_verdict": "refuted", "goal": plain[0]["goal"], "reproduced": False,
           "note": "no-failing-input-found: obligation refuted by the solver on this tree (no native search attempted for this one)"}
    with open(os.path.join(ROOT, path), "w") as f:
        json.dump(rec, f, indent=1)
    return path


def native(script: str, payload: dict, repo: str, timeout: int = 300) -> dict:
    env = dict(os.environ)
    env["PYTHONPATH"] = os.path.join(repo, "src") + os.pathsep + os.path.join(ROOT, "native")
    env["OPTYX_VERIF"] = "1"
    try:
        out = subprocess.run([VENV_PY, os.path.join(ROOT, "native", script)], input=json.dumps(payload), text=True,
                             capture_output=True, timeout=timeout, env=env, cwd=ROOT)
    except subprocess.TimeoutExpired:
        return {"error": "native timeout"}
    if out.returncode != 0:
        return {"error": out.stderr[-2000:]}
    try:
        return json.loads(out.stdout.strip().splitlines()[-1])
    except Exception as e:
        return {"error": f"unparsable native output: {e}: {out.stdout[-500:]}"}


def make_replay(eng, prop: str, oid: str, instances, repo: str, seed: int) -> dict:
    from .discharge import model_of
    os.makedirs(os.path.join(ROOT, "replays", prop), exist_ok=True)
    path = os.path.join("replays", prop, sanitize(oid) + ".json")
    ob, verdict = instances[0]
    record = {"property": prop, "obligation": oid, "kind": ob.kind, "meta": {k: str(v) for k, v in ob.meta.items()},
              "path_signatures": [o.path_sig for o, _ in instances][:10], "solver": verdict.solver,
              "solver_verdict": verdict.verdict, "goal": str(ob.goal)[:2000]}
    reproduced = False
    func_key = oid.split(" / ")[0]
    conc = eng.reg.concretizers.get(func_key) if hasattr(eng.reg, "concretizers") else None
    model = None
    try:
        model = model_of(ob)
    except Exception as e:  # pragma: no cover
        record["model_error"] = str(e)
    if model is not None:
        record["model"] = str(model)[:6000]
    job = None
    if conc is not None and model is not None:
        try:
            job = conc(eng, ob, model, oid)
        except Exception as e:
            record["concretizer_error"] = repr(e)
    if job is not None:
        res = native("replay_native.py", job, repo)
        record["native_job"] = job
        record["native_result"] = res
        reproduced = bool(res.get("reproduced"))
    if not reproduced:
        search = eng.reg.native_searches.get(func_key) if hasattr(eng.reg, "native_searches") else None
        if search is not None:
            job2 = search(eng, ob, oid, seed)
            if job2 is not None:
                res2 = native("replay_native.py", job2, repo, timeout=600)
                record["native_search_job"] = {k: v for k, v in job2.items() if k != "pool"}
                record["native_search_result"] = res2
                if res2.get("reproduced"):
                    reproduced = True
                    record["native_job"] = res2.get("job", job2)
    record["reproduced"] = reproduced
    if not reproduced:
        record["note"] = ("no-failing-input-found: the obligation discharged on the pinned tree and is refuted by the solver "
                          "on this tree; the counter-model could not be turned into a failing native input")
    with open(os.path.join(ROOT, path), "w") as f:
        json.dump(record, f, indent=1, default=str)
    return {"path": path, "reproduced": reproduced}


def replay_file(prop: str, path: str, repo: str) -> int:
    rec = json.load(open(path if os.path.isabs(path) else os.path.join(ROOT, path)))
    if rec.get("bounded_check"):
        # failure found by a bounded stand-in: run that stand-in again on this tree and look for the same signature
        sig = rec["obligation"].split(" / ", 1)[1] if " / " in rec["obligation"] else ""
        res = native(rec["script"], {"mode": "bounded", "name": rec["bounded_check"], "tier": "quick",
                                     "seed": int(os.environ.get("VERIF_SEED", "0") or 0), "args": rec.get("args", {})}, repo, timeout=900)
        hit = [f for f in res.get("failures", []) if f.get("signature") == sig]
        print(json.dumps(hit or res)[:1500])
        if hit:
            print(f"VIOLATION property={prop} replay={path}")
            return 1
        print("not reproduced on this tree")
        return 0
    job = rec.get("native_job")
    if not job:
        print(f"replay file carries no native input ({rec.get('note', '')}); obligation: {rec['obligation']}")
        print(f"VIOLATION property={prop} replay={path} no-failing-input-found")
        return 1
    res = native("replay_native.py", job, repo)
    print(json.dumps(res)[:1500])
    if res.get("reproduced"):
        print(f"VIOLATION property={prop} replay={path}")
        return 1
    print("not reproduced on this tree")
    return 0
