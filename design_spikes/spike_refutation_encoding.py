import z3, time
R, I = z3.RealSort(), z3.IntSort()
SUM = z3.Function("SUM", I, z3.ArraySort(I, R), R)
coef = z3.Array("coef", I, R); DVe = z3.Array("DV_elem", I, R)
T = z3.Array("T", I, R)      # plain array constant; pointwise definition instantiated where needed
i, n = z3.Ints("i n")
den_res, den_res2, den_d, den_m = z3.Reals("den_res den_res2 den_d den_m")
pc = [0 <= i, i < n, den_res == SUM(i, T), den_d == DVe[i], den_m == coef[0] * den_d,
      den_res2 == den_res + den_m, SUM(i + 1, T) == SUM(i, T) + T[i], T[i] == coef[i] * DVe[i], T[0] == coef[0]*DVe[0]]
for name, mk in [("z3 default", lambda: z3.Solver()), ("z3 QF_AUFNIRA tactic", lambda: z3.Then('simplify','solve-eqs','smt').solver())]:
    s = mk(); s.set("timeout", 10000); s.add(*pc); s.add(den_res2 != SUM(i + 1, T))
    t = time.time(); r = s.check(); print(name, r, f"{(time.time()-t)*1000:.0f} ms")
    if r == z3.sat:
        m = s.model(); print("   i =", m[i], " coef[0] =", m.eval(coef[0]), " coef[i] =", m.eval(coef[i]), " DV[i] =", m.eval(DVe[i]))
# same query to cvc5 via SMT-LIB
s = z3.Solver(); s.add(*pc); s.add(den_res2 != SUM(i + 1, T))
open("q.smt2","w").write("(set-logic ALL)\n(set-option :produce-models true)\n" + s.to_smt2().replace("(check-sat)","(check-sat)\n(get-value (i (select coef 0) (select coef i) (select DV_elem i)))"))
