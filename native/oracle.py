"""Independent concrete reading of the spec vocabulary (runs under /venv/bin/python with the real optyx).

`den` evaluates the mathematical value of an expression tree with `math` only (it never calls optyx's evaluate/compile);
`dnum` differentiates `den` numerically (Richardson-extrapolated central differences).  Used only to *confirm* solver
counterexamples and in bounded stand-ins.
"""
from __future__ import annotations

import math

import numpy as np

UN = {
    "neg": lambda a: -a, "abs": abs, "sin": math.sin, "cos": math.cos, "tan": math.tan, "exp": math.exp,
    "log": math.log, "log2": math.log2, "log10": math.log10, "sqrt": math.sqrt, "tanh": math.tanh, "sinh": math.sinh,
    "cosh": math.cosh, "asin": math.asin, "acos": math.acos, "atan": math.atan, "asinh": math.asinh,
    "acosh": math.acosh, "atanh": math.atanh,
}


class Undefined(Exception):
    pass


def vec_elems(v):
    from optyx.core.vectors import VectorVariable
    return list(v._variables) if isinstance(v, VectorVariable) else list(v._expressions)


def den(e, env):
    """Mathematical value of the formula at env (dict name -> float); Parameters at their current value."""
    from optyx.core.expressions import Constant, Variable, BinaryOp, UnaryOp
    from optyx.core.parameters import Parameter
    from optyx.core import vectors as V
    from optyx.core import matrices as Mx
    try:
        if isinstance(e, Constant):
            return float(e.value)
        if isinstance(e, Parameter):
            return float(e._value)
        if isinstance(e, Variable):
            return float(env[e.name])
        if isinstance(e, BinaryOp):
            a, b = den(e.left, env), den(e.right, env)
            if e.op == "+":
                return a + b
            if e.op == "-":
                return a - b
            if e.op == "*":
                return a * b
            if e.op == "/":
                return a / b
            if e.op == "**":
                r = a ** b
                if isinstance(r, complex):
                    raise Undefined()
                return r
            raise Undefined()
        if isinstance(e, UnaryOp):
            return UN[e.op](den(e.operand, env))
        if isinstance(e, V.VectorSum):
            return math.fsum(den(x, env) for x in vec_elems(e.vector))
        if isinstance(e, V.VectorExpressionSum):
            return math.fsum(den(x, env) for x in e.expression._expressions)
        if isinstance(e, V.DotProduct):
            return math.fsum(den(a, env) * den(b, env) for a, b in zip(vec_elems(e.left), vec_elems(e.right)))
        if isinstance(e, V.L2Norm):
            return math.sqrt(math.fsum(den(x, env) ** 2 for x in vec_elems(e.vector)))
        if isinstance(e, V.L1Norm):
            return math.fsum(abs(den(x, env)) for x in vec_elems(e.vector))
        if isinstance(e, V.LinearCombination):
            return math.fsum(float(c) * den(x, env) for c, x in zip(e.coefficients, vec_elems(e.vector)))
        if isinstance(e, V.VectorPowerSum):
            out = 0.0
            for x in e.vector._variables:
                r = den(x, env) ** e.power
                if isinstance(r, complex):
                    raise Undefined()
                out += r
            return out
        if isinstance(e, V.VectorUnarySum):
            return math.fsum(UN[e.op](den(x, env)) for x in e.vector._variables)
        if isinstance(e, Mx.QuadraticForm):
            xs = [den(x, env) for x in vec_elems(e.vector)]
            Q = np.asarray(e.matrix, dtype=float)
            return float(sum(xs[i] * Q[i, j] * xs[j] for i in range(len(xs)) for j in range(len(xs))))
        if isinstance(e, Mx.MatrixSum):
            return math.fsum(den(x, env) for x in mat_elems(e.matrix))
        if isinstance(e, Mx.FrobeniusNorm):
            return math.sqrt(math.fsum(den(x, env) ** 2 for x in mat_elems(e.matrix)))
    except (ValueError, ZeroDivisionError, OverflowError):
        raise Undefined()
    raise Undefined()


def mat_elems(m):
    from optyx.core.matrices import MatrixVariable
    if isinstance(m, MatrixVariable):
        return [m[i, j] for i in range(m.rows) for j in range(m.cols)]
    return [x for row in m._expressions for x in row]


def variables_of(e):
    """Syntactic variable names (independent walk)."""
    from optyx.core.expressions import Constant, Variable, BinaryOp, UnaryOp
    from optyx.core.parameters import Parameter
    from optyx.core import vectors as V
    from optyx.core import matrices as Mx
    if isinstance(e, (Constant, Parameter)):
        return set()
    if isinstance(e, Variable):
        return {e.name}
    if isinstance(e, BinaryOp):
        return variables_of(e.left) | variables_of(e.right)
    if isinstance(e, UnaryOp):
        return variables_of(e.operand)
    out = set()
    for f in ("vector", "expression", "left", "right", "matrix"):
        v = getattr(e, f, None)
        if v is None or isinstance(v, np.ndarray):
            continue
        if isinstance(v, (V.VectorVariable, V.VectorExpression)):
            for x in vec_elems(v):
                out |= variables_of(x)
        elif isinstance(v, (Mx.MatrixVariable, Mx.MatrixExpression)):
            for x in mat_elems(v):
                out |= variables_of(x)
    return out


def dnum(e, name, env, h0=1e-3):
    """d den / d name at env by Richardson extrapolation; raises Undefined near singularities."""
    def f(t):
        env2 = dict(env)
        env2[name] = t
        return den(e, env2)
    x = float(env.get(name, 0.0))
    h = h0 * max(1.0, abs(x))
    d1 = (f(x + h) - f(x - h)) / (2 * h)
    d2 = (f(x + h / 2) - f(x - h / 2)) / h
    d4 = (f(x + h / 4) - f(x - h / 4)) / (h / 2)
    r1 = (4 * d2 - d1) / 3
    r2 = (4 * d4 - d2) / 3
    best = (16 * r2 - r1) / 15
    if not math.isfinite(best) or abs(r2 - r1) > 1e-5 * max(1.0, abs(best)):
        raise Undefined()
    return best


def close(a, b, tol=1e-6):
    return abs(a - b) <= tol * max(1.0, abs(a), abs(b))


def poly_degree_at_most(e, d, names, rng, trials=6):
    """(d+1)-th finite difference of t -> den(e, p + t q) vanishes along random lines  <=>  degree <= d (probabilistic)."""
    for _ in range(trials):
        p = {n: rng.uniform(-2, 2) for n in names}
        q = {n: rng.uniform(-1, 1) for n in names}
        vals = []
        try:
            for k in range(d + 2):
                vals.append(den(e, {n: p[n] + k * q[n] for n in names}))
        except Undefined:
            return False
        diff = vals
        for _k in range(d + 1):
            diff = [diff[i + 1] - diff[i] for i in range(len(diff) - 1)]
        scale = max(1.0, max(abs(v) for v in vals))
        if abs(diff[0]) > 1e-7 * scale * (2 ** (d + 1)):
            return False
    return True
