"""Bounded stand-in for the default starting point (C09) over the bound classes the real-arithmetic model cannot express.

`_compute_initial_point` is proved for declared bounds that are real numbers or None ("one finite entry per variable, inside
its bounds").  Python floats also include +-inf, which SciPy treats as "no bound" and which users do write (`lb=-np.inf`):
those classes are outside the model (A1) and are enumerated here.  The routine works variable by variable, so every pair
(lb class, ub class) is covered for lists of one and of two variables (the second list catches index mix-ups):

    lb in {None, -inf, -3, 0, 2}      ub in {None, +inf, -1, 0, 2, 5}      (lb <= ub whenever both are finite)

Checked: the point is finite and lies inside the declared bounds (an infinite or missing bound constrains nothing).
Bound: exhaustive over these 2 x 30 x 30 lists; nothing is claimed for other magnitudes.
"""
from __future__ import annotations

import itertools
import json
import math
import sys
import time

INF = float("inf")
LBS = [None, -INF, -3.0, 0.0, 2.0]
UBS = [None, INF, -1.0, 0.0, 2.0, 5.0]


def pairs():
    out = []
    for lb in LBS:
        for ub in UBS:
            if lb is not None and ub is not None and math.isfinite(lb) and math.isfinite(ub) and lb > ub:
                continue
            out.append((lb, ub))
    return out


def main():
    job = json.loads(sys.stdin.read())
    t0 = time.time()
    from optyx import Variable
    from optyx.solvers.scipy_solver import _compute_initial_point
    P = pairs()
    fails, cases = [], 0
    lists = [[p] for p in P] + [list(q) for q in itertools.product(P, repeat=2)]
    for bl in lists:
        vs = [Variable(f"v{i}", lb=lb, ub=ub) for i, (lb, ub) in enumerate(bl)]
        cases += 1
        try:
            x0 = _compute_initial_point(vs)
        except Exception as ex:     # noqa: BLE001
            fails.append((bl, f"raises {type(ex).__name__}: {ex}"))
            continue
        if len(x0) != len(vs):
            fails.append((bl, f"length {len(x0)}"))
            continue
        for (lb, ub), x in zip(bl, x0):
            x = float(x)
            ok = math.isfinite(x) and (lb is None or not math.isfinite(lb) or x >= lb) and (ub is None or not math.isfinite(ub) or x <= ub)
            if not ok:
                fails.append((bl, f"entry {x} for bounds ({lb}, {ub})"))
                break
    out, seen = [], set()
    for bl, what in fails:
        sig = "x0:" + ";".join(f"{lb},{ub}" for lb, ub in bl[:1])       # one finding per class of the first variable
        if sig in seen:
            continue
        seen.add(sig)
        out.append({"signature": sig, "what": f"_compute_initial_point for bounds {bl}: {what}", "job": {"bounds": [[str(a), str(b)] for a, b in bl]}})
    print(json.dumps({"cases": cases, "distinct": len(P), "exhaustive": True, "seconds": round(time.time() - t0, 2), "failures": out}))


if __name__ == "__main__":
    main()
