#!/usr/bin/env python3
"""Run the registered checks against every kept seeded change (seeded/<name>/patch.diff) and record what each reports.
Each patch is applied to /repo, the property's check is run, and /repo is restored (git checkout -- .) straight afterwards."""
import json
import os
import subprocess
import os as _os
_os.environ.setdefault('VERIF_ITEM_S', '420')     # seeded trees may make single work items very slow
import sys

ROOT = "/verif"
names = sys.argv[1:] or sorted(os.listdir(os.path.join(ROOT, "seeded")))
sp_ = os.path.join(ROOT, "seeded", "SUMMARY.json")
summary = json.load(open(sp_)) if os.path.exists(sp_) and sys.argv[1:] else {}
for name in names:
    d = os.path.join(ROOT, "seeded", name)
    meta_p = os.path.join(d, "meta.json")
    if not os.path.exists(os.path.join(d, "patch.diff")):
        continue
    meta = json.load(open(meta_p)) if os.path.exists(meta_p) else {}
    prop = meta.get("property") or name.split("-")[0]
    a = subprocess.run(["git", "-C", "/repo", "apply", os.path.join(d, "patch.diff")], capture_output=True, text=True)
    if a.returncode != 0:
        print(name, "patch does not apply:", a.stderr.strip()[:200])
        continue
    # EVIDENCE_KEEP: the evidence file describes the unchanged tree; a run on a seeded tree must not replace it
    evp = os.path.join(ROOT, "evidence", f"{prop}.json")
    saved = open(evp).read() if os.path.exists(evp) else None
    try:
        chk = subprocess.run(["./check", prop] if "--no-bounded" not in os.environ.get("SEED_FLAGS", "") else ["./check", prop, "--no-bounded"],
                             cwd=ROOT, capture_output=True, text=True)
    finally:
        subprocess.run(["git", "-C", "/repo", "checkout", "--", "."])
        if saved is not None:
            open(evp, "w").write(saved)
    lines = [l for l in chk.stdout.splitlines() if l.startswith(("VIOLATION", "UNDECIDED", prop + ":", "ENGINE", "CRASH", "BOUNDED"))]
    verdict = {0: "missed", 1: "detected", 2: "undecided (exit 2, not silent)", 3: "checker error"}.get(chk.returncode, str(chk.returncode))
    meta["check"] = {"cmd": f"./check {prop}", "exit": chk.returncode, "verdict": verdict, "lines": lines[:6] + lines[-2:]}
    meta["detected"] = chk.returncode == 1
    json.dump(meta, open(meta_p, "w"), indent=1)
    summary[name] = verdict
    print(f"{name:42s} {verdict}   {lines[-1] if lines else ''}"[:200])
json.dump(summary, open(os.path.join(ROOT, "seeded", "SUMMARY.json"), "w"), indent=1)
