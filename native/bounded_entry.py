"""Bounded stand-in for the dict-input entry point of the compiler (C01) -- labelled bounded, never counted as proved.

`compile_to_dict_function(expr, V)` wraps the proved `compile_expression(expr, V)`: the values are looked up by name and put
into an array in the order of V.  The wrapper is four lines and has no contract; what matters is that the result does not
depend on the *order* or the *surplus* of the dictionary.  For every expression of the focus pool, three variable lists (own
order, reversed, superset) and five dictionaries holding the same values (insertion order = V, reversed, seeded shuffle, with an
extra key in front, with an extra key at the end) the result is compared with an independent evaluator.

Bounds: the focus pool (~120 expressions), 3 variable lists, 5 dictionaries, 1 point.
"""
from __future__ import annotations

import json
import math
import random
import sys
import time

import build as B
import oracle as O
from bounded_twins import focus_pool, ENVS


def main():
    job = json.loads(sys.stdin.read())
    rng = random.Random(job.get("seed", 0) + 11)
    t0 = time.time()
    from optyx.core.compiler import compile_to_dict_function
    fails, cases = [], 0
    env0 = dict(ENVS[0])
    for fname, rc in focus_pool():
        try:
            e = B.build(rc)
            names = sorted(O.variables_of(e)) or ["x"]
            objs = {v.name: v for v in e.get_variables()}
        except Exception:       # noqa: BLE001
            continue
        mk = lambda n: objs.get(n) or B.build({"cls": "Variable", "name": n})
        base = [mk(n) for n in names]
        env = {n: env0.get(n, 0.25 + 0.5 * i) for i, n in enumerate(names + ["u1", "u2"])}
        try:
            want = O.den(e, env)
        except Exception:       # noqa: BLE001
            continue
        if not math.isfinite(want):
            continue
        for lname, V in (("own", base), ("reversed", list(reversed(base))), ("superset", [mk("u1")] + list(reversed(base)) + [mk("u2")])):
            try:
                f = compile_to_dict_function(e, V)
            except Exception:   # noqa: BLE001
                continue
            vn = [v.name for v in V]
            shuf = list(vn)
            rng.shuffle(shuf)
            dicts = {"V order": {n: env[n] for n in vn}, "reversed": {n: env[n] for n in reversed(vn)},
                     "shuffled": {n: env[n] for n in shuf},
                     "extra key first": dict([("zz_unused", 99.0)] + [(n, env[n]) for n in reversed(vn)]),
                     "extra key last": dict([(n, env[n]) for n in shuf] + [("zz_unused", -7.0)])}
            for dname, d in dicts.items():
                cases += 1
                try:
                    got = float(f(d))
                except Exception as ex:     # noqa: BLE001
                    fails.append((fname, lname, dname, f"raises {type(ex).__name__}: {ex}"))
                    continue
                if not (math.isfinite(got) and abs(got - want) <= 1e-9 * max(1.0, abs(want))):
                    fails.append((fname, lname, dname, f"{got} instead of {want}"))
    out, seen = [], set()
    for fname, lname, dname, what in fails:
        sig = f"dictfn:{dname}"
        if sig in seen:
            continue
        seen.add(sig)
        out.append({"signature": sig, "what": f"compile_to_dict_function on {fname} ({lname} variable list, dictionary in {dname} order): {what}",
                    "job": {"focus": fname, "list": lname, "dict": dname}})
    print(json.dumps({"cases": cases, "distinct": cases, "exhaustive": False, "seconds": round(time.time() - t0, 2), "failures": out}))


if __name__ == "__main__":
    main()
