"""C03, part 1: the per-node Jacobian rows and compute_jacobian.

ROW(e, V, row):   row is None,  or  row is a sequence with one entry per variable of V and, for every position k,
                  entry k is a well-formed scalar expression whose value at every regular point is the true partial
                  derivative of e with respect to V[k]                                                  (G1 of C02, per column)

Every `jacobian_row` override is symbolically executed against ROW; compute_jacobian is proved to return rows meeting ROW
for each expression, whichever of jacobian_row / gradient produced them.
"""
from __future__ import annotations

import z3

from pyvc import sym
from pyvc.contracts import T, ListSpec, DictSpec
from pyvc.values import Obj, Opaque, PList, SInt, SMap, SOpt, SReal, SSeq, SpecFn, Unsupported, real_term

from .autodiff_c import Spec, node_type, BINARY_OPS
from .seqtheory import (OCCV, VLEN, ELEMV, register_vector, skolem, keyed_map, index_used)
from .vecspec import FV

AD = "optyx.core.autodiff"
EX = "optyx.core.expressions"
VE = "optyx.core.vectors"
MX = "optyx.core.matrices"
FN = sym.fn("F_name", sym.Ref, sym.Name)
ROWELEM = sym.fn("ROWELEM", sym.Ref, sym.I, sym.Ref)


def varlist(c, name="variables"):
    vs = c.arg(name, T.seq(T.obj("Variable", exact=True)))
    if not isinstance(vs, SSeq):
        raise Unsupported("jacobian_row with a concrete variable list (contracts are stated for the symbolic list)")
    return vs


DOMJ = sym.fn("DOMJ", sym.Ref, sym.Name, sym.EnvSort, sym.PVSort, sym.B)    # the Jacobian entry built for (e, w) is in-domain


def entry_ok(sp, e, wk, elem):
    """What one row entry must satisfy (column of variable name wk): G1, well-formedness, and no variable that e lacks."""
    from .problem_c import NM
    nm = NM(sp.ip)
    return [z3.Implies(sp.reg(e, wk, sp.E, sp.PVX), sp.den(elem, sp.E, sp.PVX) == sp.dv(e, wk, sp.E, sp.PVX)), sp.wf(elem),
            z3.Implies(sp.occ(elem, nm), sp.occ(e, nm))]


def entry_facts(sp, e, wk, elem, guard, name_domain=False):
    """The same, as assumptions about an entry promised by a contract (the third clause for every name of interest)."""
    from .problem_c import forall_name
    p = sp.ip.path
    S_ = sp.S
    re_, rl_ = sp.ref(e), sp.ref(elem)
    E_, PV_ = sp.E, sp.PVX
    # raw spec symbols for e (unfolded by whoever reasons about the column); the entry itself is an opaque tree
    p.assume(z3.Implies(guard, z3.Implies(S_.REG(re_, wk, E_, PV_), sp.den(elem, E_, PV_) == S_.DV(re_, wk, E_, PV_))))
    p.assume(z3.Implies(guard, sp.wf(elem)))
    forall_name(sp.ip, lambda nm: z3.Implies(z3.And(guard, sp.occ(elem, nm)), S_.OCC(re_, nm)))
    if name_domain:
        # definitional: DOMJ names "the entry compute_jacobian builds for (e, w) is inside its domain"
        p.assume(z3.Implies(guard, DOMJ(re_, wk, E_, PV_) == sp.dom(elem, E_, PV_)))


def row_value(sp, e, vs, allow_none=True, name_domain=False):
    """Result of a contract application: an optional sequence whose entries are opaque expressions meeting entry_ok."""
    ip = sp.ip
    n = ip.models.len_term(vs.n)
    base = sym.fresh("jacrow", sym.Ref)

    def get(k):
        kt = k if not isinstance(k, int) else z3.IntVal(k)
        el = Opaque(ROWELEM(base, kt), "Expression")
        inr = z3.And(kt >= 0, kt < n)
        wk = FN(vs.get(kt).ref)
        entry_facts(sp, e, wk, el, inr, name_domain)
        return el
    seq = SSeq(n, get, "list", "jacobian row", tag=("jacrow", base))
    if not allow_none:
        return seq
    return SOpt(sym.fresh("row_is_none", sym.B), seq)


def row_goals(sp, e, vs, res, may_be_none=True):
    """Goals for a returned row: checked at an arbitrary in-range position (Skolem index).  Runs at the end of a path, so
    deciding `row is None` forks the path and the length equation is assumed for the entry goals once it has been stated
    as a goal of its own."""
    ip = sp.ip
    n = ip.models.len_term(vs.n)
    res = ip.models.unopt(ip, res) if isinstance(res, SOpt) else res
    if res is None:
        return [z3.BoolVal(bool(may_be_none))]
    if isinstance(res, PList):
        res = ip.models.as_seq(res)
    if not isinstance(res, SSeq):
        return [z3.BoolVal(False)]
    ln = ip.models.len_term(res.n)
    goals = [ln == n]
    if ip.path.check_sat(ln == n) == "unsat":
        return goals
    ip.path.assume(ln == n)
    k = skolem(ip, "sk_col", n)
    index_used(ip, k)
    ip.path.assume(z3.And(k >= 0, k < n))
    el = res.get(k)
    if isinstance(el, SOpt):
        el = ip.models.unopt(ip, el)
    if not isinstance(el, (Obj, Opaque)):
        return goals + [z3.BoolVal(False)]
    wk = FN(vs.get(k).ref)
    goals.extend(entry_ok(sp, e, wk, el))
    ip.reg.saturate(ip)
    return goals


def install(reg, src):
    def row_contract(key, cls, cases=None, setup=None, props=("C03",), rank=2, known=None):
        @reg.contract(key, props=list(props), cases=cases or {}, group="jacrow", rank=rank)
        def _(c):
            sp = Spec(c.ip)
            if c.verifying:
                c.ip.path.ghost["occ_single"] = True
            kn = known(c) if known else None
            e = c.arg("self", T.obj(cls, exact=True, known=kn))
            vs = varlist(c)
            c.decreases(e)
            c.requires(sp.wf(e), name="well-formed scalar expression")
            c.returns(lambda cc: row_value(sp, e, vs))
            c.ensures("row", lambda res: row_goals(sp, e, vs, res))
            if setup is not None:
                setup(c, sp, e, vs)
        return _

    # ---- base class: no shortcut
    @reg.contract("virtual:Expression.jacobian_row", props=["C03"], group="jacrow", rank=0)
    def _(c):
        sp = Spec(c.ip)
        e = c.arg("self", T.expr())
        vs = varlist(c)
        c.decreases(e)
        c.requires(sp.wf(e), name="well-formed scalar expression")
        c.returns(lambda cc: row_value(sp, e, vs))
        c.ensures("row", lambda res: row_goals(sp, e, vs, res))

    if f"{EX}:Expression.jacobian_row" in src.funcs:
        row_contract(f"{EX}:Expression.jacobian_row", "Expression", rank=1)

    def fix_vec(c, sp, e, kind, field="vector"):
        v = FV(sp, sp.ref(e), field)
        if c.verifying:
            c.assume(sp.K.is_kind(v, kind))
            sp.S.learn_kind(c.ip, v, kind)
        return v

    def list_of_entries(sp, e, vs):
        """ListSpec for `result.append(<entry for var>)` loops over the variable list."""
        base = sym.fresh("rowspec", sym.Ref)

        def spec_elem(k):
            kt = k if not isinstance(k, int) else z3.IntVal(k)
            el = Opaque(ROWELEM(base, kt), "Expression")
            wk = FN(vs.get(kt).ref)
            entry_facts(sp, e, wk, el, z3.BoolVal(True))
            return el

        def equal(ip2, appended, k):
            wk = FN(vs.get(k).ref)
            return entry_ok(sp, e, wk, appended)
        return ListSpec(spec_elem, equal, "row")

    # ---- VectorSum
    def vs_setup(c, sp, e, vs):
        v = fix_vec(c, sp, e, "VectorVariable")
        if c.verifying:
            c.loop(1, lambda st: [], havoc={"result": list_of_entries(sp, e, vs)})
    row_contract(f"{VE}:VectorSum.jacobian_row", "VectorSum", setup=vs_setup)

    # ---- DotProduct: shortcut only for two VectorVariables (x.dot(x): 2*x[i]; x.dot(y): the partner element)
    VK = ["VectorVariable", "VectorExpression"]

    def dot_setup(c, sp, e, vs):
        lk, rk = c.choose("left", VK), c.choose("right", VK)
        l = fix_vec(c, sp, e, lk, "left") if lk else FV(sp, sp.ref(e), "left")
        r = fix_vec(c, sp, e, rk, "right") if rk else FV(sp, sp.ref(e), "right")
        if c.verifying and lk == rk == "VectorVariable":
            c.loop(1, lambda st: [], havoc={"result": list_of_entries(sp, e, vs)})
    row_contract(f"{VE}:DotProduct.jacobian_row", "DotProduct", cases={"left": VK, "right": VK}, setup=dot_setup)

    # ---- LinearCombination: coefficient of the variable, via a dict built in a loop
    from .vecspec import COEF, FPOWER
    from .seqtheory import ELEMV as _ELEMV

    def lc_setup(c, sp, e, vs):
        vk = c.choose("vec", VK)
        v = fix_vec(c, sp, e, vk) if vk else FV(sp, sp.ref(e))
        if c.verifying and vk == "VectorVariable":
            ip = c.ip
            r = sp.ref(e)
            sp.den(e, sp.E, sp.PVX)          # unfolds the constructor invariant len(coefficients) == len(vector)
            S = ip.schema.read_field(ip, Opaque(v, "VectorVariable", exact=True), "_variables")
            key_fn = lambda k: FN(_ELEMV(v, k))
            val_fn = lambda k: SReal(z3.Select(COEF(r), k), "float")

            def make_map(ip2, n_prefix):
                return keyed_map(ip2, S, key_fn, val_fn, n=n_prefix, desc="var_to_coeff", require_distinct=True)

            def written(ip2, key, value, i):
                return [ip2.models.name_term(key) == key_fn(i), real_term(value) == z3.Select(COEF(r), i)]
            c.loop(1, lambda st: [], havoc={"var_to_coeff": DictSpec(make_map, written)})
    row_contract(f"{VE}:LinearCombination.jacobian_row", "LinearCombination", cases={"vec": VK}, setup=lc_setup)

    # ---- VectorPowerSum: k * x[i] ** (k-1) with the shortcuts k == 1 and k == 2
    def vps_setup(c, sp, e, vs):
        fix_vec(c, sp, e, "VectorVariable")
        if c.verifying:
            c.loop(1, lambda st: [], havoc={"result": list_of_entries(sp, e, vs)})
    row_contract(f"{VE}:VectorPowerSum.jacobian_row", "VectorPowerSum", setup=vps_setup)

    # ---- VectorUnarySum: sin / cos shortcuts, None for the other functions
    from pyvc.spec import VEC_UNARY_OPS

    def vus_setup(c, sp, e, vs):
        fix_vec(c, sp, e, "VectorVariable")
        if c.verifying:
            c.loop(1, lambda st: [], havoc={"result": list_of_entries(sp, e, vs)})
    row_contract(f"{VE}:VectorUnarySum.jacobian_row", "VectorUnarySum", cases={"op": list(VEC_UNARY_OPS)}, setup=vus_setup,
                 known=lambda c: ({"op": c.choose("op", list(VEC_UNARY_OPS))} if c.choose("op", list(VEC_UNARY_OPS)) else None))

    # ---- BinaryOp: f + c, f - c, c + f, c * f, f * c delegate to the operand's row (virtual contract, strict sub-term)
    row_contract(f"{EX}:BinaryOp.jacobian_row", "BinaryOp", cases={"op": list(BINARY_OPS)},
                 known=lambda c: ({"op": c.choose("op", list(BINARY_OPS))} if c.choose("op", list(BINARY_OPS)) else None))

    # ---- rows that are stated, not proved
    row_contract(f"{MX}:QuadraticForm.jacobian_row", "QuadraticForm", rank=2)
    reg.contracts[f"{MX}:QuadraticForm.jacobian_row"].bounded = (
        "row i is LinearCombination((Q + Q.T)[i, :], x): a nested sum over a numeric matrix, outside the sum theory of the "
        "executor; compared with finite differences by the bounded stand-in (native/bounded_jacobian.py)")
    row_contract(f"{MX}:MatrixSum.jacobian_row", "MatrixSum", rank=2)
    reg.contracts[f"{MX}:MatrixSum.jacobian_row"].bounded = (
        "matrix operands (MatrixVariable / MatrixExpression) have no denotation in the spec vocabulary; compared with finite "
        "differences by the bounded stand-in (native/bounded_jacobian.py)")

    # ---- compute_jacobian: one row per expression, from jacobian_row when it answers, else column-wise gradient
    for m_ in (1, 2):
        def mk(m_=m_):
            @reg.contract(f"{AD}:compute_jacobian", props=["C03", "C17"], cases={"m": [1, 2]}) if m_ == 1 else (lambda f: f)
            def _(c):
                sp = Spec(c.ip)
                mm = c.choose("m", [1, 2])
                if c.verifying:
                    es = [T.expr().fresh(c.ip, f"e{k}") for k in range(mm)]
                    exprs = c.arg("exprs", T.const(PList(es)))
                else:
                    exprs = c.arg("exprs")
                    if not isinstance(exprs, PList):
                        raise Unsupported("compute_jacobian with a symbolic-length list of expressions")
                    es = list(exprs.items)
                vs = varlist(c)
                for e in es:
                    c.requires(sp.wf(e), name="well-formed scalar expression")
                c.returns(lambda cc: PList([row_value(sp, e, vs, allow_none=False, name_domain=True) for e in es]))

                def post(res):
                    if not isinstance(res, PList) or len(res.items) != len(es):
                        return [z3.BoolVal(False)]
                    goals = []
                    for e, row in zip(es, res.items):
                        goals += row_goals(sp, e, vs, row, may_be_none=False)
                    return goals
                c.ensures("rows", post)
            return _
        if m_ == 1:
            mk()
