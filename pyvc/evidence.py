"""Evidence writer: evidence/<prop>.json per EVIDENCE.schema.json; every count is measured on this run."""
from __future__ import annotations

import json
import os
from collections import Counter

ROOT = os.path.dirname(os.path.dirname(os.path.abspath(__file__)))

BASE_ASSUMPTIONS = [
    "A1 machine arithmetic treated as mathematical: floats are reals (no rounding, overflow, signed zero, NaN)",
    "A2 NumPy/builtin model table (pyvc/models.py): np.add/subtract/multiply/divide/power = operators, np.sum/np.dot/norm as finite sums, gather/scatter indexing; assumed, sampled against the installed NumPy by native/numpy_model_check.py",
    "A4 Python builtins: sorted, dict/set via __eq__/__hash__, lru_cache returns the value stored for an equal key",
    "A5 expression nodes are immutable after construction and trees are finite and acyclic (source scan on every run)",
    "A6 the Variables of a VectorVariable have pairwise distinct names; its elements are Variable objects (class invariant of every constructor route)",
    "A7 Constant values are finite real Python scalars; no division by a literal zero Constant",
    "A8 soundness of z3 5.1 / cvc5 1.0.3 and of the Lean 4 kernel + Mathlib for the spec tables",
    "A9 termination of loops / recursion is not proved",
    "Python subset semantics as encoded by pyvc/interp.py (DESIGN.md section 2.2); structural induction on finite immutable trees; spec-table entries are re-stated in spec/OptyxSpec.lean (entries whose Lean proof is unfinished are listed under trusted_table_entries)",
]


def write_evidence(eng, prop, tier, seed, results, skipped, status, known_hits, violations, undecided, bounded, wall):
    os.makedirs(os.path.join(ROOT, "evidence"), exist_ok=True)
    by_solver = Counter()
    solver_seconds = Counter()
    funcs: dict = {}
    inlined, callee = set(), set()
    n_inst = 0
    samples = []
    seen = set()
    for r in results:
        f = funcs.setdefault(r["key"], {"status": "proved", "cases": 0, "paths": 0, "infeasible_paths": 0,
                                        "obligation_instances": 0, "seconds": 0.0, "path_outcomes": {}})
        f["cases"] += 1
        f["paths"] += r["paths"]
        f["infeasible_paths"] += r["infeasible"]
        f["obligation_instances"] += len(r["obligations"])
        f["seconds"] = round(f["seconds"] + r["seconds"], 2)
        for k, v in r["path_outcomes"].items():
            f["path_outcomes"][k] = f["path_outcomes"].get(k, 0) + v
        inlined |= set(r["inlined"])
        callee |= set(r["callees"])
        if r["unsupported"]:
            f["status"] = "out of reach (unsupported construct)"
        for o in r["obligations"]:
            n_inst += 1
            by_solver[o["solver"]] += 1
            solver_seconds[o["solver"]] += o["seconds"]
            stt = status.get(o["oid"])
            if stt == "refuted" and f["status"] == "proved":
                f["status"] = "refuted (see known findings / violations)"
            elif stt == "unknown" and f["status"] == "proved":
                f["status"] = "undecided"
            if o["oid"] not in seen and len(samples) < 6:
                seen.add(o["oid"])
                samples.append({"obligation": o["oid"], "kind": o["kind"], "path": o["path_sig"][-200:],
                                "assumptions": o["n_assumptions"], "goal": o["goal"], "verdict": o["verdict"],
                                "solver": o["solver"], "seconds": round(o["seconds"], 4)})
    trusted = {k: ct.trusted for k, ct in eng.reg.contracts.items() if prop in ct.props and ct.trusted}
    bounded_c = {k: ct.bounded for k, ct in eng.reg.contracts.items() if prop in ct.props and ct.bounded}
    kf_oids = {k["oid"] for k in known_hits if not k["oid"].startswith("bounded:")}
    n_obl = len([o for o in status if o not in kf_oids])
    n_dis = sum(1 for o, s in status.items() if s == "proved" and o not in kf_oids)
    anchors = eng.anchor_coverage(prop) if hasattr(eng, "anchor_coverage") else {}
    ev = {
        "property_id": prop, "tier": tier, "seed": seed, "level": "proof",
        "coverage": {
            "obligations": n_obl, "discharged": n_dis,
            "checker_cmd": f"./check {prop} --tier {tier}",
            "trusted_base": ["z3 5.1.0 (python3-vt)", "cvc5 1.0.3 (/usr/bin/cvc5)", "pyvc executor + NumPy model table",
                             "Lean 4.33 + Mathlib for spec/OptyxSpec.lean"],
            "samples": samples,
            "obligation_instances": n_inst,
            "obligations_generated_total": len(status),
            "obligations_refuted_and_listed_in_known_findings": len(kf_oids),
            "refuted_listed_as_known_findings": sorted(kf_oids),
            "functions_under_contract": funcs,
            "functions_with_trusted_contract": trusted,
            "functions_bounded_only": bounded_c,
            "callee_contracts_used": sorted(callee),
            "unfolded_inline": sorted(inlined),
            "functions_in_anchor_files_not_under_contract": anchors.get("not_under_contract", []),
            "by_solver": {k: {"instances": by_solver[k], "seconds": round(solver_seconds[k], 2)} for k in by_solver},
            "bounded": [{k: v for k, v in b.items() if k != "failures"} | {"failures": len(b.get("failures", []))} for b in bounded],
            "undecided": undecided[:50],
            "source_digest": eng.src.digest.hexdigest(),
            "explanation": "`obligations` counts the generated obligations that are not listed known findings (those are reported "
                           "separately above, with their ids, and are *refuted*, not discharged); obligations are spec-indexed "
                           "(function / spec case / clause); an obligation is discharged when every path instance of it is "
                           "unsat-checked by z3 (cvc5 on z3's unknowns; both in the thorough tier). bounded entries are never "
                           "counted in obligations/discharged.",
        },
        "assumptions": BASE_ASSUMPTIONS + list(eng.reg.assumptions)
                       + [f"trusted contract: {k}: {v}" for k, v in trusted.items()]
                       + [f"bounded only: {k}: {v}" for k, v in bounded_c.items()],
        "wall_s": round(wall, 2),
        "violations": len(violations),
    }
    with open(os.path.join(ROOT, "evidence", f"{prop}.json"), "w") as f:
        json.dump(ev, f, indent=1, default=str)
