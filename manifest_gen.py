#!/usr/bin/env python3
"""Regenerates MANIFEST.json from the table below (kept in one place so it stays valid)."""
import json

CLAIMED = {
    "C02": dict(
        text="Every branch of the recursive differentiator, every registered vector rule and the six algebraic simplifiers are "
             "symbolically executed from the real source; per node kind/operator the result's denotation is proved equal to the "
             "calculus-table derivative at every regular point (G1) and to the literal Constant 0 when the variable does not occur (G2), "
             "using callee contracts only and the induction hypothesis on strict sub-terms. All inputs, no bound.",
        note="A1 real arithmetic; A5 immutable finite trees; A6 distinct names; spec tables (calculus rules, finite sums) restated in "
             "Lean/Mathlib; _gradient_iterative's traversal and gradient_quadratic_form are bounded/trusted (listed in evidence); "
             "known findings D2, D3 are listed in known_findings.json",
        design="6 C02"),
    "C01": dict(
        text="evaluate() of every scalar kind, _build_evaluator (one obligation per node kind / operator / operand class), "
             "_build_vector_evaluator, _compile_cached and compile_expression are symbolically executed; the closure returned is "
             "beta-reduced on a symbolic point x of symbolic length under an arbitrary injective index map (any permutation, any "
             "superset) and against the parameter store *at call time*, and proved equal to the denotation of the tree; hashing of "
             "the memo key and absence of exceptions are separate obligations.",
        note="A1 (two summation orders are the same real number), A2 NumPy model table, A5, A6; QuadraticForm (nested sums) and the "
             "iterative builder's stack discipline are bounded only; vector-valued ElementwisePower/ElementwiseUnary are outside "
             "'scalar expression'; known findings D1, D2",
        design="6 C01"),
    "C04": dict(
        text="The recursive degree routine, its cached/dispatching wrappers, Expression.degree (memo slot) and is_linear/is_quadratic are "
             "symbolically executed per node kind; a reported degree d is proved to bound a structural degree function whose soundness "
             "against MvPolynomial.totalDegree is the Lean-checked spec table (C, X, +, -, neg, *, ^n, /c, finite sums). Unbounded in tree "
             "size and vector length (loop invariants with prefix folds).",
        note="A1, A5, A7 (no division by a literal 0); the memo slot _degree is written only by Expression.degree (scan); "
             "_compute_degree_iterative's stack discipline is bounded (C15); known findings D6, D7",
        design="6 C04"),
    "C05": dict(
        text="The LP extraction routines (_extract_constant_impl, _extract_all_coefficients_impl with its three accumulation loops, "
             "extract_all_linear_coefficients with its fast paths, _try_extract_fast_binop, extract_constant_term) are proved against the "
             "pointwise statement of the property: for an arbitrary point x under an arbitrary injective index map, "
             "dot(result', x) = dot(result, x) + m*(f(x) - f(0)) and constant = f(0); the ones/coefficients shortcuts need the "
             "permutation-of-a-finite-sum lemma and are proved for every variable order.",
        note="A1, A5, A6, A7; linearity hypothesis is the contract of is_linear (C04) restricted to the syntactic class LP extraction is "
             "specified on; LinearProgramExtractor.extract_* and the LPData assembly are not yet under contract (listed in evidence); "
             "known findings D9, D10, D11, D12",
        design="6 C05"),
}

NOT_YET = "check not built yet (work in progress; see DESIGN.md section 6 for the plan)"


def main():
    props = [json.loads(l) for l in open("properties.jsonl")]
    checks = []
    for p in props:
        pid = p["id"]
        if pid not in CLAIMED:
            continue
        c = CLAIMED[pid]
        checks.append({
            "property_id": pid,
            "quick_cmd": f"./check {pid} --tier quick",
            "thorough_cmd": f"./check {pid} --tier thorough",
            "evidence_file": f"/verif/evidence/{pid}.json",
            "replay_cmd_template": f"./check {pid} --replay {{path}}",
            "engine": "pyvc",
            "level_claimed": {"category": "proof", "text": c["text"], "design_ref": "DESIGN.md section " + c["design"]},
            "level_note": c["note"],
            "technique": "contract-based deductive verification: sidecar pre/postconditions and loop invariants on the real functions, "
                         "verification conditions generated from the real ast by symbolic execution (pyvc), discharged by z3/cvc5; "
                         "spec tables re-checked in Lean/Mathlib",
        })
    m = {
        "version": 1,
        "setup_cmd": "./check setup",
        "hooks": {"guard": "OPTYX_VERIF", "enable": "no source hooks; sidecar contracts only (contracts/*.py keyed by module:qualname)",
                  "baseline_off_cmd": "cd /repo && /venv/bin/python -m pytest -q -p no:cacheprovider --timeout=900",
                  "source_commits": [], "add_only": True},
        "engines": [{"name": "pyvc", "path": "/verif/pyvc", "serves_properties": sorted(CLAIMED),
                     "kind_free_text": "home-built VC generator: symbolic executor over the real Python ast + sidecar contracts, "
                                       "z3/cvc5 back ends, Lean/Mathlib for spec tables, native replay under /venv/bin/python"}],
        "checks": checks,
        "notes": "Exit codes: 0 held (KNOWN-FINDING lines allowed), 1 violation, 2 undecided, 3 checker error. See DESIGN.md.",
        "not_applicable": [{"property_id": p["id"], "reason": NOT_YET} for p in props if p["id"] not in CLAIMED],
    }
    json.dump(m, open("MANIFEST.json", "w"), indent=1)


if __name__ == "__main__":
    main()
