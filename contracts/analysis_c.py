"""Contracts for optyx.analysis: degree classification (C04) and, further down, LP extraction (C05)."""
from __future__ import annotations

import z3

from pyvc import sym
from pyvc.contracts import T
from pyvc.spec import BINARY_OPS, UNARY_OPS
from pyvc.values import SInt, SOpt, SReal

from .specfns import Spec
from .autodiff_c import node_type

M = "optyx.analysis"
LEAVES = ["Constant", "Variable", "Parameter"]


def degree_cases(src) -> list[str]:
    out = list(LEAVES) + [f"BinaryOp:{op}" for op in BINARY_OPS] + [f"UnaryOp:{op}" for op in UNARY_OPS]
    for k in src.expression_kinds():
        if k in LEAVES or k in ("BinaryOp", "UnaryOp"):
            continue
        if k in ("LinearCombination", "VectorSum", "L2Norm", "L1Norm"):
            out += [f"{k}|VectorVariable", f"{k}|VectorExpression"]
        elif k in ("DotProduct",):
            out += [f"{k}|{a}|{b}" for a in ("VectorVariable", "VectorExpression") for b in ("VectorVariable", "VectorExpression")]
        elif k == "QuadraticForm":
            out += [f"{k}|VectorVariable", f"{k}|VectorExpression"]
        else:
            out.append(k)
    return out


def degree_post(sp, e):
    """res = d (not None)  =>  d >= 0 and the formula is a polynomial of total degree <= d (property C04)."""
    def post(res):
        if res is None:
            return z3.BoolVal(True)
        if isinstance(res, SOpt):
            d = res.val.t
            return z3.Implies(z3.Not(res.isnone), z3.And(d >= 0, sp.ispoly(e), sp.sdeg(e) <= d))
        d = res.t if isinstance(res, SInt) else z3.IntVal(int(res)) if isinstance(res, int) else None
        if d is None:
            if isinstance(res, SReal):
                return z3.And(z3.IsInt(res.t), res.t >= 0, sp.ispoly(e), sym.to_real(sp.sdeg(e)) <= res.t)
            return z3.BoolVal(False)
        return z3.And(d >= 0, sp.ispoly(e), sp.sdeg(e) <= d)
    return post


def syn_post(sp, e):
    """a degree is only ever reported for trees of the syntactic class that LP extraction is specified on (C05 carrier)"""
    def post(res):
        if res is None:
            return z3.BoolVal(True)
        if isinstance(res, SOpt):
            return z3.Implies(z3.And(z3.Not(res.isnone), res.val.t <= 1), sp.syn(e))
        d = res.t if isinstance(res, SInt) else z3.IntVal(int(res)) if isinstance(res, int) else sym.to_real(res.t) if isinstance(res, SReal) else None
        if d is None:
            return z3.BoolVal(False)
        return z3.Implies(d <= 1, sp.syn(e))
    return post


def setup_node(c, sp, case):
    """Root expression for a degree case `Kind[:op][|vectorkind...]`."""
    if case is None:
        return c.arg("expr", None)
    parts = case.split("|")
    e = c.arg("expr", node_type(parts[0]))
    base_kind = parts[0].split(":")[0]
    fixed = {"VectorSum": ("vector", "VectorVariable"), "VectorPowerSum": ("vector", "VectorVariable"),
             "VectorUnarySum": ("vector", "VectorVariable"), "ElementwisePower": ("vector", "VectorVariable"),
             "ElementwiseUnary": ("vector", "VectorVariable"), "VectorExpressionSum": ("expression", "VectorExpression")}
    if base_kind in fixed and len(parts) == 1:
        f, k = fixed[base_kind]
        v = sp.S.F(f, sym.Ref)(sp.ref(e))
        c.assume(sp.K.is_kind(v, k))          # constructor invariant: these nodes are only built over that vector class
        sp.S.learn_kind(c.ip, v, k)
    if len(parts) > 1:
        r = sp.ref(e)
        fields = ["left", "right"] if parts[0] == "DotProduct" else ["vector"]
        for f, k in zip(fields, parts[1:]):
            v = sp.S.F(f, sym.Ref)(r)
            c.assume(sp.K.is_kind(v, k))
            sp.S.learn_kind(c.ip, v, k)
    return e


def install(reg, src):
    cases = degree_cases(src)
    reg.assumption("A7 (C04): no division by a literal Constant(0) inside the tree (x/0 has an empty domain)")

    def deg_contract(key, rank, bounded=None, extra_args=()):
        @reg.contract(key, props=["C04", "C15", "C06", "C08"] if "iterative" in key else ["C04", "C06", "C08"], cases={"node": cases}, group="deg",
                      rank=rank, bounded=bounded)
        def _(c):
            sp = Spec(c.ip)
            case = c.choose("node", cases)
            for a in extra_args:
                c.arg(a, T.int_())
            e = setup_node(c, sp, case)
            c.decreases(e)
            c.requires(wf_div(sp, e), name="no division by the literal constant 0")
            c.returns(T.opt(T.int_()))
            c.ensures("poly", degree_post(sp, e))
            c.ensures("lp-class", syn_post(sp, e))
            if c.verifying and case:
                install_loops(c, sp, e, case)
        return _

    def wf_div(sp, e):
        return sp.nodiv0(e)

    def install_loops(c, sp, e, case):
        from .vecspec import vec_deg, FV
        kind = case.split("|")[0]
        if kind in ("LinearCombination", "VectorSum") and case.endswith("VectorExpression"):
            v = FV(sp, sp.ref(e))
            allp, mx = vec_deg(sp, v)
            sp.ispoly(e)
            sp.syn(e)
            SYNALL = sym.fn("SYNALL", sym.Ref, sym.I, sym.B)
            def inv(st):
                md = st.var("max_deg")
                mdt = md.t if isinstance(md, SInt) else z3.IntVal(md)
                return [mdt >= 0, allp(st.i), mx(st.i) <= mdt, z3.Implies(mdt <= 1, SYNALL(v, st.i))]
            # loop ordinals in _compute_degree_impl: 1 = LinearCombination, 2 = VectorSum
            c.loop(1 if kind == "LinearCombination" else 2, inv, havoc={"d": T.opt(T.int_())})

    deg_contract(f"{M}:_compute_degree_impl", 1)

    reg.mark_inline(f"{M}:_product_degree", f"{M}:_power_degree", f"{M}:_in_column_order")      # comparisons and a max: executed as written
    # ---- helper shared by the twins (present after the D8 repair): degree of the elements of a vector operand
    if f"{M}:_vector_elements_degree" in src.funcs:
        @reg.contract(f"{M}:_vector_elements_degree", props=["C04", "C15", "C06", "C08"], cases={"vector": ["VectorVariable", "VectorExpression", "MatrixVectorProduct"]},
                      group="deg", rank=4)
        def _(c):
            from .vecspec import vec_deg, vec_syn, vec_nd0
            from .seqtheory import VLEN
            sp = Spec(c.ip)
            vk = c.choose("vector", ["VectorVariable", "VectorExpression", "MatrixVectorProduct"])
            v = c.arg("vector", T.obj(vk, exact=True) if vk else T.obj("VectorExpression"))
            c.decreases(v)
            vr = sp.ref(v)
            c.requires(vec_nd0(sp, vr), name="no division by the literal constant 0 in any element")
            c.returns(T.opt(T.int_()))
            allp, mx = vec_deg(sp, vr)
            synv = vec_syn(sp, vr)
            n = VLEN(vr)

            def post(res):
                if res is None:
                    return z3.BoolVal(True)
                if isinstance(res, SOpt):
                    d = res.val.t
                    return z3.Implies(z3.Not(res.isnone), z3.And(d >= 0, allp(n), mx(n) <= d, z3.Implies(d <= 1, synv)))
                d = res.t if isinstance(res, SInt) else z3.IntVal(int(res))
                return z3.And(d >= 0, allp(n), mx(n) <= d, z3.Implies(d <= 1, synv))
            c.ensures("element degrees", post)
            if c.verifying and vk in ("VectorExpression", "MatrixVectorProduct"):
                SYNALL = sym.fn("SYNALL", sym.Ref, sym.I, sym.B)

                def inv(st):
                    md = st.var("max_deg")
                    mdt = md.t if isinstance(md, SInt) else z3.IntVal(md)
                    return [mdt >= 0, allp(st.i), mx(st.i) <= mdt, z3.Implies(mdt <= 1, SYNALL(vr, st.i))]
                c.loop(1, inv, havoc={"d": T.opt(T.int_())})
    deg_contract(f"{M}:_compute_degree_cached", 2, extra_args=("expr_id",))
    deg_contract(f"{M}:compute_degree", 3)
    deg_contract(f"{M}:_compute_degree_iterative", 2,
                 bounded="positional result stack of a three-phase DFS: node blocks are compared with the recursive rule by the "
                         "bounded stand-in (all tree shapes up to the stated size); see DESIGN.md C15 layer 3")

    @reg.contract(f"{M}:_estimate_tree_depth", props=["C15"],
                  trusted="returns some int and writes nothing (frame scan); only selects between twins with the same contract")
    def _(c):
        c.arg("expr"); c.arg("max_depth", default=500)
        c.returns(T.int_())

    # ---- Expression.degree (memo field _degree), is_linear / is_quadratic
    @reg.contract("optyx.core.expressions:Expression.degree", props=["C04", "C06", "C08"], cases={"memo": ["unset", "set"]})
    def _(c):
        sp = Spec(c.ip)
        e = c.arg("self", T.expr())
        c.requires(wf_div(sp, e), name="no division by the literal constant 0")
        c.returns(T.opt(T.int_()))
        c.ensures("poly", degree_post(sp, e))
        c.ensures("lp-class", syn_post(sp, e))
        memo = c.choose("memo", ["unset", "set"])
        if c.verifying:
            reg.degree_memo_setup(c, sp, e, memo)

    def memo_inv(sp, e):
        """Invariant of the memo slot: whatever is stored for e is a sound answer (None / -1 sentinel / degree bound)."""
        p = sp.ip.path
        r = sp.ref(e)
        has = z3.Select(p.store_of("_degree!has", sym.B), r)
        non = z3.Select(p.store_of("_degree!none", sym.B), r)
        val = z3.Select(p.store_of("_degree", sym.I), r)
        return z3.Implies(z3.And(has, z3.Not(non)), z3.Or(val == -1, z3.And(val >= 0, sp.ispoly(e), sp.sdeg(e) <= val,
                                                                             z3.Implies(val <= 1, sp.syn(e)))))

    def degree_memo_setup(c, sp, e, memo):
        p = sp.ip.path
        r = sp.ref(e)
        has = z3.Select(p.store_of("_degree!has", sym.B), r)
        non = z3.Select(p.store_of("_degree!none", sym.B), r)
        if memo == "set":
            c.assume(has, z3.Not(non))
        else:
            c.assume(z3.Or(z3.Not(has), non))
        c.assume(memo_inv(sp, e))
        c.ensures("memo invariant kept", lambda res: memo_inv(sp, e))
    reg.degree_memo_setup = degree_memo_setup
    reg.assumption("C04: the memo slot Expression._degree is written only by Expression.degree and Variable.__init__ "
                   "(source scan); its invariant is assumed on entry and re-established on exit")

    def lin_contract(key, bound, argname="expr"):
        @reg.contract(key, props=["C04", "C05", "C08", "C06"])
        def _(c):
            sp = Spec(c.ip)
            e = c.arg(argname, T.expr())
            c.requires(wf_div(sp, e), name="no division by the literal constant 0")
            c.returns(T.bool_())
            from pyvc.values import SBool
            def post(res):
                t = res.t if isinstance(res, SBool) else z3.BoolVal(bool(res))
                return z3.Implies(t, z3.And(sp.ispoly(e), sp.sdeg(e) <= bound, sp.syn(e) if bound <= 1 else z3.BoolVal(True)))
            c.ensures("poly", post)
            if bound == 1 and not c.verifying:
                # naming of the (deterministic) answer, used where a cache must equal a fresh computation (C13)
                ISLIN = sym.fn("ISLIN", sym.Ref, sym.B)
                c.ensures("functional", lambda res: (res.t if isinstance(res, SBool) else z3.BoolVal(bool(res))) == ISLIN(sp.ref(e)))
    lin_contract(f"{M}:is_linear", 1)
    lin_contract(f"{M}:is_quadratic", 2)
    lin_contract("optyx.core.expressions:Expression.is_linear", 1, argname="self")
    reg.wf_div = wf_div
    install_lp(reg, src)
    install_lp2(reg, src)
    install_replay(reg, src)
    install_lp_replay(reg, src)


def install_replay(reg, src):
    import random as _random
    import sys as _sys, os as _os
    _sys.path.insert(0, _os.path.join(_os.path.dirname(_os.path.dirname(_os.path.abspath(__file__))), "native"))
    import build as nbuild
    from pyvc.concretize import Concretizer, find_const

    def deg_conc(eng, ob, model, oid):
        cz = Concretizer(eng, model)
        cz.degree_mode = True
        e = find_const(ob, "expr!")
        if e is None:
            e = find_const(ob, "self!")
        if e is None:
            return None
        fnkey = oid.split(" / ")[0]
        args = [cz.expr(e)]
        if fnkey.endswith("_compute_degree_cached"):
            args = [0] + args
        return {"family": "degree", "fn": fnkey, "args": args, "clause": oid.split(" / ")[-1], "env": cz.env}

    def deg_search(eng, ob, oid, seed):
        rng = _random.Random(seed)
        fnkey = oid.split(" / ")[0]
        pool = []
        case = oid.split(" / ")[1]
        root = case.split("=", 1)[1].split("|")[0] if case.startswith("node=") else None
        tries = 0
        while len(pool) < 1500 and tries < 60000:
            tries += 1
            if root and ":" not in root and root not in ("Constant", "Variable", "Parameter"):
                e = nbuild.rand_vector_node(rng, 2)
                if e["cls"] != root:
                    continue
            else:
                e = nbuild.rand_scalar(rng, 3)
                if root:
                    r0 = e["cls"] + (":" + e["op"] if e["cls"] in ("BinaryOp", "UnaryOp") else "")
                    if r0 != root:
                        continue
            pool.append({"args": ([0, e] if fnkey.endswith("_compute_degree_cached") else [e])})
        return {"mode": "search", "family": "degree", "fn": fnkey, "clause": oid.split(" / ")[-1], "pool": pool,
                "seed": seed, "points": 1}

    for k in list(reg.contracts):
        if k.startswith(M + ":") and "degree" in k:
            reg.concretizers[k] = deg_conc
            reg.native_searches[k] = deg_search


# ======================================================================================= C05: LP coefficient extraction
def install_lp(reg, src):
    reg.mark_inline(f"{M}:_constant_factor")      # (present after the D11 repair) degree test + constant of a non-literal factor
    from .compiler_c import fresh_var_indices, index_term, NV, INDOM, DOMOF, make_index_map
    from pyvc.values import SArr, SMap, SSeq, Unsupported, real_term
    DOT = sym.fn("DOT", sym.RealArr, sym.I, sym.RealArr, sym.R)        # sum_{j<n} a[j] * x[j]
    ZENV = z3.K(sym.Name, sym.rv(0))
    NOT_LPX = ("ElementwisePower", "ElementwiseUnary", "L2Norm", "L1Norm", "VectorUnarySum", "MatrixSum", "FrobeniusNorm",
               "VectorExpressionSum", "DotProduct", "QuadraticForm", "Parameter", "VectorSum|VectorExpression")
    lin_cases = [c for c in degree_cases(src) if not c.startswith(NOT_LPX)
                 and not (c.startswith("UnaryOp:") and c != "UnaryOp:neg")]

    def point(ip, IDX):
        """The arbitrary point x (array in index-map order) and the environment it denotes; one per path."""
        g = ip.path.ghost
        key = f"lp_point:{IDX}"
        if key not in g:
            sp = Spec(ip)
            X = sym.fresh("X", sym.RealArr)
            g[key] = SArr(X, n=NV(IDX), envlink=(IDX, sp.E, ip.path))
        return g[key]

    def dot_update_lemmas(ip, arr, n, X, Xobj=None):
        """DOT(store(a,i,v), n, x) = DOT(a, n, x) + (v - a[i]) * x[i]  for 0 <= i < n     (lean: dot_update / Finset.sum_update_of_mem)"""
        seen = 0
        cur = arr
        while z3.is_app(cur) and cur.decl().kind() == z3.Z3_OP_STORE and seen < 12:
            a, i, v = cur.arg(0), cur.arg(1), cur.arg(2)
            key = f"dotupd:{cur.get_id()}:{X}"
            if key not in ip.path.unfolded:
                ip.path.unfolded.add(key)
                if Xobj is not None:
                    ip.models.env_fact(Xobj, i)
                ip.path.assume(z3.Implies(z3.And(i >= 0, i < n),
                                          DOT(cur, n, X) == DOT(a, n, X) + (v - z3.Select(a, i)) * z3.Select(X, i)))
            cur = a
            seen += 1
        if z3.is_app(cur) and cur.decl().kind() == z3.Z3_OP_CONST_ARRAY:
            key = f"dotconst:{cur.get_id()}:{X}:{n}"
            if key not in ip.path.unfolded and z3.is_rational_value(cur.arg(0)) and cur.arg(0).as_fraction() == 0:
                ip.path.unfolded.add(key)
                ip.path.assume(DOT(cur, n, X) == 0)                         # lean: dot_zero

    def const_lemma(sp, ref, E):
        """degree 0 => constant evaluation (lean: deg0_const)."""
        p = sp.ip.path
        key = f"deg0const:{ref}:{E}"
        if key in p.unfolded:
            return
        p.unfolded.add(key)
        S = sp.S
        p.assume(z3.Implies(z3.And(S.ISPOLY(ref), S.SDEG(ref) == 0), S.DEN(ref, E, sp.PV) == S.DEN(ref, ZENV, sp.PV)))

    def linear(sp, e):
        return z3.And(sp.ispoly(e), sp.sdeg(e) <= 1, sp.syn(e))

    def child_lemmas(c, sp, e):
        r = sp.ref(e)
        kind = sp.ip.path.kinds.get(str(r))
        if kind == "BinaryOp":
            for f in ("left", "right"):
                const_lemma(sp, sp.S.F(f, sym.Ref)(r), sp.E)
        elif kind == "UnaryOp":
            const_lemma(sp, sp.S.F("operand", sym.Ref)(r), sp.E)

    # ---- _extract_constant_impl:  res = value of the formula at the zero point
    @reg.contract(f"{M}:_extract_constant_impl", props=["C05", "C07", "C08", "C06"], cases={"node": lin_cases}, group="lpconst", rank=1)
    def _(c):
        sp = Spec(c.ip)
        case = c.choose("node", lin_cases)
        e = setup_node(c, sp, case)
        c.decreases(e)
        c.requires(sp.nodiv0(e), name="no division by the literal constant 0")
        c.requires(linear(sp, e), name="linear expression")
        c.returns(T.real("float"))
        c.ensures("constant", lambda res: real_term(res) == sp.den(e, ZENV, sp.PV))
        if c.verifying and case == "VectorPowerSum":
            # sum_{k<n} x_k ** 0 = n : instance of psum_const (lean: Finset.sum_const) for the array of powers at the zero point
            from .seqtheory import VLEN, register_vector, skolem
            from .vecspec import FV
            r = sp.ref(e)
            v = FV(sp, r)
            register_vector(sp, v, None, ZENV, sp.PV)
            sp.den(e, ZENV, sp.PV)
            arrZ = sym.fn("A_pows", sym.Ref, sym.EnvSort, sym.PVSort, sym.RealArr)(r, ZENV, sp.PV)
            nn = VLEN(v)
            skc = skolem(c.ip, "sk_const", nn)
            c.ip.reg.index_used(c.ip, skc)
            c.assume(z3.Or(z3.And(skc >= 0, skc < nn, z3.Select(arrZ, skc) != 1), sp.S.PSUM(arrZ, nn) == sym.to_real(nn)))
        if c.verifying and case == "LinearCombination|VectorExpression":
            # (present after the D9 repair) weighted sum of the elements' constants:  total = sum_{k<i} c_k * [[elem_k]](0)
            from .seqtheory import VLEN, register_vector
            from .vecspec import FV
            r = sp.ref(e)
            v = FV(sp, r)
            register_vector(sp, v, None, ZENV, sp.PV)
            sp.den(e, ZENV, sp.PV)
            arrZ = sym.fn("A_lc", sym.Ref, sym.EnvSort, sym.PVSort, sym.RealArr)(r, ZENV, sp.PV)

            def inv(st):
                return [real_term(st.var("total")) == sp.S.PSUM(arrZ, st.i)]
            c.loop(1, inv, havoc={"total": T.real("float")})

    # ---- _extract_all_coefficients_impl: accumulates multiplier * (linear part of e) into result
    @reg.contract(f"{M}:_extract_all_coefficients_impl", props=["C05", "C08", "C06"], cases={"node": lin_cases}, group="lpcoef", rank=1)
    def _(c):
        sp = Spec(c.ip)
        case = c.choose("node", lin_cases)
        e = setup_node(c, sp, case)
        vi = c.arg("var_index", T.custom(lambda ip, hint: fresh_var_indices(ip)))
        IDX = index_term(vi)
        n = NV(IDX)
        res = c.arg("result", T.custom(lambda ip, hint: SArr(sym.fresh("result", sym.RealArr), n=n)))
        m = c.arg("multiplier", T.real("float"))
        if not isinstance(res, SArr):
            raise Unsupported("_extract_all_coefficients_impl: result is not a tracked array")
        X = point(c.ip, IDX)
        c.decreases(e)
        c.requires(sp.nodiv0(e), name="no division by the literal constant 0")
        c.requires(linear(sp, e), name="linear expression")
        c.requires(reg.covers(sp, e, IDX), name="every variable of the expression is in the index map")
        if not c.verifying:
            c.requires(c.ip.models.len_term(res.n) == n, name="result has one entry per variable")
        old = res.arr
        mt = real_term(m)
        if c.verifying:
            child_lemmas(c, sp, e)
            install_lp_loops(c, sp, e, case, res, old, mt, X, n)
        else:
            res.arr = sym.fresh("result_after", sym.RealArr)        # modifies: result (nothing else)
        c.raises("NonLinearError", when=None, name="raises NonLinearError (a product neither factor of which is reported constant)")
        c.returns(T.none())

        def post(_ret):
            dot_update_lemmas(c.ip, res.arr, n, X.arr, X)
            dot_update_lemmas(c.ip, old, n, X.arr, X)
            return DOT(res.arr, n, X.arr) == DOT(old, n, X.arr) + mt * (sp.den(e, sp.E, sp.PV) - sp.den(e, ZENV, sp.PV))
        c.ensures("dot", post)

    def install_lp_loops(c, sp, e, case, res, old, mt, X, n):
        from .seqtheory import VLEN, ELEMV, ELEME, FNAME, DENV, register_vector, named_array, psum
        from .vecspec import FV, COEF
        kind = case.split("|")[0]
        r = sp.ref(e)
        if kind in ("VectorSum", "LinearCombination"):
            v = FV(sp, r)
            register_vector(sp, v, None, sp.E, sp.PV)
            register_vector(sp, v, None, ZENV, sp.PV)
            sp.den(e, sp.E, sp.PV); sp.den(e, ZENV, sp.PV)
            arrE = sym.fn("A_vsum" if kind == "VectorSum" else "A_lc", sym.Ref, sym.EnvSort, sym.PVSort, sym.RealArr)(r, sp.E, sp.PV)
            arrZ = sym.fn("A_vsum" if kind == "VectorSum" else "A_lc", sym.Ref, sym.EnvSort, sym.PVSort, sym.RealArr)(r, ZENV, sp.PV)
            def inv(st):
                dot_update_lemmas(c.ip, res.arr, n, X.arr, X)
                return DOT(res.arr, n, X.arr) == DOT(old, n, X.arr) + mt * (sp.S.PSUM(arrE, st.i) - sp.S.PSUM(arrZ, st.i))
            hv = {"__mutated__": lambda ip, fr: setattr(res, "arr", sym.fresh("result_loop", sym.RealArr)),
                  "idx": T.opt(T.int_()), "coeff": T.real("float")}
            # loops of _extract_all_coefficients_impl in source order: 1 VectorSum, 2 LC/VectorVariable, 3 LC/VectorExpression
            if kind == "VectorSum":
                c.loop(1, inv, havoc=hv)
            elif case.endswith("VectorVariable"):
                c.loop(2, inv, havoc=hv)
            else:
                c.loop(3, inv, havoc=hv)
        if kind == "VectorPowerSum":
            # (arm present after the D24 repair) sum(x ** 1): like VectorSum, over the array of powers
            v = FV(sp, r)
            register_vector(sp, v, None, sp.E, sp.PV)
            register_vector(sp, v, None, ZENV, sp.PV)
            sp.den(e, sp.E, sp.PV); sp.den(e, ZENV, sp.PV)
            arrE = sym.fn("A_pows", sym.Ref, sym.EnvSort, sym.PVSort, sym.RealArr)(r, sp.E, sp.PV)
            arrZ = sym.fn("A_pows", sym.Ref, sym.EnvSort, sym.PVSort, sym.RealArr)(r, ZENV, sp.PV)

            from .seqtheory import skolem as _sk
            for arr_ in (arrE, arrZ):     # power 0: every entry is 1, the sum is n   (lean: psum_const / Finset.sum_const)
                skc = _sk(c.ip, "sk_const", VLEN(v))
                c.ip.reg.index_used(c.ip, skc)
                c.assume(z3.Or(z3.And(skc >= 0, skc < VLEN(v), z3.Select(arr_, skc) != 1),
                               sp.S.PSUM(arr_, VLEN(v)) == sym.to_real(VLEN(v))))

            def inv4(st):
                dot_update_lemmas(c.ip, res.arr, n, X.arr, X)
                return DOT(res.arr, n, X.arr) == DOT(old, n, X.arr) + mt * (sp.S.PSUM(arrE, st.i) - sp.S.PSUM(arrZ, st.i))
            c.loop(4, inv4, havoc={"__mutated__": lambda ip, fr: setattr(res, "arr", sym.fresh("result_loop", sym.RealArr)),
                                   "idx": T.opt(T.int_())})
    reg.lp = dict(DOT=DOT, ZENV=ZENV, point=point, linear=linear, dot_update_lemmas=dot_update_lemmas, lin_cases=lin_cases)


def install_lp2(reg, src):
    """extract_all_linear_coefficients (+ fast paths), _try_extract_fast_binop, extract_constant_term."""
    from .compiler_c import fresh_var_indices, index_term, NV, INDOM, DOMOF
    from pyvc.values import SArr, SMap, SSeq, Unsupported, real_term, SInt
    from .seqtheory import VLEN, ELEMV, FNAME, register_vector, seqs, _once, skolem, add_index
    from .vecspec import FV
    L = reg.lp
    DOT, ZENV, point, linear, dot_update_lemmas, lin_cases = (L["DOT"], L["ZENV"], L["point"], L["linear"],
                                                              L["dot_update_lemmas"], L["lin_cases"])
    INJ = sym.fn("IDXINJ", reg.IDXS, sym.B)      # index map is injective on its key set

    def idx_facts_for_vector(sp, v, IDX, X=None):
        """range and injectivity instances of the index map at the names of the vector's variables."""
        ip = sp.ip
        p = ip.path
        n = VLEN(v)

        def pw(k):
            if _once(ip, f"idxvec:{v}:{IDX}:{k}"):
                nm = FNAME(ELEMV(v, k))
                t = z3.Select(IDX, nm)
                p.assume(z3.Implies(INDOM(IDX, nm), z3.And(t >= 0, t < NV(IDX))))
                if X is not None:
                    ip.models.env_fact(X, t)        # x[IDX[name]] = E[name] at the name of the k-th vector variable
                for k2 in list(seqs(ip).idx):
                    if not k2.eq(k) and _once(ip, f"idxinj:{v}:{IDX}:{min(str(k), str(k2))}:{max(str(k), str(k2))}"):
                        nm2 = FNAME(ELEMV(v, k2))
                        p.assume(z3.Implies(z3.And(INJ(IDX), INDOM(IDX, nm), INDOM(IDX, nm2), t == z3.Select(IDX, nm2)), nm == nm2))
        if _once(ip, f"idxvecreg:{v}:{IDX}"):
            seqs(ip).pointwise.append(pw)

    def perm_lemma(sp, B, A, n, pi, Xobj=None):
        """sum_{k<n} A[pi k] = sum_{j<n} A[j] for pi injective [0,n)->[0,n); B[k] = A[pi k]     (lean: psum_perm / Equiv.sum_comp)"""
        ip = sp.ip
        if not _once(ip, f"perm:{B}:{A}:{n}"):
            return
        s1, s2, s3 = skolem(ip, "sk_permr", n), skolem(ip, "sk_perm1", n), skolem(ip, "sk_perm2", n)
        S = sp.S
        if Xobj is not None:
            for s_ in (s1, s2, s3):
                ip.models.env_fact(Xobj, pi(s_))
        ip.path.assume(z3.Or(S.PSUM(B, n) == S.PSUM(A, n),
                             z3.And(s1 >= 0, s1 < n, z3.Not(z3.And(pi(s1) >= 0, pi(s1) < n))),
                             z3.And(s2 >= 0, s2 < n, s3 >= 0, s3 < n, s2 != s3, pi(s2) == pi(s3)),
                             z3.And(s1 >= 0, s1 < n, z3.Select(B, s1) != z3.Select(A, pi(s1)))))

    def ones_lemma(ip, arr, n, X):
        if z3.is_app(arr) and arr.decl().kind() == z3.Z3_OP_CONST_ARRAY and _once(ip, f"dotones:{arr}:{n}:{X}"):
            c0 = arr.arg(0)
            ip.path.assume(DOT(arr, n, X) == c0 * ip.schema.PSUM(X, n))        # lean: dot_const

    def copy_lemma(ip, arr, n, X, src_arr):
        """DOT(a, n, x) as a finite sum of products (definition)."""
        pass

    def setup(c, sp, case):
        e = setup_node(c, sp, case)
        vi = c.arg("var_index", T.custom(lambda ip, hint: fresh_var_indices(ip)))
        IDX = index_term(vi)
        nn = c.arg("n", T.custom(lambda ip, hint: SInt(NV(IDX))))
        X = point(c.ip, IDX)
        c.requires(sp.nodiv0(e), name="no division by the literal constant 0")
        c.requires(reg.covers(sp, e, IDX), name="every variable of the expression is in the index map")
        c.requires(INJ(IDX), name="index map injective")
        if not c.verifying:
            from pyvc.values import num_term
            c.requires(num_term(nn) == NV(IDX), name="n is the number of variables")
        return e, vi, IDX, X

    # every node kind: for the kinds outside the LP class the routine must not return normally (is_linear answers False there,
    # by the proved `lp-class` clause of the degree contract), so the post-condition is vacuous and NonLinearError the only exit
    all_cases = degree_cases(src)

    def coef_post(c, sp, e, IDX, X):
        n = NV(IDX)
        def post(res):
            res = c.ip.models.narrow(c.ip, res)
            if not isinstance(res, (SArr, SSeq)):
                return z3.BoolVal(False)
            ip = c.ip
            if not c.verifying and isinstance(res, SArr):
                ip.path.ghost.setdefault("lp_rows", []).append(res)      # coefficient rows of this path (DOT lemma instances)
            if isinstance(res, SSeq):
                # a copied coefficient array: DOT over it is the sum of products (definition instance)
                arr = sym.fresh("copied", sym.RealArr)
                from .seqtheory import define_array
                prod = sym.fresh("prodterms", sym.RealArr)
                define_array(ip, arr, n, lambda k: real_term(res.get(k)), "code")
                define_array(ip, prod, n, lambda k: z3.Select(arr, k) * z3.Select(X.arr, k), "code")
                ip.path.assume(DOT(arr, n, X.arr) == ip.schema.PSUM(prod, n))        # lean: dot_def
                ln = ip.models.len_term(res.n)
                tot = DOT(arr, n, X.arr)
            else:
                arr = res.arr
                dot_update_lemmas(ip, arr, n, X.arr, X)
                ones_lemma(ip, arr, n, X.arr)
                ln = ip.models.len_term(res.n)
                tot = DOT(arr, n, X.arr)
            r = sp.ref(e)
            kind = ip.path.kinds.get(str(r))
            if kind in ("VectorSum", "LinearCombination") or kind == "BinaryOp":
                vs = []
                if kind == "BinaryOp":
                    for f in ("left", "right"):
                        ch = sp.S.F(f, sym.Ref)(r)
                        if ip.path.kinds.get(str(ch)) in ("VectorSum", "LinearCombination"):
                            vs.append((ch, FV(sp, ch)))
                else:
                    vs.append((r, FV(sp, r)))
                for node, v in vs:
                    idx_facts_for_vector(sp, v, IDX, X)
                    nk = ip.path.kinds.get(str(node))
                    sp.S.DEN(node, sp.E, sp.PV)
                    from .specfns import unfold
                    unfold(sp, "den", node, (sp.E, sp.PV))
                    unfold(sp, "den", node, (ZENV, sp.PV))
                    if nk == "VectorSum":
                        B = sym.fn("A_vsum", sym.Ref, sym.EnvSort, sym.PVSort, sym.RealArr)(node, sp.E, sp.PV)
                        perm_lemma(sp, B, X.arr, n, lambda k, v=v: z3.Select(IDX, FNAME(ELEMV(v, k))), X)
                        from .seqtheory import define_array
                        define_array(ip, X.arr, n, lambda k: z3.Select(X.arr, k), "code")
            return [ln == n, tot == sp.den(e, sp.E, sp.PV) - sp.den(e, ZENV, sp.PV)]
        return post

    @reg.contract(f"{M}:extract_all_linear_coefficients", props=["C05", "C08", "C06"], cases={"node": all_cases})
    def _(c):
        sp = Spec(c.ip)
        case = c.choose("node", all_cases)
        e, vi, IDX, X = setup(c, sp, case)
        c.raises("NonLinearError", when=None, name="raises NonLinearError (only when is_linear answered False)")
        c.returns(T.custom(lambda ip, hint: SArr(sym.fresh("coeffs", sym.RealArr), n=NV(IDX))))
        c.ensures("coefficients", coef_post(c, sp, e, IDX, X))

    bin_cases = [f"BinaryOp:{op}" for op in BINARY_OPS]

    @reg.contract(f"{M}:_try_extract_fast_binop", props=["C05", "C08", "C06"], cases={"node": bin_cases, "left": ["VectorSum", "LinearCombination", "other"],
                                                                         "right": ["Constant", "VectorSum", "other"]},
                  vacuous_ok=True)
    def _(c):
        sp = Spec(c.ip)
        case = c.choose("node", bin_cases)
        e, vi, IDX, X = setup(c, sp, case)
        c.requires(linear(sp, e), name="linear expression")
        if c.verifying:
            r = sp.ref(e)
            for f, want in (("left", c.case["left"]), ("right", c.case["right"])):
                ch = sp.S.F(f, sym.Ref)(r)
                if want != "other":
                    c.assume(sp.K.is_kind(ch, want))
                    sp.S.learn_kind(c.ip, ch, want)
                    if want in ("VectorSum",):
                        vv = FV(sp, ch)
                        c.assume(sp.K.is_kind(vv, "VectorVariable"))
                        sp.S.learn_kind(c.ip, vv, "VectorVariable")
                else:
                    c.assume(z3.Not(sp.K.is_any(ch, ["VectorSum", "LinearCombination", "Constant"])))
        c.returns(T.opt(T.custom(lambda ip, hint: SArr(sym.fresh("fastcoeffs", sym.RealArr), n=NV(IDX)))))
        post = coef_post(c, sp, e, IDX, X)

        def post2(res):
            from pyvc.values import SOpt
            if res is None:
                return z3.BoolVal(True)
            if isinstance(res, SOpt):
                inner = post(res.val)
                return [z3.Implies(z3.Not(res.isnone), g) for g in inner]
            return post(res)
        c.ensures("coefficients", post2)

    @reg.contract(f"{M}:extract_constant_term", props=["C05", "C07", "C08", "C06"], cases={"node": all_cases})
    def _(c):
        sp = Spec(c.ip)
        case = c.choose("node", all_cases)
        e = setup_node(c, sp, case)
        c.requires(sp.nodiv0(e), name="no division by the literal constant 0")
        c.raises("NonLinearError", when=None, name="raises NonLinearError (only when is_linear answered False)")
        c.returns(T.real("float"))
        c.ensures("constant", lambda res: real_term(res) == sp.den(e, ZENV, sp.PV))
    reg.lp["INJ"] = INJ


def install_lp_replay(reg, src):
    import random as _random
    import sys as _sys, os as _os
    _sys.path.insert(0, _os.path.join(_os.path.dirname(_os.path.dirname(_os.path.abspath(__file__))), "native"))
    import build as nbuild
    from pyvc.concretize import Concretizer, find_const

    def conc(eng, ob, model, oid):
        cz = Concretizer(eng, model)
        cz.degree_mode = True
        e = find_const(ob, "expr!")
        if e is None:
            return None
        job = {"family": "lp", "fn": oid.split(" / ")[0], "args": [cz.expr(e)], "clause": oid.split(" / ")[-1], "env": cz.env}
        idx = find_const(ob, "var_indices!")
        if idx is not None:
            job["order"] = cz.column_order(idx, reg.NV)
        return job

    def search(eng, ob, oid, seed):
        rng = _random.Random(seed)
        case = oid.split(" / ")[1]
        root = None
        for part in case.split(","):
            if part.startswith("node="):
                root = part.split("=", 1)[1].split("|")[0]
        pool, tries = [], 0
        while len(pool) < 500 and tries < 40000:
            tries += 1
            e = nbuild.rand_linear(rng, 3)
            r0 = e["cls"] + (":" + e["op"] if e["cls"] in ("BinaryOp", "UnaryOp") else "")
            if root and r0 != root:
                continue
            pool.append({"args": [e]})
        return {"mode": "search", "family": "lp", "fn": oid.split(" / ")[0], "clause": oid.split(" / ")[-1], "pool": pool,
                "seed": seed, "points": 2}

    for k in list(reg.contracts):
        if k.startswith(M + ":") and ("extract" in k):
            reg.concretizers[k] = conc
            reg.native_searches[k] = search
