"""Spike 4: can the positional result-stack discipline of _build_evaluator_iterative be carried by
a quantifier-free invariant?  Ghost tag list parallel to result_stack + spec function T(tags, stack)."""
import z3, time
Ref = z3.DeclareSort("Ref")
left = z3.Function("left", Ref, Ref); right = z3.Function("right", Ref, Ref)
isbin = z3.Function("isbin", Ref, z3.BoolSort()); isleaf = z3.Function("isleaf", Ref, z3.BoolSort())
# lists of nodes (tags) and lists of frames
NL = z3.Datatype("NL"); NL.declare("nil"); NL.declare("snoc", ("init", NL), ("last", Ref)); NL = NL.create()
FR = z3.Datatype("FR"); FR.declare("fr", ("node", Ref), ("phase", z3.IntSort())); FR = FR.create()
FL = z3.Datatype("FL"); FL.declare("fnil"); FL.declare("fsnoc", ("finit", FL), ("flast", FR)); FL = FL.create()
T = z3.Function("T", NL, FL, NL)            # spec: tags the machine ends with
ERR = z3.Const("ERR", NL)
def unfold(tags, stack):
    """definitional unfolding of T at a stack whose top frame is syntactically known"""
    n, ph, s = FR.node(FL.flast(stack)), FR.phase(FL.flast(stack)), FL.finit(stack)
    two = z3.And(NL.is_snoc(tags), NL.is_snoc(NL.init(tags)),
                 NL.last(tags) == right(n), NL.last(NL.init(tags)) == left(n))
    return z3.And(
        z3.Implies(ph == 0, T(tags, stack) == T(NL.snoc(tags, n), s)),
        z3.Implies(ph == 1, T(tags, stack) == z3.If(two, T(NL.snoc(NL.init(NL.init(tags)), n), s), ERR)))
def prove(pc, goal, label):
    s = z3.Solver(); s.set("timeout", 10000); s.add(*pc); s.add(z3.Not(goal))
    t = time.time(); r = s.check()
    print(f"  [{'PROVED ' if r == z3.unsat else 'REFUTED' if r == z3.sat else 'UNKNOWN'}] {label} ({(time.time()-t)*1000:.0f} ms)")
expr = z3.Const("expr", Ref); GOAL = NL.snoc(NL.nil, expr)
tags = z3.Const("tags", NL); s0 = z3.Const("s0", FL); n = z3.Const("n", Ref)
base = [ERR != GOAL]
# phase 0, binary node: code pushes (n,1),(right,0),(left,0) and leaves result_stack alone
st = FL.fsnoc(s0, FR.fr(n, 0)); st2 = FL.fsnoc(FL.fsnoc(FL.fsnoc(s0, FR.fr(n, 1)), FR.fr(right(n), 0)), FR.fr(left(n), 0))
u1 = unfold(tags, st2)
t1 = NL.snoc(tags, left(n)); s1 = FL.fsnoc(FL.fsnoc(s0, FR.fr(n, 1)), FR.fr(right(n), 0))
u2 = unfold(t1, s1); t2 = NL.snoc(t1, right(n)); s2 = FL.fsnoc(s0, FR.fr(n, 1)); u3 = unfold(t2, s2)
prove(base + [T(NL.nil, FL.fsnoc(FL.fnil, FR.fr(expr, 0))) == T(GOAL, FL.fnil), T(GOAL, FL.fnil) == GOAL], T(NL.nil, FL.fsnoc(FL.fnil, FR.fr(expr, 0))) == GOAL, "init: Inv holds for stack=[(expr,0)], result_stack=[]")
prove(base + [isbin(n), T(tags, st) == GOAL, unfold(tags, st), u1, u2, u3], T(tags, st2) == GOAL, "binary, first visit: Inv preserved (spec-level T, 4 unfoldings)")
# phase 0, leaf: code appends a closure for n (tag n)
prove(base + [isleaf(n), T(tags, st) == GOAL, unfold(tags, st)], T(NL.snoc(tags, n), s0) == GOAL, "leaf: Inv preserved")
# phase 1: Inv forces the top two tags to be (left n, right n) in this order, and popping right-then-left is correct
st1 = FL.fsnoc(s0, FR.fr(n, 1))
two = z3.And(NL.is_snoc(tags), NL.is_snoc(NL.init(tags)), NL.last(tags) == right(n), NL.last(NL.init(tags)) == left(n))
prove(base + [T(tags, st1) == GOAL, unfold(tags, st1)], two, "phase 1: top of result_stack is [.., F(left), F(right)]")
prove(base + [T(tags, st1) == GOAL, unfold(tags, st1)], T(NL.snoc(NL.init(NL.init(tags)), n), s0) == GOAL, "phase 1: Inv preserved after pop,pop,append")
# exit: stack empty
prove(base + [T(tags, FL.fnil) == GOAL, T(tags, FL.fnil) == tags], tags == GOAL, "exit: result_stack == [F(expr)]")
# mutant M5: code pops left first (treats top as left): then the closure is op(F(right),F(left)) -> tag clause fails
prove(base + [T(tags, st1) == GOAL, unfold(tags, st1)], NL.last(tags) == left(n), "MUTANT pop order (must be REFUTED)")
