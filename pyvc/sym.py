"""z3 vocabulary shared by the executor and the contracts.

Sorts
  Ref   uninterpreted: every heap object the code under proof did not allocate itself
  Name  uninterpreted: strings that are only compared / used as keys (variable names, op names)
  Real / Int / Bool

Everything here is quantifier-free; spec functions (DEN, DV, ...) are uninterpreted and get their
meaning from unfolding instances added on demand by pyvc.spec.
"""
from __future__ import annotations

import itertools
from fractions import Fraction

import z3

# z3's Python pretty-printer dominates run time when terms are used in memo keys: use the C-level s-expression printer
z3.ExprRef.__str__ = lambda self: self.sexpr()
z3.ExprRef.__repr__ = lambda self: self.sexpr()

Ref = z3.DeclareSort("Ref")
Name = z3.DeclareSort("Name")
R = z3.RealSort()
I = z3.IntSort()
B = z3.BoolSort()

EnvSort = z3.ArraySort(Name, R)        # variable name -> value
PVSort = z3.ArraySort(Ref, R)          # Parameter object -> current value  (the "_value" store)
RealArr = z3.ArraySort(I, R)
IntArr = z3.ArraySort(I, I)
RefArr = z3.ArraySort(I, Ref)
RealMat = z3.ArraySort(I, z3.ArraySort(I, R))   # nested (cvc5 1.0 has no multi-index arrays)


def msel(M, i, j):
    return z3.Select(z3.Select(M, i), j)


def mstore(M, i, j, v):
    return z3.Store(M, i, z3.Store(z3.Select(M, i), j, v))

_funcs: dict[str, z3.FuncDeclRef] = {}


def fn(name: str, *sorts) -> z3.FuncDeclRef:
    """Memoised uninterpreted function (same name => same declaration)."""
    f = _funcs.get(name)
    if f is None:
        f = z3.Function(name, *sorts)
        _funcs[name] = f
    else:
        assert f.arity() == len(sorts) - 1, name
    return f


# ---- literals of sort Name: one constant per distinct Python string, pairwise distinct
_lits: dict[str, z3.ExprRef] = {}


def lit(s: str) -> z3.ExprRef:
    c = _lits.get(s)
    if c is None:
        c = z3.Const("lit!" + s, Name)
        _lits[s] = c
    return c


def lit_facts() -> list[z3.BoolRef]:
    if len(_lits) < 2:
        return []
    return [z3.Distinct(*_lits.values())]


def lit_of_model_value(model, val) -> str | None:
    for s, c in _lits.items():
        try:
            if model.eval(c, model_completion=True).eq(val):
                return s
        except Exception:
            pass
    return None


# ---- numbers
def rv(x) -> z3.ArithRef:
    """Exact real value of a Python number (floats are taken as the exact binary rational)."""
    if isinstance(x, bool):
        return z3.RealVal(1 if x else 0)
    if isinstance(x, int):
        return z3.RealVal(x)
    if isinstance(x, float):
        if x != x or x in (float("inf"), float("-inf")):
            from .values import Unsupported
            raise Unsupported("non-finite float reached real arithmetic (outside A1)")
        f = Fraction(x)
        return z3.RealVal(f"{f.numerator}/{f.denominator}")
    if isinstance(x, Fraction):
        return z3.RealVal(f"{x.numerator}/{x.denominator}")
    raise TypeError(x)


def iv(x: int) -> z3.ArithRef:
    return z3.IntVal(x)


def to_real(t):
    if isinstance(t, (int, float, Fraction)):
        return rv(t)
    if z3.is_int(t):
        return z3.ToReal(t)
    return t


def zmax(a, b):
    return z3.If(a >= b, a, b)


def zmin(a, b):
    return z3.If(a <= b, a, b)


def zabs(a):
    return z3.If(a >= 0, a, -a)


# ---- kinds (exact class of an opaque object)
class Kinds:
    def __init__(self, class_names: list[str]):
        self.names = list(class_names)
        self.sort, consts = z3.EnumSort("Kind", self.names)
        self.const = dict(zip(self.names, consts))
        self.kind = z3.Function("kind", Ref, self.sort)

    def is_kind(self, ref, cls: str):
        return self.kind(ref) == self.const[cls]

    def is_any(self, ref, classes: list[str]):
        cs = [c for c in classes if c in self.const]
        if not cs:
            return z3.BoolVal(False)
        if len(cs) == 1:
            return self.is_kind(ref, cs[0])
        return z3.Or(*[self.is_kind(ref, c) for c in cs])


# ---- uninterpreted elementary functions of the reals (meaning comes from the identities the
#      rules need; none is assumed unless a contract instantiates it)
UNARY_REAL = ["sin", "cos", "tan", "exp", "log", "log2", "log10", "sqrt", "tanh", "sinh", "cosh",
              "asin", "acos", "atan", "asinh", "acosh", "atanh", "sign"]
UF = {n: fn("uf_" + n, R, R) for n in UNARY_REAL}
POW = fn("uf_pow", R, R, R)

_ctr = itertools.count()


def reset_fresh():
    global _ctr
    _ctr = itertools.count()


def fresh(prefix: str, sort) -> z3.ExprRef:
    return z3.Const(f"{prefix}!{next(_ctr)}", sort)


def simplify_bool(t):
    try:
        return z3.simplify(t)
    except Exception:
        return t


def is_true(t) -> bool:
    return z3.is_true(t)


def is_false(t) -> bool:
    return z3.is_false(t)
