import Mathlib
open Real

variable (f g : ℝ → ℝ) (f' g' x : ℝ)

theorem r_add (hf : HasDerivAt f f' x) (hg : HasDerivAt g g' x) :
    HasDerivAt (fun y => f y + g y) (f' + g') x := hf.add hg
theorem r_sub (hf : HasDerivAt f f' x) (hg : HasDerivAt g g' x) :
    HasDerivAt (fun y => f y - g y) (f' - g') x := hf.sub hg
theorem r_neg (hf : HasDerivAt f f' x) : HasDerivAt (fun y => -(f y)) (-f') x := hf.neg
theorem r_exp (hf : HasDerivAt f f' x) : HasDerivAt (fun y => Real.exp (f y)) (Real.exp (f x) * f') x := hf.exp
theorem r_cos (hf : HasDerivAt f f' x) : HasDerivAt (fun y => Real.cos (f y)) (-Real.sin (f x) * f') x := hf.cos
theorem r_log (hf : HasDerivAt f f' x) (h : f x ≠ 0) :
    HasDerivAt (fun y => Real.log (f y)) (1 / f x * f') x := by
  have := hf.log h
  convert this using 1; field_simp
theorem r_sqrt (hf : HasDerivAt f f' x) (h : f x ≠ 0) :
    HasDerivAt (fun y => Real.sqrt (f y)) (1 / (2 * Real.sqrt (f x)) * f') x := by
  have := hf.sqrt h
  convert this using 1; field_simp
theorem r_sinh (hf : HasDerivAt f f' x) : HasDerivAt (fun y => Real.sinh (f y)) (Real.cosh (f x) * f') x := hf.sinh
theorem r_cosh (hf : HasDerivAt f f' x) : HasDerivAt (fun y => Real.cosh (f y)) (Real.sinh (f x) * f') x := hf.cosh
theorem r_arctan (hf : HasDerivAt f f' x) :
    HasDerivAt (fun y => Real.arctan (f y)) (1 / (1 + f x * f x) * f') x := by
  have := hf.arctan
  convert this using 1; ring
theorem r_arcsin (hf : HasDerivAt f f' x) (h1 : f x ≠ -1) (h2 : f x ≠ 1) :
    HasDerivAt (fun y => Real.arcsin (f y)) (1 / Real.sqrt (1 - f x * f x) * f') x := by
  have := (Real.hasDerivAt_arcsin h1 h2).comp x hf
  have e : 1 / Real.sqrt (1 - f x * f x) * f' = 1 / Real.sqrt (1 - f x ^ 2) * f' := by ring_nf
  rw [e]; exact this
theorem r_arsinh (hf : HasDerivAt f f' x) :
    HasDerivAt (fun y => Real.arsinh (f y)) (1 / Real.sqrt (1 + f x * f x) * f') x := by
  have := hf.arsinh
  convert this using 1
  rw [smul_eq_mul]; ring_nf
theorem r_pow_const (p : ℝ) (hf : HasDerivAt f f' x) (h : f x ≠ 0 ∨ 1 ≤ p) :
    HasDerivAt (fun y => (f y) ^ p) (p * (f x) ^ (p - 1) * f') x := by
  have := hf.rpow_const (p := p) h
  convert this using 1; ring
theorem r_pow_gen (hf : HasDerivAt f f' x) (hg : HasDerivAt g g' x) (h : 0 < f x) :
    HasDerivAt (fun y => (f y) ^ (g y)) ((f x) ^ (g x) * (g' * Real.log (f x) + g x * f' / f x)) x := by
  have := hf.rpow hg h
  convert this using 1
  have hne : f x ≠ 0 := ne_of_gt h
  rw [Real.rpow_sub_one hne]; field_simp; ring
theorem r_abs (hf : HasDerivAt f f' x) (h : f x ≠ 0) :
    HasDerivAt (fun y => |f y|) (f x / |f x| * f') x := by
  have h1 : HasDerivAt (fun t : ℝ => |t|) (SignType.sign (f x) : ℝ) (f x) := hasDerivAt_abs h
  have h2 : HasDerivAt (fun y => |f y|) ((SignType.sign (f x) : ℝ) * f') x := h1.comp x hf
  have e : f x / |f x| * f' = (SignType.sign (f x) : ℝ) * f' := by
    rcases lt_or_gt_of_ne h with hlt | hgt
    · rw [abs_of_neg hlt, sign_neg hlt]; have : f x ≠ 0 := h; simp; field_simp
    · rw [abs_of_pos hgt, sign_pos hgt]; have : f x ≠ 0 := h; simp; field_simp
  rw [e]; exact h2
theorem r_tanh (hf : HasDerivAt f f' x) :
    HasDerivAt (fun y => Real.tanh (f y)) ((1 - Real.tanh (f x) * Real.tanh (f x)) * f') x := by
  have hc : Real.cosh (f x) ≠ 0 := ne_of_gt (Real.cosh_pos _)
  have h1 : HasDerivAt (fun y => Real.sinh (f y) / Real.cosh (f y))
      ((Real.cosh (f x) * f' * Real.cosh (f x) - Real.sinh (f x) * (Real.sinh (f x) * f')) / (Real.cosh (f x))^2) x :=
    (hf.sinh).div (hf.cosh) hc
  have e : (fun y => Real.tanh (f y)) = fun y => Real.sinh (f y) / Real.cosh (f y) := by
    funext y; exact Real.tanh_eq_sinh_div_cosh _
  rw [e]; convert h1 using 1
  rw [Real.tanh_eq_sinh_div_cosh]; field_simp
-- finite sums
theorem r_sum (n : ℕ) (F : ℕ → ℝ → ℝ) (F' : ℕ → ℝ) (h : ∀ i ∈ Finset.range n, HasDerivAt (F i) (F' i) x) :
    HasDerivAt (fun y => ∑ i ∈ Finset.range n, F i y) (∑ i ∈ Finset.range n, F' i) x :=
  HasDerivAt.fun_sum h
theorem s_succ (n : ℕ) (a : ℕ → ℝ) : ∑ i ∈ Finset.range (n+1), a i = ∑ i ∈ Finset.range n, a i + a n :=
  Finset.sum_range_succ a n
theorem s_congr (n : ℕ) (a b : ℕ → ℝ) (h : ∀ i, i < n → a i = b i) :
    ∑ i ∈ Finset.range n, a i = ∑ i ∈ Finset.range n, b i :=
  Finset.sum_congr rfl (fun i hi => h i (Finset.mem_range.mp hi))
-- polynomial degree closure
open MvPolynomial in
theorem d_C (σ : Type) (c : ℝ) : (C c : MvPolynomial σ ℝ).totalDegree = 0 := totalDegree_C c
open MvPolynomial in
theorem d_X (σ : Type) (i : σ) : (X i : MvPolynomial σ ℝ).totalDegree = 1 := totalDegree_X i
open MvPolynomial in
theorem d_sub (σ : Type) (p q : MvPolynomial σ ℝ) : (p - q).totalDegree ≤ max p.totalDegree q.totalDegree :=
  totalDegree_sub p q
open MvPolynomial in
theorem d_neg (σ : Type) (p : MvPolynomial σ ℝ) : (-p).totalDegree = p.totalDegree := totalDegree_neg p
open MvPolynomial in
theorem d_smul (σ : Type) (c : ℝ) (p : MvPolynomial σ ℝ) : (c • p).totalDegree ≤ p.totalDegree :=
  totalDegree_smul_le c p
open MvPolynomial in
theorem d_sum (σ : Type) (n : ℕ) (F : ℕ → MvPolynomial σ ℝ) :
    (∑ i ∈ Finset.range n, F i).totalDegree ≤ (Finset.range n).sup (fun i => (F i).totalDegree) :=
  totalDegree_finsetSum _ _
-- degree 0 => constant evaluation
open MvPolynomial in
theorem d_zero_const (σ : Type) (p : MvPolynomial σ ℝ) (h : p.totalDegree = 0) (u v : σ → ℝ) :
    eval u p = eval v p := by
  rw [totalDegree_eq_zero_iff_eq_C.mp h]; simp
