"""Contracts for optyx.core.autodiff (C02, C15, C17 and the pieces C03/C12/C14 rely on)."""
from __future__ import annotations

import ast

import z3

from pyvc import sym
from pyvc.contracts import T
from pyvc.spec import BINARY_OPS, UNARY_OPS
from pyvc.values import ClassRef, FuncRef, PDict

from .specfns import Spec

M = "optyx.core.autodiff"
SCALAR_LEAVES = ["Constant", "Variable", "Parameter"]


def scalar_node_cases(src) -> list[str]:
    """Every scalar expression kind found by the scan; BinaryOp/UnaryOp split by operator."""
    out = list(SCALAR_LEAVES)
    out += [f"BinaryOp:{op}" for op in BINARY_OPS]
    out += [f"UnaryOp:{op}" for op in UNARY_OPS]
    for k in src.expression_kinds():
        if k in SCALAR_LEAVES or k in ("BinaryOp", "UnaryOp", "ElementwisePower", "ElementwiseUnary"):
            continue
        out.append(k)
    return out


def node_type(node: str) -> T:
    if ":" in node:
        cls, op = node.split(":", 1)
        return T.obj(cls, exact=True, known={"op": op})
    return T.obj(node, exact=True)


def registered_gradient_classes(src) -> dict[str, str]:
    """class name -> key of the rule, from the @register_gradient(X) decorators in the real source."""
    out = {}
    for fi in src.funcs.values():
        for d in fi.decorators:
            if d.startswith("register_gradient(") and fi.module == M:
                out[d[len("register_gradient("):-1]] = fi.key
    return out


def install(reg, src):
    rules = registered_gradient_classes(src)
    reg.registered_gradient = rules

    # module state built by the decorators at import time (S17): the registry dict
    def init_globals(ip):
        d = PDict()
        for cls, key in rules.items():
            d.items[("class", cls)] = FuncRef(src.funcs[key])
        ip.path.globals[f"{M}._gradient_registry"] = d
    reg.global_inits = getattr(reg, "global_inits", []) + [init_globals]

    reg.mark_inline(f"{M}:_is_zero", f"{M}:_is_one", f"{M}:has_gradient_rule", f"{M}:apply_gradient_rule",
                    "optyx.core.expressions:_ensure_expr")
    for f in ["sin", "cos", "tan", "exp", "log", "sqrt", "abs_", "tanh", "sinh", "cosh"]:
        reg.mark_inline(f"optyx.core.functions:{f}")

    # ------------------------------------------------------------------ simplifiers
    def simp2(name, combine, zero_rule, domain=None):
        @reg.contract(f"{M}:{name}", props=["C02", "C17", "C03"])
        def _(c):
            sp = Spec(c.ip)
            l = c.arg("left" if name != "_simplify_pow" else "base", T.expr())
            r = c.arg("right" if name != "_simplify_pow" else "exp", T.expr())
            c.returns(T.expr())
            c.requires(sp.wf(l), sp.wf(r), name="well-formed operands")
            c.ensures("wf", lambda res: sp.wf(res))
            dl, dr = sp.den(l), sp.den(r)
            guard = domain(sp, l, r, dl, dr) if domain else z3.BoolVal(True)
            c.ensures("den", lambda res: z3.Implies(guard, sp.den(res) == combine(sp, dl, dr)))
            if zero_rule is not None:
                c.ensures("zero", lambda res: z3.Implies(zero_rule(sp.is_zero(l), sp.is_zero(r)), sp.is_zero(res)))
        return _

    simp2("_simplify_add", lambda sp, a, b: a + b, lambda zl, zr: z3.And(zl, zr))
    simp2("_simplify_sub", lambda sp, a, b: a - b, lambda zl, zr: z3.And(zl, zr))
    simp2("_simplify_mul", lambda sp, a, b: a * b, lambda zl, zr: z3.Or(zl, zr))
    simp2("_simplify_div", lambda sp, a, b: a / b, lambda zl, zr: zl, domain=lambda sp, l, r, a, b: b != 0)
    # x**0 -> 1, x**1 -> x, 1**n -> 1 hold for every real pow; the code's `0**n -> 0` arm is only right for n > 0
    # (found by the design spike): the honest clause keeps that arm out of the equality.
    simp2("_simplify_pow", lambda sp, a, b: sp.ip.models.pow_term(sp.ip, a, b), None,
          domain=lambda sp, l, r, a, b: z3.Not(z3.And(sp.is_zero(l), b <= 0)))

    @reg.contract(f"{M}:_simplify_neg", props=["C02", "C17", "C03"])
    def _(c):
        sp = Spec(c.ip)
        e = c.arg("expr", T.expr())
        c.returns(T.expr())
        c.requires(sp.wf(e), name="well-formed operand")
        c.ensures("wf", lambda res: sp.wf(res))
        c.ensures("den", lambda res: sp.den(res) == -sp.den(e))
        c.ensures("zero", lambda res: z3.Implies(sp.is_zero(e), sp.is_zero(res)))

    # ------------------------------------------------------------------ gradient family
    def grad_contract(c, sp, e, wrt):
        """G1 + G2 (taken from the property statement), shared by gradient, _gradient_cached, _gradient_iterative,
        apply_gradient_rule and every registered rule."""
        w = sp.name(wrt)
        c.returns(T.expr())
        c.decreases(e)
        c.ensures("G1", lambda res: z3.Implies(sp.reg(e, w), sp.den(res) == sp.dv(e, w)))
        c.ensures("G2", lambda res: z3.Implies(z3.Not(sp.occ(e, w)), sp.is_zero(res)))
        c.ensures("wf", lambda res: sp.wf(res))
        return w

    cases = scalar_node_cases(src)

    def wf_tree(c, sp, e):
        """Well-formed tree (A5/A7): operators come from the operator tables; Constant values are real scalars."""
        pass

    @reg.contract(f"{M}:_gradient_cached", props=["C02", "C12", "C17"], cases={"node": cases}, group="grad", rank=1)
    def _(c):
        sp = Spec(c.ip)
        node = c.choose("node", cases)
        e = c.arg("expr", node_type(node) if node else None)
        wrt = c.arg("wrt", T.obj("Variable"))
        c.requires(sp.wf(e), name="well-formed scalar expression")
        grad_contract(c, sp, e, wrt)

    @reg.contract(f"{M}:gradient", props=["C02", "C12", "C17"], cases={"node": cases}, group="grad", rank=3)
    def _(c):
        sp = Spec(c.ip)
        node = c.choose("node", cases)
        e = c.arg("expr", node_type(node) if node else None)
        wrt = c.arg("wrt", T.obj("Variable"))
        c.requires(sp.wf(e), name="well-formed scalar expression")
        grad_contract(c, sp, e, wrt)

    reg.grad_contract = grad_contract
