#!/usr/bin/env python3
"""tools/mark_fixed.py <finding-id>[,<id>...] <repo-commit>  -- move a known finding to the `fixed` list (a fixed entry suppresses nothing)."""
import json, os, sys
ROOT = os.path.dirname(os.path.dirname(os.path.abspath(__file__)))
p = os.path.join(ROOT, "known_findings.json")
d = json.load(open(p))
ids, commit = sys.argv[1].split(","), sys.argv[2]
keep = []
for f in d["findings"]:
    if f["id"] in ids:
        for prop in f["properties"][:1]:
            d.setdefault("fixed", []).append({
                "id": f["id"], "property": prop, "also_properties": f["properties"][1:], "commit": commit,
                "what_failed": f["what_fails"], "witness_recipe": f.get("witness_recipe", ""),
                "line": f"fixed: property={prop} {commit} {f['what_fails']}"})
    else:
        keep.append(f)
d["findings"] = keep
json.dump(d, open(p, "w"), indent=1)
print("fixed:", ids, "remaining findings:", [f["id"] for f in keep])
