"""Bounded stand-in for the derivative compilers (C03, C17) -- labelled bounded, never counted as proved.

Covers what the contracts only state: QuadraticForm / MatrixSum Jacobian rows, the vectorised power / unary gradients, lists of
two expressions, and compile_hessian / compute_hessian (diagonal shortcuts, mirroring loop).  For each expression of a fixed
pool and each of four variable lists (the expression's own variables in natural order, reversed, a seeded permutation, a
superset with two extra variables) the compiled callables are evaluated at two fixed points and compared, entry by entry, with
derivatives obtained independently: Richardson-extrapolated central differences of the oracle's own evaluator
(native/oracle.py), entries where the oracle reports a singularity being skipped.

Bounds: the pool below (every node kind x a few contexts, vectors of length 3, a 2x2 matrix), 6 variable lists (own order,
reversed, seeded permutation, superset, two supersets with a foreign variable between permuted positions), 2 points.
"""
from __future__ import annotations

import json
import math
import random
import sys
import time
from collections import Counter

import numpy as np

import build as B
import oracle as O
from bounded_twins import focus_pool, ENVS

def parameters_of(e, seen=None, out=None):
    """Parameter objects reachable from the tree (by attribute walk; vectors / matrices of numbers are skipped)."""
    from optyx.core.parameters import Parameter
    from optyx.core.expressions import Expression
    seen = set() if seen is None else seen
    out = [] if out is None else out
    if id(e) in seen:
        return out
    seen.add(id(e))
    if isinstance(e, Parameter):
        out.append(e)
        return out
    d = getattr(e, "__dict__", None)
    if d is None and hasattr(e, "__slots__"):
        d = {k: getattr(e, k, None) for k in e.__slots__}
    for v in (d or {}).values():
        if isinstance(v, (list, tuple)):
            for x in v:
                if isinstance(x, Expression) or hasattr(x, "_variables") or hasattr(x, "_expressions"):
                    parameters_of(x, seen, out)
        elif isinstance(v, Expression) or hasattr(v, "_variables") or hasattr(v, "_expressions"):
            parameters_of(v, seen, out)
    return out


PARAM_VALUES = [None, 2.75, 0.6]      # value each Parameter is set to before evaluating at point k (None: as built)

EXTRA = [
    ("BinaryOp:par*quad", {"cls": "py", "setup": "from optyx.core.parameters import Parameter\nx=VectorVariable('v',3)\np=Parameter('p',1.5)",
                           "expr": "x[0]**2 + x[1]**2 + p*x[0]*x[1]"}),
    ("BinaryOp:par*row", {"cls": "py", "setup": "from optyx.core.parameters import Parameter\nx=VectorVariable('v',3)\np=Parameter('p',1.5)",
                          "expr": "p * x.sum() + 1"}),
    ("BinaryOp:row*par", {"cls": "py", "setup": "from optyx.core.parameters import Parameter\nx=VectorVariable('v',3)\np=Parameter('p',1.5)",
                          "expr": "x.dot(x) * p"}),
    ("MatrixSum|MatrixVariable", {"cls": "py", "setup": "from optyx.core.matrices import MatrixSum\nX=MatrixVariable('X',2,2)", "expr": "MatrixSum(X)"}),
    ("MatrixSum|symmetric", {"cls": "py", "setup": "from optyx.core.matrices import MatrixSum\nS=MatrixVariable('S',2,2,symmetric=True)", "expr": "MatrixSum(S)"}),
    ("MatrixSum|MatrixExpression", {"cls": "py", "setup": "from optyx.core.matrices import MatrixSum\nX=MatrixVariable('X',2,2)", "expr": "MatrixSum(2*X)"}),
    ("QuadraticForm|sym", {"cls": "QuadraticForm", "vector": {"cls": "VectorVariable", "name": "v", "vars": [{"cls": "Variable", "name": f"v[{i}]"} for i in range(3)]},
                           "matrix": [[2.0, 1.0, 0.0], [1.0, 3.0, -1.0], [0.0, -1.0, 1.0]]}),
    ("DotProduct|overlap", {"cls": "py", "setup": "x=VectorVariable('v',3)", "expr": "x[0:2].dot(x[1:3])"}),
    ("DotProduct|self", {"cls": "py", "setup": "x=VectorVariable('v',3)", "expr": "x.dot(x)"}),
    ("BinaryOp:c-row", {"cls": "py", "setup": "x=VectorVariable('v',3)", "expr": "5 - 2*x.sum()"}),
    ("BinaryOp:row*c", {"cls": "py", "setup": "x=VectorVariable('v',3)", "expr": "(x**2).sum() * 3 + 1"}),
]

POINTS = [dict(ENVS[0], **{"X[0,0]": 0.6, "X[0,1]": 1.2, "X[1,0]": 0.8, "X[1,1]": 1.7, "u1": 0.3, "u2": 1.9}),
          dict(ENVS[1], **{"X[0,0]": 1.4, "X[0,1]": 0.5, "X[1,0]": 2.1, "X[1,1]": 0.9, "u1": 1.1, "u2": 0.7})]


INDEXED_KINDS = ("VectorPowerSum", "VectorUnarySum", "VectorSum", "DotProduct", "LinearCombination", "QuadraticForm", "L2Norm", "L1Norm")


def var_lists(e, rng, exhaustive=False):
    names = sorted(O.variables_of(e))
    if not names:
        names = ["x"]
    objs = {v.name: v for v in _all_vars(e)}
    mk = lambda n: objs.get(n) or B.build({"cls": "Variable", "name": n})
    base = [mk(n) for n in names]
    perm = list(base)
    rng.shuffle(perm)
    # a foreign variable in the middle of a non-monotone arrangement: the positions of the expression's variables are neither
    # sorted nor contiguous, and a foreign column lies between them
    rot = base[1:] + base[:1] if len(base) > 1 else list(base)
    inter = rot[:1] + [mk("u1")] + list(reversed(rot[1:]))
    inter2 = list(reversed(base))[:-1] + [mk("u2")] + list(reversed(base))[-1:]
    out = [("own", base), ("reversed", list(reversed(base))), ("permuted", perm),
           ("superset", [mk("u1")] + list(reversed(base)) + [mk("u2")]), ("interleaved", inter), ("interleaved2", inter2)]
    if exhaustive and 2 <= len(base) <= 3:
        # nodes with index-array fast paths: every arrangement of the expression's variables, alone and with one foreign
        # variable at every position (exhaustive for this size: any bug in "are the positions sorted / contiguous / complete"
        # tests shows up in one of them)
        import itertools
        seen = {tuple(v.name for v in l) for _, l in out}
        for items in (base, base + [mk("u1")]):
            for pm in itertools.permutations(items):
                key = tuple(v.name for v in pm)
                if key not in seen:
                    seen.add(key)
                    out.append(("arrangement " + ",".join(key), list(pm)))
    return out


def _all_vars(e):
    try:
        return list(e.get_variables())
    except Exception:       # noqa: BLE001
        return []


def d2num(e, a, b, env, h=1e-3):
    def f(da, db):
        env2 = dict(env)
        env2[a] = env2.get(a, 0.0) + da
        if a == b:
            env2[a] = env.get(a, 0.0) + da + db
        else:
            env2[b] = env2.get(b, 0.0) + db
        return O.den(e, env2)
    if a == b:
        v = (f(h, 0) - 2 * f(0, 0) + f(-h, 0)) / (h * h)
        v2 = (f(h / 2, 0) - 2 * f(0, 0) + f(-h / 2, 0)) / (h * h / 4)
    else:
        v = (f(h, h) - f(h, -h) - f(-h, h) + f(-h, -h)) / (4 * h * h)
        v2 = (f(h / 2, h / 2) - f(h / 2, -h / 2) - f(-h / 2, h / 2) + f(-h / 2, -h / 2)) / (h * h)
    best = (4 * v2 - v) / 3
    if not math.isfinite(best) or abs(v2 - v) > 1e-3 * max(1.0, abs(best)):
        raise O.Undefined()
    return best


def main():
    job = json.loads(sys.stdin.read())
    tier = job.get("tier", "quick")
    which = job.get("args", {}).get("what", "jacobian")
    rng = random.Random(job.get("seed", 0) + 5)
    t0 = time.time()
    from optyx.core import autodiff as AD, compiler as CP
    stats = Counter()
    fails = []
    pool = focus_pool() + EXTRA
    for fname, rc in pool:
        try:
            e = B.build(rc)
        except Exception:       # noqa: BLE001
            stats["unbuildable"] += 1
            continue
        for vname, V in var_lists(e, rng, exhaustive=fname.split("|")[0].split(":")[0] in INDEXED_KINDS):
            names = [v.name for v in V]
            if which == "jacobian":
                fns = []
                # a linear and a quadratic companion over the same variable list: lists that mix constant and non-constant
                # rows, in both orders (every row must come back at the position of its expression)
                lin = None
                for j_, v_ in enumerate(V):
                    t_ = v_ * float(j_ + 1)
                    lin = t_ if lin is None else lin + t_
                quad = V[0] * V[-1] + 1.0
                mixed_specs = []
                if vname in ("own", "reversed", "superset"):
                    mixed_specs = [("compile_jacobian[e,lin]", [e, lin]), ("compile_jacobian[lin,e]", [lin, e]),
                                   ("compile_jacobian[quad,lin,e]", [quad, lin, e])]
                for label, exprs_ in mixed_specs:
                    try:
                        fm = AD.compile_jacobian(exprs_, V)
                        env = POINTS[0]
                        x = np.array([env.get(n, 0.25) for n in names], dtype=float)
                        with np.errstate(all="ignore"):
                            Jm = np.asarray(fm(x), dtype=float)
                        full = {k: env.get(k, 0.25) for k in set(names) | set(env)}
                        bad = None
                        if Jm.shape != (len(exprs_), len(names)):
                            bad = f"shape {Jm.shape}"
                        for r_, ex_ in enumerate(exprs_):
                            if bad:
                                break
                            for j, n_ in enumerate(names):
                                try:
                                    want = O.dnum(ex_, n_, full)
                                except Exception:       # noqa: BLE001
                                    continue
                                stats["entries"] += 1
                                if not (math.isfinite(Jm[r_, j]) and abs(Jm[r_, j] - want) <= 1e-4 * max(1.0, abs(want))):
                                    bad = f"row {r_} d/d{n_}: got {Jm[r_, j]}, finite differences {want}, V={names}"
                                    break
                        if bad:
                            fails.append((label, fname, vname, bad))
                    except Exception as ex:     # noqa: BLE001
                        stats["raises:" + type(ex).__name__] += 1
                for label, mk in (("compile_jacobian", lambda: AD.compile_jacobian([e], V)),
                                  ("compile_gradient", lambda: CP.compile_gradient(e, V)),
                                  ("compile_jacobian[2]", lambda: AD.compile_jacobian([e, e * 2.0], V))):
                    try:
                        fns.append((label, mk()))
                    except Exception as ex:     # noqa: BLE001
                        stats["raises:" + type(ex).__name__] += 1
                        # a compiler that raises where evaluate() works is a disagreement only if the recursive gradient works
                        try:
                            AD.gradient(e, V[0])
                            fails.append((label, fname, vname, f"raises {type(ex).__name__} although gradient() succeeds"))
                        except Exception:       # noqa: BLE001
                            pass
                pars = parameters_of(e)
                for label, f in fns:
                    for pi_, env in enumerate(POINTS):
                        # C12: a Parameter updated after compilation is honoured by the compiled callable
                        if PARAM_VALUES[pi_ % len(PARAM_VALUES)] is not None:
                            for p_ in pars:
                                p_.set(PARAM_VALUES[pi_ % len(PARAM_VALUES)])
                        x = np.array([env.get(n, 0.25) for n in names], dtype=float)
                        try:
                            with np.errstate(all="ignore"):
                                out = np.asarray(f(x), dtype=float)
                        except Exception as ex:     # noqa: BLE001
                            fails.append((label, fname, vname, f"callable raises {type(ex).__name__}"))
                            break
                        rows = out.reshape(-1, len(names)) if out.size % len(names) == 0 else None
                        if rows is None:
                            fails.append((label, fname, vname, f"shape {out.shape}"))
                            break
                        bad = None
                        for j, n_ in enumerate(names):
                            try:
                                want = O.dnum(e, n_, {k: env.get(k, 0.25) for k in set(names) | set(env)})
                            except Exception:       # noqa: BLE001
                                continue
                            stats["entries"] += 1
                            got = rows[0][j]
                            if not (math.isfinite(got) and abs(got - want) <= 1e-4 * max(1.0, abs(want))):
                                bad = f"d/d{n_}: got {got}, finite differences {want}, V={names}"
                                break
                            if rows.shape[0] == 2 and not abs(rows[1][j] - 2 * want) <= 2e-4 * max(1.0, abs(want)):
                                bad = f"row 2 d/d{n_}: got {rows[1][j]}, expected {2 * want}"
                                break
                        if bad:
                            fails.append((label, fname, vname, bad))
                            break
            else:
                for label, mk in (("compile_hessian", lambda: AD.compile_hessian(e, V)),):
                    try:
                        f = mk()
                    except Exception as ex:     # noqa: BLE001
                        stats["raises:" + type(ex).__name__] += 1
                        try:
                            AD.gradient(AD.gradient(e, V[0]), V[0])
                            fails.append((label, fname, vname, f"raises {type(ex).__name__} although gradient(gradient()) succeeds"))
                        except Exception:       # noqa: BLE001
                            pass
                        continue
                    pars = parameters_of(e)
                    for pi_, env in enumerate(POINTS):
                        if PARAM_VALUES[pi_ % len(PARAM_VALUES)] is not None:
                            for p_ in pars:
                                p_.set(PARAM_VALUES[pi_ % len(PARAM_VALUES)])
                        full = {k: env.get(k, 0.25) for k in set(names) | set(env)}
                        x = np.array([full[n] for n in names], dtype=float)
                        try:
                            with np.errstate(all="ignore"):
                                H = np.asarray(f(x), dtype=float)
                        except Exception as ex:     # noqa: BLE001
                            fails.append((label, fname, vname, f"callable raises {type(ex).__name__}"))
                            break
                        if H.shape != (len(names), len(names)):
                            fails.append((label, fname, vname, f"shape {H.shape}"))
                            break
                        bad = None
                        if not np.allclose(H, H.T, rtol=1e-9, atol=1e-12, equal_nan=True):
                            bad = "not symmetric"
                        for a_ in range(len(names)):
                            if bad:
                                break
                            for b_ in range(a_, len(names)):
                                try:
                                    want = d2num(e, names[a_], names[b_], full)
                                except Exception:       # noqa: BLE001
                                    continue
                                stats["entries"] += 1
                                if not (math.isfinite(H[a_, b_]) and abs(H[a_, b_] - want) <= 5e-3 * max(1.0, abs(want))):
                                    bad = f"H[{names[a_]},{names[b_]}] = {H[a_, b_]}, finite differences {want}"
                                    break
                        if bad:
                            fails.append((label, fname, vname, bad))
                            break
            stats["cases"] += 1
    out, seen = [], set()
    for label, fname, vname, what in fails:
        sig = f"{label}:{fname}"
        if sig in seen:
            continue
        seen.add(sig)
        out.append({"signature": sig, "what": f"{label} on {fname} with the {vname} variable list: {what}", "job": {"focus": fname, "list": vname}})
    print(json.dumps({"cases": stats["cases"], "distinct": len(pool), "exhaustive": False, "seconds": round(time.time() - t0, 2),
                      "failures": out, "stats": dict(stats)}))


if __name__ == "__main__":
    main()
