"""Bounded stand-in for the part of C11 that is not under contract (labelled bounded, never counted as proved): views and
slices, matrix variables and expressions, reflected operators whose left operand is an ndarray (NumPy's own dispatch decides
what optyx method is called), the x.dot(A @ x) rewriting, shape-mismatch rejection in the matrix API.

Every recipe builds an optyx object through the public API and, in parallel, the NumPy value it should denote; the object is
evaluated with `.evaluate(values)` and compared entry by entry.  Mismatch recipes must raise.
Bounds: the fixed recipe list below x vector sizes {1,2,3,4,6} x matrix shapes {(1,3),(2,2),(2,3),(3,2)} x 2 seeded value sets.
"""
from __future__ import annotations

import json
import random
import sys
import time
from collections import Counter

import numpy as np


def as_np(obj, vals):
    from optyx.core.vectors import VectorVariable
    from optyx.core.matrices import MatrixVariable
    if isinstance(obj, VectorVariable):
        return np.array([vals[v.name] for v in obj._variables])
    if isinstance(obj, MatrixVariable):
        return np.array([[vals[obj[i, j].name] for j in range(obj.shape[1])] for i in range(obj.shape[0])])
    with np.errstate(all="ignore"):
        out = obj.evaluate(vals)
    return np.asarray(out, dtype=float)


def recipes(n, shape, rng):
    """(name, builder) pairs; a builder returns (optyx object, expected numpy value) or raises."""
    import optyx
    from optyx import VectorVariable, MatrixVariable
    r, c = shape
    x, y = VectorVariable("x", n), VectorVariable("y", n)
    A, B_ = MatrixVariable("A", r, c), MatrixVariable("B", r, c)
    vals = {v.name: rng.choice([0.5, 1.5, 2.0, -1.0, 3.0, 0.25]) for v in list(x) + list(y)}
    for M in (A, B_):
        for i in range(r):
            for j in range(c):
                vals[M[i, j].name] = rng.choice([0.5, 1.5, 2.0, -1.0, 3.0, 0.25])
    X, Y = np.array([vals[v.name] for v in x]), np.array([vals[v.name] for v in y])
    AN = np.array([[vals[A[i, j].name] for j in range(c)] for i in range(r)])
    BN = np.array([[vals[B_[i, j].name] for j in range(c)] for i in range(r)])
    cv = np.array([rng.choice([1.0, -2.0, 0.5, 3.0]) for _ in range(n)])
    Q = np.array([[rng.choice([1.0, 2.0, -1.0, 0.0]) for _ in range(n)] for _ in range(n)])
    s = 2.5
    R = []
    add = lambda name, f: R.append((name, f))
    # vectors: arithmetic incl. reflected, arrays on either side
    add("x+y", lambda: (x + y, X + Y)); add("x-y", lambda: (x - y, X - Y)); add("x*s", lambda: (x * s, X * s))
    add("s*x", lambda: (s * x, s * X)); add("x/s", lambda: (x / s, X / s)); add("s/x", lambda: (s / x, s / X))
    add("s-x", lambda: (s - x, s - X)); add("-x", lambda: (-x, -X)); add("x+c", lambda: (x + cv, X + cv))
    add("c+x", lambda: (cv + x, cv + X)); add("c-x", lambda: (cv - x, cv - X)); add("c/x", lambda: (cv / x, cv / X))
    add("c*x", lambda: (cv * x, cv * X)); add("c-(x+1)", lambda: (cv - (x + 1), cv - (X + 1)))
    add("(x+y)*s-y", lambda: ((x + y) * s - y, (X + Y) * s - Y)); add("x*y", lambda: (x * y, X * Y))
    add("(x**2)", lambda: (x ** 2, X ** 2)); add("(x**2)+y", lambda: ((x ** 2) + y, X ** 2 + Y))
    add("(x+y)**2", lambda: ((x + y) ** 2, (X + Y) ** 2))
    # reductions
    add("x.sum()", lambda: (x.sum(), X.sum())); add("(x-y).sum()", lambda: ((x - y).sum(), (X - Y).sum()))
    add("x.dot(y)", lambda: (x.dot(y), X @ Y)); add("(x+1).dot(y)", lambda: ((x + 1).dot(y), (X + 1) @ Y))
    add("c@x", lambda: (cv @ x, cv @ X)); add("x@c", lambda: (x @ cv, X @ cv)); add("x.norm()", lambda: (x.norm(), np.linalg.norm(X)))
    add("x.norm(1)", lambda: (x.norm(1), np.abs(X).sum())); add("(x**2).sum()", lambda: ((x ** 2).sum(), (X ** 2).sum()))
    add("Q@x", lambda: (Q @ x, Q @ X)); add("x.dot(Q@x)", lambda: (x.dot(Q @ x), X @ Q @ X))
    add("y.dot(Q@x)", lambda: (y.dot(Q @ x), Y @ Q @ X))
    # the x.dot(A @ x) -> QuadraticForm rewriting must fire only when both sides are the same vector in the same order
    add("x.dot(Q@x[::-1])", lambda: (x.dot(Q @ x[::-1]), X @ Q @ X[::-1])); add("x[::-1].dot(Q@x)", lambda: (x[::-1].dot(Q @ x), X[::-1] @ Q @ X))
    add("x[::-1].dot(Q@x[::-1])", lambda: (x[::-1].dot(Q @ x[::-1]), X[::-1] @ Q @ X[::-1]))
    if n >= 3:
        Pm = list(range(1, n)) + [0]
        add("rot(x).dot(Q@x)", lambda: (VectorVariable._from_variables("x", [x[i] for i in Pm]).dot(Q @ x), X[Pm] @ Q @ X)
            if hasattr(VectorVariable, "_from_variables") else (x.dot(Q @ x), X @ Q @ X))
    # views
    add("x[0]", lambda: (x[0], X[0])); add("x[-1]", lambda: (x[-1], X[-1]))
    if n >= 2:
        add("x[1:]", lambda: (x[1:], X[1:])); add("x[:-1]+x[1:]", lambda: (x[:-1] + x[1:], X[:-1] + X[1:]))
        add("x[::-1]", lambda: (x[::-1], X[::-1])); add("x[::2]", lambda: (x[::2], X[::2]))
        add("x[:-1].dot(x[1:])", lambda: (x[:-1].dot(x[1:]), X[:-1] @ X[1:]))
        add("x[1:].sum()", lambda: (x[1:].sum(), X[1:].sum()))
    # mismatches must be rejected
    if n >= 2:
        for nm, f in (("x+y[1:]", lambda: x + y[1:]), ("x.dot(y[1:])", lambda: x.dot(y[1:])), ("x+c[1:]", lambda: x + cv[1:]),
                      ("c[1:]@x", lambda: cv[1:] @ x), ("(x**2)+y[1:]", lambda: (x ** 2) + y[1:])):
            add("reject:" + nm, (lambda f=f: ("must-raise", f)))
    def con_case(build, want):
        def f():
            cons = build()
            got = np.array([float(k.expr.evaluate(vals)) for k in cons])
            return ("np", got, np.asarray(want, dtype=float).reshape(-1))
        return f
    # matrices
    add("A+B", lambda: (A + B_, AN + BN)); add("A-B", lambda: (A - B_, AN - BN)); add("A*s", lambda: (A * s, AN * s))
    add("s*A", lambda: (s * A, s * AN)); add("-A", lambda: (-A, -AN)); add("A/s", lambda: (A / s, AN / s))
    add("A+N", lambda: (A + BN, AN + BN)); add("N-A", lambda: (BN - A, BN - AN)); add("A.T", lambda: (A.T, AN.T))
    add("A.T.T", lambda: (A.T.T, AN)); add("(A+B).T", lambda: ((A + B_).T, (AN + BN).T))
    add("A[0,:]", lambda: (A[0, :], AN[0, :])); add("A[:,0]", lambda: (A[:, 0], AN[:, 0])); add("A.T[0,:]", lambda: (A.T[0, :], AN.T[0, :]))
    add("A[0,0]", lambda: (A[0, 0], AN[0, 0])); add("A.sum()", lambda: (A.sum(), AN.sum())); add("(2*A).sum()", lambda: ((2 * A).sum(), (2 * AN).sum()))
    add("A[0,:].sum()", lambda: (A[0, :].sum(), AN[0, :].sum()))
    if c >= 3:
        add("A[0,0:2].dot(A[0,1:3])", lambda: (A[0, 0:2].dot(A[0, 1:3]), AN[0, 0:2] @ AN[0, 1:3]))
        Q2 = np.array([[1.0, 2.0], [3.0, 4.0]])
        add("A[0,0:2].dot(Q@A[0,1:3])", lambda: (A[0, 0:2].dot(Q2 @ A[0, 1:3]), AN[0, 0:2] @ Q2 @ AN[0, 1:3]))
    if r == c:
        add("A.trace()", lambda: (A.trace(), np.trace(AN))); add("A.diagonal()", lambda: (A.diagonal(), np.diag(AN)))
        S = MatrixVariable("S", r, r, symmetric=True)
        def sym_case():
            v2 = dict(vals)
            SN = np.zeros((r, r))
            for i in range(r):
                for j in range(i, r):
                    v2[S[i, j].name] = SN[i, j] = SN[j, i] = rng.choice([1.0, 2.0, -1.0])
            got = np.array([[v2[S[i, j].name] for j in range(r)] for i in range(r)])
            return ("np", got, SN)
        add("symmetric sharing", sym_case)
        # a symmetric matrix used as an operand: every reduction / view / product sees the full r x r array
        SN2 = np.zeros((r, r))
        for i in range(r):
            for j in range(i, r):
                vals[S[i, j].name] = SN2[i, j] = SN2[j, i] = rng.choice([1.0, 2.0, -1.0, 0.5, 3.0])
        add("S.sum()", lambda: (S.sum(), SN2.sum())); add("S.T.sum()", lambda: (S.T.sum(), SN2.T.sum()))
        add("(S+0).sum()", lambda: ((S + 0).sum(), SN2.sum())); add("S.trace()", lambda: (S.trace(), np.trace(SN2)))
        add("S+A", lambda: (S + A, SN2 + AN)); add("S-S.T", lambda: (S - S.T, SN2 - SN2.T)); add("S*s", lambda: (S * s, SN2 * s))
        add("S[0,:]", lambda: (S[0, :], SN2[0, :])); add("S[:,0]", lambda: (S[:, 0], SN2[:, 0])); add("S[-1,:].sum()", lambda: (S[-1, :].sum(), SN2[-1, :].sum()))
        add("S.diagonal()", lambda: (S.diagonal(), np.diag(SN2))); add("S.T", lambda: (S.T, SN2.T))
        add("con:S<=N", con_case(lambda: S <= BN, SN2 - BN))
        if r == n:
            add("S@x", lambda: (S @ x, SN2 @ X))
    if c == n:
        add("A@x", lambda: (A @ x, AN @ X))
    else:
        add("reject:A@x", lambda: ("must-raise", lambda: A @ x))
    # element-wise matrix constraints (C10): one constraint per entry, row-major, whatever the memory layout of the array
    NF = np.asfortranarray(BN)
    NT = np.ascontiguousarray(BN.T).T          # same values as BN, column-major strides
    add("con:A<=N", con_case(lambda: A <= BN, AN - BN)); add("con:A<=N(F-order)", con_case(lambda: A <= NF, AN - BN))
    add("con:A>=N(transposed view)", con_case(lambda: A >= NT, BN - AN) if False else con_case(lambda: A >= NT, AN - BN))
    add("con:A<=B", con_case(lambda: A <= B_, AN - BN)); add("con:A<=s", con_case(lambda: A <= s, AN - s))
    add("con:(A+B)<=N", con_case(lambda: (A + B_) <= BN, AN + BN - BN)); add("con:x<=c", con_case(lambda: x <= cv, X - cv))
    add("con:x>=y", con_case(lambda: x >= y, X - Y))
    add("reject:A+B.T" if r != c else "A+B.T", (lambda: ("must-raise", lambda: A + B_.T)) if r != c else (lambda: (A + B_.T, AN + BN.T)))
    return R, vals


def main():
    job = json.loads(sys.stdin.read())
    tier = job.get("tier", "quick")
    rng = random.Random(job.get("seed", 0) + 23)
    t0 = time.time()
    stats = Counter()
    fails = []
    sizes = [1, 2, 3, 4, 6] if tier == "thorough" else [2, 3, 4]
    shapes = [(1, 3), (2, 2), (2, 3), (3, 2)] if tier == "thorough" else [(1, 3), (2, 2), (2, 3)]
    for n in sizes:
        for shape in shapes:
            for rep in range(2):
                try:
                    R, vals = recipes(n, shape, rng)
                except Exception as ex:     # noqa: BLE001
                    fails.append(("setup", f"{type(ex).__name__}: {ex}"))
                    continue
                for name, f in R:
                    stats["recipes"] += 1
                    try:
                        out = f()
                    except Exception as ex:     # noqa: BLE001
                        if not name.startswith("reject:"):
                            fails.append((name, f"building raises {type(ex).__name__}: {str(ex)[:80]}"))
                        continue
                    if out[0] == "must-raise":
                        try:
                            obj = out[1]()
                            fails.append((name, f"operands of incompatible shape are accepted (result {type(obj).__name__})"))
                        except Exception:       # noqa: BLE001
                            stats["rejected"] += 1
                        continue
                    if out[0] == "np":
                        got, want = out[1], out[2]
                    else:
                        obj, want = out
                        try:
                            got = as_np(obj, vals)
                        except Exception as ex:     # noqa: BLE001
                            fails.append((name, f"evaluate raises {type(ex).__name__}: {str(ex)[:80]}"))
                            continue
                    want = np.asarray(want, dtype=float)
                    stats["compared"] += 1
                    if got.shape != want.shape:
                        fails.append((name, f"shape {got.shape}, NumPy gives {want.shape} (n={n}, matrix {shape})"))
                    elif not np.allclose(got, want, rtol=1e-9, atol=1e-12, equal_nan=True):
                        fails.append((name, f"value {got.tolist()}, NumPy gives {want.tolist()} (n={n}, matrix {shape})"))
    out, seen = [], set()
    for name, what in fails:
        if name in seen:
            continue
        seen.add(name)
        out.append({"signature": name, "what": f"{name}: {what}", "job": {"recipe": name}})
    print(json.dumps({"cases": stats["recipes"], "distinct": stats["compared"] + stats["rejected"], "exhaustive": False,
                      "seconds": round(time.time() - t0, 2), "failures": out, "stats": dict(stats)}))


if __name__ == "__main__":
    main()
