"""Spike 3: the three remaining proof shapes, hand-encoded (formulation check only):
 (a) for-loop with a Sum invariant  (gradient_linear_combination, VectorExpression arm)
 (b) in-place array update + dot-update lemma  (_extract_all_coefficients_impl: Variable, '-', '*' arms)
 (c) worklist loop with a set-valued ghost  (_try_get_single_vector_source: BinaryOp and vector-node arms)"""
import z3, time
R, I = z3.RealSort(), z3.IntSort()
def prove(pc, goal, label):
    s = z3.Solver(); s.set("timeout", 10000); s.add(*pc); s.add(z3.Not(goal))
    t = time.time(); r = s.check()
    print(f"  [{'PROVED ' if r == z3.unsat else 'REFUTED' if r == z3.sat else 'UNKNOWN'}] {label} ({(time.time()-t)*1000:.0f} ms)")
    if r == z3.sat: print("    ", s.model())

print("(a) Sum invariant")
SUM = z3.Function("SUM", I, z3.ArraySort(I, R), R)
coef = z3.Array("coef", I, R); DVe = z3.Array("DV_elem", I, R)      # c_k, d⟦e_k⟧/dv
k = z3.Int("k"); T = z3.Lambda([k], coef[k] * DVe[k])
i, n = z3.Ints("i n")
den_res, den_res2, den_d, den_m = z3.Reals("den_res den_res2 den_d den_m")
inv = den_res == SUM(i, T)
step = [0 <= i, i < n, inv,
        den_d == DVe[i],                         # induction hypothesis for gradient(elem_i, wrt)
        den_m == coef[i] * den_d,                # contract of _simplify_mul(Constant(c_i), d_elem)
        den_res2 == den_res + den_m,             # contract of _simplify_add
        SUM(i + 1, T) == SUM(i, T) + T[i]]       # Sum unfolding instance (Lean: Finset.sum_range_succ)
prove([SUM(0, T) == 0], z3.RealVal(0) == SUM(0, T), "init: Constant(0.0) establishes Inv(0)")
prove(step, den_res2 == SUM(i + 1, T), "preserve: Inv(i) -> Inv(i+1)")
prove([inv, i == n], den_res == SUM(n, T), "use: Inv(n) gives den(result) = Σ c_k·∂e_k")
# mutant: coefficient index off by one (coeffs[i] -> coeffs[0]) must fail
prove(step[:4] + [den_m == coef[0] * den_d] + step[5:], den_res2 == SUM(i + 1, T), "MUTANT coeffs[0]: preserve (must be REFUTED)")

print("(b) array store + dot-update lemma")
AR = z3.ArraySort(I, R)
DOTX = z3.Function("DOTX", AR, R)                # dot(r, x) for the fixed symbolic x
x = z3.Array("x", I, R); r0 = z3.Array("r0", I, R); m = z3.Real("m"); j = z3.Int("j")
def upd_lemma(r, idx, v):                         # dot(store(r,i,v),x) = dot(r,x) + (v - r[i])·x[i]
    return DOTX(z3.Store(r, idx, v)) == DOTX(r) + (v - r[idx]) * x[idx]
r1 = z3.Store(r0, j, r0[j] + m)
prove([upd_lemma(r0, j, r0[j] + m)], DOTX(r1) == DOTX(r0) + m * (x[j] - 0), "Variable arm: result[idx] += multiplier")
L, L0, Rr, R0, c = z3.Reals("L L0 R R0 c")      # ⟦left⟧(x), ⟦left⟧(0), ...
ra, rb = z3.Array("ra", I, R), z3.Array("rb", I, R)
prove([DOTX(ra) == DOTX(r0) + m * (L - L0), DOTX(rb) == DOTX(ra) + (-m) * (Rr - R0)],
      DOTX(rb) == DOTX(r0) + m * ((L - Rr) - (L0 - R0)), "'-' arm: two recursive calls, multipliers m and -m")
prove([DOTX(ra) == DOTX(r0) + (m * c) * (Rr - R0)],
      DOTX(ra) == DOTX(r0) + m * (c * Rr - c * R0), "'*' arm with Constant left: multiplier m*c")
# defect D11 shape: neither side is a Constant instance, code adds nothing, but left has degree 0 (constant value c != 0)
prove([c != 0], DOTX(r0) == DOTX(r0) + m * (c * Rr - c * R0), "'*' arm, degree-0 non-Constant factor: (must be REFUTED = D11)")

print("(c) worklist with set-valued ghost")
V = z3.DeclareSort("VarName"); SetV = z3.ArraySort(V, z3.BoolSort())
def U(a, b): return z3.Map(z3.Or(z3.BoolVal(True), z3.BoolVal(True)).decl(), a, b) if False else z3.SetUnion(a, b)
VarsExpr, Done, Pend, PendRest, Vn, Vl, Vr, Src = [z3.Const(nm, SetV) for nm in
    ["VarsExpr", "Done", "Pend", "PendRest", "Vn", "Vl", "Vr", "Src"]]
inv = VarsExpr == z3.SetUnion(Done, Pend)
pop = Pend == z3.SetUnion(Vn, PendRest)           # popped node n, rest of the stack
prove([inv, pop, Vn == z3.SetUnion(Vl, Vr)],
      VarsExpr == z3.SetUnion(Done, z3.SetUnion(PendRest, z3.SetUnion(Vl, Vr))), "BinaryOp arm: push left,right keeps Inv")
prove([inv, pop, Vn == Src, z3.Or(Done == z3.EmptySet(V), Done == Src)],
      z3.And(VarsExpr == z3.SetUnion(z3.SetUnion(Done, Src), PendRest),
             z3.Or(z3.SetUnion(Done, Src) == Src)), "vector-node arm: Done' = Src")
prove([inv, Pend == z3.EmptySet(V), Done == Src], VarsExpr == Src, "exit: stack empty => Vars(expr) = set(source._variables)")
