"""Glue: load source + sidecar, verify a set of functions, discharge, summarise."""
from __future__ import annotations

import importlib
import os
import sys
import time

from . import sym
from .contracts import Registry, verify_function, FunctionReport
from .discharge import discharge, Verdict
from .models import Models
from .source import Source
from .spec import Schema

SIDE_MODULES = ["specfns", "vecspec", "autodiff_c", "compiler_c", "analysis_c", "expressions_c", "constraints_c", "problem_c", "derivs_c", "solvers_c", "memo_c", "iterative_c", "jacrow_c", "jaccompile_c", "vectors_c", "lpextract_c", "dispatch_c", "paramframe_c", "scans_c"]


class Engine:
    def __init__(self, repo: str = "/repo"):
        self.repo = repo
        self.src = Source(repo)
        self.reg = Registry()
        self.models = Models(self.src)
        here = os.path.dirname(os.path.dirname(os.path.abspath(__file__)))
        if here not in sys.path:
            sys.path.insert(0, here)
        self.side = {}
        self.reg.concretizers = {}
        self.reg.native_searches = {}
        self.reg.bounded_checks = {}
        self.reg.unbox_hooks = {}
        for m in SIDE_MODULES:
            mod = importlib.import_module("contracts." + m)
            self.side[m] = mod
            if m == "specfns":
                mod.install(self.reg)
            elif hasattr(mod, "install"):
                mod.install(self.reg, self.src)
        from contracts import seqtheory
        self.reg.saturate_hook = seqtheory.saturate
        self.reg.loop_index_hook = lambda ip, i: seqtheory.add_index(ip, i, loop=True)
        self.reg.index_used_hook = seqtheory.index_used
        self.reg.all_hook = seqtheory.all_hook
        self.reg.minmax_hook = seqtheory.minmax_hook
        self.reg.any_hook = seqtheory.any_hook
        self.reg.scatter_assign_hook = seqtheory.scatter_assign_hook
        self.reg.array_equal_hook = seqtheory.array_equal_hook
        self.reg.keyed_map_hook = lambda ip, S, kf, vf, desc: seqtheory.keyed_map(ip, S, kf, vf, None, desc, require_distinct=False)
        self.reg.define_array_hook = lambda ip, arr, n, elem: seqtheory.define_array(ip, arr, n, elem, "code")

    def anchor_coverage(self, prop: str) -> dict:
        """Functions of the property's anchor files that no check of this family reaches: not under a contract of their own,
        not covered by a virtual contract, not unfolded into their callers (inline marks, constructors, dunders, properties)
        and not nested inside a function that is under contract."""
        import json
        root = os.path.dirname(os.path.dirname(os.path.abspath(__file__)))
        files: list[str] = []
        try:
            for line in open(os.path.join(root, "properties.jsonl")):
                d = json.loads(line)
                if d.get("id") == prop:
                    files = list(d.get("anchors", {}).get("files", []))
        except OSError:
            return {}
        mods = set()
        for f in files:
            rel = f[len("src/"):] if f.startswith("src/") else f
            m = rel[:-3].replace("/", ".") if rel.endswith(".py") else rel.replace("/", ".")
            mods.add(m[: -len(".__init__")] if m.endswith(".__init__") else m)
        contracted = set(self.reg.contracts)
        out = []
        for key, fi in sorted(self.src.funcs.items()):
            if fi.module not in mods or key in contracted or self.reg.may_unfold(self.src, fi):
                continue
            parts = fi.qualname.split(".")
            if any(f"{fi.module}:{'.'.join(parts[:i])}" in contracted for i in range(1, len(parts))):
                continue            # closure of a function under contract: verified with it
            if fi.cls and self.reg.virtual_for_method(self.src, fi.cls, fi.name) is not None:
                continue
            if len(parts) > 1 and f"{fi.module}:{'.'.join(parts[:-1])}" in self.src.funcs:
                # nested function of a function that is itself not under contract: reported once, through its parent
                continue
            out.append(key)
        return {"not_under_contract": out}

    def schema_factory(self):
        if not hasattr(self, "_schema"):
            self._schema = Schema(self.src)
            self._schema.uf_hook = getattr(self.reg, "uf_hook", None)
        return self._schema

    def verify(self, keys: list[str], tier="quick", timeout_ms=10000):
        reports: list[FunctionReport] = []
        for k in keys:
            ct = self.reg.contracts[k]
            reports.append(verify_function(self.src, self.reg, self.schema_factory, self.models, ct))
        obs = [o for r in reports for o in r.obligations]
        verdicts = discharge(obs, tier=tier, timeout_ms=timeout_ms)
        return reports, obs, verdicts


# ------------------------------------------------------------------------------------------- parallel (function, case) workers
_WORKER_ENGINE = None


def _worker_init(repo, main_pid=None):
    global _WORKER_ENGINE
    if main_pid:
        # (the fork server survives the death of the main process, so PDEATHSIG alone is not enough: watch the main pid)
        import threading

        def watch():
            while True:
                time.sleep(2.0)
                try:
                    os.kill(main_pid, 0)
                except OSError:
                    os._exit(1)
        threading.Thread(target=watch, daemon=True).start()
    # a worker must never outlive the run that started it (an orphan keeps a core and gigabytes busy and slows every later
    # run down until solver budgets are missed): ask the kernel to kill it when its parent goes away
    try:
        import ctypes
        import signal as _signal
        ctypes.CDLL("libc.so.6", use_errno=True).prctl(1, _signal.SIGKILL)      # PR_SET_PDEATHSIG
    except Exception:       # noqa: BLE001
        pass
    _WORKER_ENGINE = Engine(repo)


def _blank_result(item, why):
    key, cname, tier, timeout_ms = item
    return {"key": key, "case": cname, "status": "unsupported", "paths": 0, "infeasible": 0, "unsupported": [f"{cname}: {why}"],
            "vacuous": [], "inlined": [], "callees": [], "path_outcomes": {}, "seconds": 0.0, "obligations": []}


class _ItemTimeout(BaseException):
    pass


def _worker_run(item):
    """One work item under a wall-clock limit (VERIF_ITEM_S, default 1500 s): an item that does not finish is reported as
    out of reach (exit 2), never as a verdict, and never blocks the run."""
    import signal
    limit = int(float(os.environ.get("VERIF_ITEM_S", "1500")))

    def on_alarm(signum, frame):
        raise _ItemTimeout()
    old = None
    try:
        old = signal.signal(signal.SIGALRM, on_alarm)
        signal.alarm(limit)
    except Exception:
        old = None
    try:
        return _worker_run_inner(item)
    except _ItemTimeout:
        return _blank_result(item, f"work item exceeded the wall-clock limit of {limit} s")
    except Exception as e:
        if "_ItemTimeout" in repr(e):        # the alarm went off inside a ctypes argument conversion
            return _blank_result(item, f"work item exceeded the wall-clock limit of {limit} s")
        raise
    finally:
        try:
            signal.alarm(0)
            if old is not None:
                signal.signal(signal.SIGALRM, old)
        except Exception:
            pass


def _worker_run_inner(item):
    """Explore one (function, case), discharge its obligations in-process (z3; cvc5 on unknowns / thorough) and
    return plain data."""
    import time as _t
    from .contracts import verify_function
    from .discharge import to_smt2, _run_z3, _run_cvc5
    key, cname, tier, timeout_ms = item
    eng = _WORKER_ENGINE
    ct = eng.reg.contracts[key]
    t0 = _t.time()
    rep = verify_function(eng.src, eng.reg, eng.schema_factory, eng.models, ct, only_cases={cname})
    import z3 as _z3
    from .path import Obligation as _Ob

    def solve_one(o):
        if _z3.is_true(o.goal):
            return "proved", 0.0, "", "trivial"
        text = to_smt2(o)
        zv, dt, det = _run_z3((text, timeout_ms))
        v, solver = zv, "z3"
        if tier == "thorough" or zv == "unknown":
            cv, cdt, cdet = _run_cvc5((text, timeout_ms))
            dt += cdt
            if zv == "unknown" and cv != "unknown":
                v, solver, det = cv, "cvc5", cdet
            elif zv != "unknown" and cv != "unknown" and cv != zv:
                v, det = "disagree", f"z3={zv} cvc5={cv}"
            elif zv == "unknown":
                det = f"z3: {det}; cvc5: {cdet}"
        if v == "unknown":
            zv2, dt2, det2 = _run_z3((text, timeout_ms * 3))
            if zv2 != "unknown":
                v, solver, det = zv2, "z3", det2
            dt += dt2
        return v, dt, det, solver

    # obligations raised at the same program point share their assumptions: try their conjunction first
    groups: dict = {}
    for i, o in enumerate(rep.obligations):
        groups.setdefault(tuple(a.get_id() for a in o.assumptions), []).append(i)
    verdicts: dict = {}
    for _k, idxs in groups.items():
        nontrivial = [i for i in idxs if not _z3.is_true(rep.obligations[i].goal)]
        for i in idxs:
            if i not in nontrivial:
                verdicts[i] = ("proved", 0.0, "", "trivial")
        if len(nontrivial) > 1 and tier != "thorough":
            first = rep.obligations[nontrivial[0]]
            conj = _Ob("batch", first.assumptions, _z3.And(*[rep.obligations[i].goal for i in nontrivial]))
            v, dt, det, solver = solve_one(conj)
            if v == "proved":
                for i in nontrivial:
                    verdicts[i] = ("proved", dt / len(nontrivial), "", solver + " (batched)")
                continue
        for i in nontrivial:
            verdicts[i] = solve_one(rep.obligations[i])
    obs = []
    for i, o in enumerate(rep.obligations):
        v, dt, det, solver = verdicts[i]
        obs.append({"oid": o.oid, "kind": o.kind, "path_sig": o.path_sig, "meta": {k: str(x) for k, x in o.meta.items()},
                    "verdict": v, "solver": solver, "seconds": dt, "detail": det, "n_assumptions": len(o.assumptions),
                    "goal": str(o.goal)[:300]})
    return {"key": key, "case": cname, "status": rep.status, "paths": rep.paths, "infeasible": rep.infeasible,
            "unsupported": sorted(set(rep.unsupported)), "vacuous": rep.vacuous_cases, "inlined": sorted(rep.inlined),
            "callees": sorted(rep.callee_contracts), "path_outcomes": rep.path_outcomes, "seconds": _t.time() - t0,
            "obligations": obs}


def _machinery_digest() -> str:
    import hashlib
    root = os.path.dirname(os.path.dirname(os.path.abspath(__file__)))
    h = hashlib.sha256()
    for sub in ("pyvc", "contracts"):
        for fn in sorted(os.listdir(os.path.join(root, sub))):
            if fn.endswith(".py"):
                h.update(fn.encode())
                h.update(open(os.path.join(root, sub, fn), "rb").read())
    return h.hexdigest()


def _prune_cache(cdir: str, max_bytes: int = 1_500_000_000, keep_s: int = 2 * 3600) -> None:
    """Entries of older source / machinery digests are never read again: once the directory is large, drop what has not
    been written for a while (the disk is small)."""
    try:
        names = os.listdir(cdir)
        if len(names) < 20000:
            total = sum(os.path.getsize(os.path.join(cdir, n)) for n in names)
            if total < max_bytes:
                return
        now = time.time()
        for n in names:
            p = os.path.join(cdir, n)
            try:
                if now - os.path.getmtime(p) > keep_s:
                    os.unlink(p)
            except OSError:
                pass
    except OSError:
        pass


def _run_pool(eng, items, workers):
    """Run the work items in a process pool started through a fork server (forking a process that already holds z3 state can
    dead-lock); if no item completes for a long time the pool is abandoned and the remaining items are run in this process."""
    import multiprocessing as mp
    from concurrent.futures import ProcessPoolExecutor, wait, FIRST_COMPLETED
    stall_s = float(os.environ.get("VERIF_STALL_S", "2400"))
    outs = [None] * len(items)
    ctx = mp.get_context("forkserver")
    ex = ProcessPoolExecutor(max_workers=min(workers, max(1, len(items))), mp_context=ctx, initializer=_worker_init, initargs=(eng.repo, os.getpid()))
    stalled = False
    try:
        futs = {ex.submit(_worker_run, it): i for i, it in enumerate(items)}
        pending = set(futs)
        while pending:
            done, pending = wait(pending, timeout=stall_s, return_when=FIRST_COMPLETED)
            if not done:
                stalled = True
                break
            for f in done:
                outs[futs[f]] = f.result()
    finally:
        procs = list((getattr(ex, "_processes", None) or {}).values())
        ex.shutdown(wait=False, cancel_futures=True)
        # never leave workers behind: a worker still inside a solver call would keep the interpreter from exiting
        for p_ in procs:
            try:
                p_.kill()
            except Exception:
                pass
    if stalled:
        print(f"ENGINE-NOTE worker pool made no progress for {stall_s:.0f}s; {sum(o is None for o in outs)} items reported as out of reach",
              flush=True)
        for i, it in enumerate(items):
            if outs[i] is None:
                outs[i] = _blank_result(it, f"worker pool made no progress for {stall_s:.0f} s")
    return outs


def verify_parallel(eng: Engine, keys: list[str], tier: str, timeout_ms: int, workers: int = 16):
    """Verify every (function, case) in a process pool.  Results are memoised on disk under build/cache, keyed by the
    digest of the repository source, of the machinery (pyvc + contracts) and of the work item, so a changed tree or a
    changed contract is always re-verified; VERIF_NOCACHE=1 disables the memo."""
    import hashlib
    import json as _json
    from concurrent.futures import ProcessPoolExecutor
    from .contracts import list_cases
    root = os.path.dirname(os.path.dirname(os.path.abspath(__file__)))
    cdir = os.path.join(root, "build", "cache")
    use_cache = os.environ.get("VERIF_NOCACHE") != "1"
    _prune_cache(cdir)
    base = eng.src.digest.hexdigest() + _machinery_digest()
    items = []
    skipped = {}
    for k in keys:
        ct = eng.reg.contracts[k]
        if ct.trusted or ct.bounded:
            skipped[k] = "trusted" if ct.trusted else "bounded"
            continue
        if k not in eng.src.funcs and not k.startswith("lemma:"):
            skipped[k] = "missing"
            continue
        for cn in list_cases(ct):
            items.append((k, cn, tier, timeout_ms))
    results_by_item: dict = {}
    todo = []
    for it in items:
        ck = hashlib.sha256((base + repr(it)).encode()).hexdigest()
        path = os.path.join(cdir, ck + ".json")
        if use_cache and os.path.exists(path):
            try:
                results_by_item[it] = _json.load(open(path))
                continue
            except Exception:
                pass
        todo.append((it, path))
    if todo:
        # longest work first (solver drivers have many paths per case)
        outs = _run_pool(eng, [it for it, _ in todo], workers)
        os.makedirs(cdir, exist_ok=True)
        for (it, path), out in zip(todo, outs):
            results_by_item[it] = out
            if use_cache:
                try:
                    with open(path, "w") as f:
                        _json.dump(out, f)
                except Exception:
                    pass
    return [results_by_item[it] for it in items], skipped
