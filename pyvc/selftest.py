"""./check selftest [names...] : mutation smoke test of the machinery itself.

Applies every kept seeded change (seeded/<name>/patch.diff: changes made by independent sub-agents from the property text, and
the reverse patch of every `fix:` commit) to /repo, runs the property's check, restores /repo, and compares the verdict with the
one recorded in seeded/SUMMARY.json.  Exit 0 if no seed that is recorded as detected has become undetected."""
from __future__ import annotations

import json
import os
import subprocess
import sys

ROOT = os.path.dirname(os.path.dirname(os.path.abspath(__file__)))


def main() -> int:
    sp = os.path.join(ROOT, "seeded", "SUMMARY.json")
    before = json.load(open(sp)) if os.path.exists(sp) else {}
    r = subprocess.run([sys.executable, os.path.join(ROOT, "tools", "run_seeds.py")] + sys.argv[1:], cwd=ROOT)
    after = json.load(open(sp)) if os.path.exists(sp) else {}
    lost = [k for k, v in before.items() if v == "detected" and after.get(k, v) != "detected" and (not sys.argv[1:] or k in sys.argv[1:])]
    for k in lost:
        print(f"SELFTEST-FAIL seeded change {k} was detected before and is now: {after.get(k)}")
    st = subprocess.run(["git", "-C", "/repo", "status", "--short"], capture_output=True, text=True).stdout.strip()
    if st:
        print("SELFTEST-FAIL /repo is not clean after the run:", st)
        return 1
    return 1 if lost or r.returncode else 0


if __name__ == "__main__":
    sys.exit(main())
