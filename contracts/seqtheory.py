"""Finite-sequence theory used by the contracts: named arrays with pointwise definitions, prefix folds
(PSUM, exists/forall prefixes) and the lemma instances that connect them.

Everything added to a path condition here is a quantifier-free *instance* of a statement that is true for all finite
sequences; the general statements are proved in spec/OptyxSpec.lean (names in the comments).  Instances are generated
for a small index set: the loop indices of the path, literal indices and one Skolem index per lemma instance.
"""
from __future__ import annotations

import z3

from pyvc import sym
from pyvc.sym import Ref, Name, R, I, B, EnvSort, PVSort, RealArr, fn
from pyvc.values import Opaque, SReal, SSeq, real_term, Unsupported


class Seqs:
    """Per-path registry (lives in path.ghost['seqs'])."""

    def __init__(self):
        self.arrays: dict[str, tuple] = {}      # str(arr) -> (arr, n, elem_fn(k)->term, origin 'spec'|'code')
        self.idx: list = []                     # index terms at which pointwise facts are instantiated
        self.loop_idx: list = []                # loop indices (psum_step, psum_single)
        self.single_idx: list = []              # further candidates for psum_single only (positions where a key / name occurs)
        self.vectors: dict[str, object] = {}    # str(vref) -> VecInfo
        self.done: set[str] = set()
        self.folds: list = []                   # (kind, args) prefix folds to step at loop indices
        self.pointwise: list = []               # callables k -> None adding element facts


def seqs(ip) -> Seqs:
    s = ip.path.ghost.get("seqs")
    if s is None:
        s = Seqs()
        ip.path.ghost["seqs"] = s
    return s


def add_index(ip, k, loop: bool = False, single: bool = False) -> None:
    s = seqs(ip)
    if isinstance(k, int):
        k = z3.IntVal(k)
    if not any(k.eq(x) for x in s.idx):
        s.idx.append(k)
    if loop and not any(k.eq(x) for x in s.loop_idx):
        s.loop_idx.append(k)
    if single and not any(k.eq(x) for x in s.single_idx):
        s.single_idx.append(k)


def skolem(ip, hint: str, n):
    """Witness index of a lemma instance; chosen inside [0, n) whenever that range is non-empty (else 0)."""
    sk = sym.fresh(hint, I)
    ip.path.assume(z3.And(sk >= 0, z3.Implies(n > 0, sk < n)))
    add_index(ip, sk)
    return sk


def define_array(ip, arr, n, elem_fn, origin: str):
    s = seqs(ip)
    key = str(arr)
    if key not in s.arrays:
        s.arrays[key] = (arr, n, elem_fn, origin)
    return arr


def psum(ip, arr, n):
    return ip.schema.PSUM(arr, n if not isinstance(n, int) else z3.IntVal(n))


def _once(ip, key: str) -> bool:
    s = seqs(ip)
    if key in s.done:
        return False
    s.done.add(key)
    return True


def saturate(ip, rounds: int = 2) -> None:
    """Instantiate every registered pointwise definition / fold step / lemma at the current index set."""
    s = seqs(ip)
    p = ip.path
    S = ip.schema
    # code-side sum arrays registered by the NumPy model
    for arr, seq in p.ghost.get("sumarrays", []):
        define_array(ip, arr, ip.models.len_term(seq.n), (lambda k, seq=seq: real_term(seq.get(k))), "code")
    for _ in range(rounds):
        arrays = list(s.arrays.values())
        # lemma instances (create Skolem indices first)
        for arr, n, elem, origin in arrays:
            if _once(ip, f"psum0:{arr}"):
                p.assume(S.PSUM(arr, z3.IntVal(0)) == 0)
            if _once(ip, f"zero:{arr}:{n}"):                       # lean: psum_zero  (Finset.sum_eq_zero)
                sk = skolem(ip, "sk_zero", n)
                p.assume(z3.Or(S.PSUM(arr, n) == 0, z3.And(sk >= 0, sk < n, z3.Select(arr, sk) != 0)))
            for i in list(s.loop_idx):
                if _once(ip, f"step:{arr}:{i}"):                   # lean: psum_succ  (Finset.sum_range_succ)
                    p.assume(S.PSUM(arr, i + 1) == S.PSUM(arr, i) + z3.Select(arr, i))
            for i in list(s.loop_idx) + list(s.single_idx):
                if origin == "spec" and _once(ip, f"single:{arr}:{n}:{i}"):   # lean: psum_single (Finset.sum_eq_single)
                    sk = skolem(ip, "sk_single", n)
                    p.assume(z3.Or(z3.Not(z3.And(i >= 0, i < n)), S.PSUM(arr, n) == z3.Select(arr, i),
                                   z3.And(sk >= 0, sk < n, sk != i, z3.Select(arr, sk) != 0)))
        for arr, n, elem, origin in arrays:
            if origin != "spec":
                continue
            li = list(s.loop_idx) + [x for x in s.single_idx if not any(x.eq(y) for y in s.loop_idx)]
            for a_ in range(len(li)):
                for b_ in range(a_ + 1, len(li)):
                    i, j = li[a_], li[b_]
                    if _once(ip, f"pair:{arr}:{n}:{i}:{j}"):        # lean: psum_pair (two applications of sum_eq_single)
                        sk = skolem(ip, "sk_pair", n)
                        p.assume(z3.Or(z3.Not(z3.And(i >= 0, i < n, j >= 0, j < n, i != j)),
                                       S.PSUM(arr, n) == z3.Select(arr, i) + z3.Select(arr, j),
                                       z3.And(sk >= 0, sk < n, sk != i, sk != j, z3.Select(arr, sk) != 0)))
        spec_arrays = [a for a in arrays if a[3] == "spec"]
        code_arrays = [a for a in arrays if a[3] == "code"]
        for ca, cn, _ce, _ in code_arrays:
            for sa, sn, _se, _ in spec_arrays:
                if _once(ip, f"ext:{ca}:{sa}"):                    # lean: psum_ext  (Finset.sum_congr)
                    sk = skolem(ip, "sk_ext", cn)
                    p.assume(z3.Or(cn != sn, S.PSUM(ca, cn) == S.PSUM(sa, sn),
                                   z3.And(sk >= 0, sk < cn, z3.Select(ca, sk) != z3.Select(sa, sk))))
        # pointwise definitions at every index term
        for k in list(s.idx):
            for pw in list(s.pointwise):
                pw(k)
        for k in list(s.idx):
            for arr, n, elem, origin in list(s.arrays.values()):
                if _once(ip, f"at:{arr}:{k}"):
                    from pyvc.interp import RaiseEx
                    p.guards.append(z3.And(k >= 0, k < n))
                    try:
                        p.assume(z3.Select(arr, k) == elem(k))
                    except RaiseEx:
                        pass        # k is known to lie outside the range on this path: the guarded fact would be vacuous
                    finally:
                        p.guards.pop()
        for i in list(s.loop_idx):
            for stepper in list(s.folds):
                stepper(i)


# ------------------------------------------------------------------------------------------- vectors
DENV = fn("DENV", Ref, I, EnvSort, PVSort, R)
DVV = fn("DVV", Ref, I, Name, EnvSort, PVSort, R)
REGV = fn("REGV", Ref, I, Name, EnvSort, PVSort, B)
OCCE = fn("OCCE", Ref, I, Name, B)
OCCV = fn("OCCV", Ref, Name, I, B)                 # exists k < i . OCCE(v,k,w)
REGALL = fn("REGALL", Ref, Name, EnvSort, PVSort, I, B)   # forall k < i . REGV(v,k,...)
ELEMV = fn("ELEM__variables", Ref, I, Ref)
ELEME = fn("ELEM__expressions", Ref, I, Ref)
LENV = fn("LEN__variables", Ref, I)
LENE = fn("LEN__expressions", Ref, I)
VLEN = fn("VLEN", Ref, I)
FNAME = fn("F_name", Ref, Name)
VEC_EXPR_KINDS = ["VectorExpression", "MatrixVectorProduct"]


def register_vector(sp, v, w=None, E=None, PV=None):
    """Make the element facts of vector object `v` (ref) available at the index set (and for variable name `w`)."""
    ip = sp.ip
    s = seqs(ip)
    S, K, p = sp.S, sp.K, ip.path
    E = sp.E if E is None else E
    PV = sp.PV if PV is None else PV
    key = f"vec:{v}:{w}:{E}:{PV}"
    if key in s.done:
        return
    s.done.add(key)
    isvar = K.is_kind(v, "VectorVariable")
    isexp = K.is_any(v, VEC_EXPR_KINDS)
    n = VLEN(v)
    if _once(ip, f"vecbase:{v}"):
        p.assume(n >= 1)                                                   # constructors reject empty vectors
        p.assume(z3.Implies(isvar, z3.And(LENV(v) == n, S.F("size", I)(v) == n)))
        p.assume(z3.Implies(isexp, z3.And(LENE(v) == n, S.F("size", I)(v) == n)))

    def pointwise(k, v=v, w=w, E=E, PV=PV):
        if not _once(ip, f"vecat:{v}:{w}:{E}:{PV}:{k}"):
            return
        inr = z3.And(k >= 0, k < n)
        ev, ee = ELEMV(v, k), ELEME(v, k)
        p.assume(z3.Implies(z3.And(isvar, inr), K.is_kind(ev, "Variable")))
        p.assume(z3.Implies(isvar, DENV(v, k, E, PV) == z3.Select(E, FNAME(ev))))
        p.assume(z3.Implies(isexp, DENV(v, k, E, PV) == S.DEN(ee, E, PV)))
        if w is not None:
            p.assume(z3.Implies(isvar, z3.And(DVV(v, k, w, E, PV) == z3.If(FNAME(ev) == w, sym.rv(1), sym.rv(0)),
                                              REGV(v, k, w, E, PV), OCCE(v, k, w) == (FNAME(ev) == w))))
            p.assume(z3.Implies(isexp, z3.And(DVV(v, k, w, E, PV) == S.DV(ee, w, E, PV),
                                              REGV(v, k, w, E, PV) == S.REG(ee, w, E, PV),
                                              OCCE(v, k, w) == S.OCC(ee, w))))
            # prefix-fold elimination / introduction at k       lean: exists_prefix_intro / forall_prefix_elim
            p.assume(z3.Implies(z3.And(inr, OCCE(v, k, w)), OCCV(v, w, n)))
            p.assume(z3.Implies(z3.And(inr, REGALL(v, w, E, PV, n)), REGV(v, k, w, E, PV)))
        # A6: the Variables of a VectorVariable have pairwise distinct names (instantiated per index pair)
        for k2 in list(s.idx):
            if k2.eq(k):
                continue
            if _once(ip, f"a6:{v}:{min(str(k), str(k2))}:{max(str(k), str(k2))}"):
                inr2 = z3.And(k2 >= 0, k2 < n)
                p.assume(z3.Implies(z3.And(isvar, inr, inr2, FNAME(ELEMV(v, k)) == FNAME(ELEMV(v, k2))), k == k2))
    s.pointwise.append(pointwise)

    if w is not None:
        if _once(ip, f"fold0:{v}:{w}:{E}:{PV}"):
            p.assume(z3.Not(OCCV(v, w, z3.IntVal(0))))
            p.assume(REGALL(v, w, E, PV, z3.IntVal(0)))
            # Skolem witnesses for the closed forms at n        lean: exists_prefix_elim / forall_prefix_intro
            sk1 = skolem(ip, "sk_occ", n)
            if ip.path.ghost.get("occ_single"):
                # candidate for psum_single: the position where the variable occurs (requested by the row contracts, where no
                # loop of the code walks the vector)
                add_index(ip, sk1, single=True)
            p.assume(z3.Implies(OCCV(v, w, n), z3.And(sk1 >= 0, sk1 < n, OCCE(v, sk1, w))))
            sk2 = skolem(ip, "sk_reg", n)
            p.assume(z3.Or(REGALL(v, w, E, PV, n), z3.And(sk2 >= 0, sk2 < n, z3.Not(REGV(v, sk2, w, E, PV)))))

        def stepper(i, v=v, w=w, E=E, PV=PV):
            if _once(ip, f"foldstep:{v}:{w}:{E}:{PV}:{i}"):
                p.assume(OCCV(v, w, i + 1) == z3.Or(OCCV(v, w, i), OCCE(v, i, w)))
                p.assume(REGALL(v, w, E, PV, i + 1) == z3.And(REGALL(v, w, E, PV, i), REGV(v, i, w, E, PV)))
        s.folds.append(stepper)


def named_array(ip, name: str, args: list, n, elem_fn, origin="spec"):
    sorts = [a.sort() for a in args] + [RealArr]
    arr = fn(name, *sorts)(*args)
    define_array(ip, arr, n, elem_fn, origin)
    return arr


def named_forall(ip, name: str, args: list, n, pred_fn):
    """Forall-prefix fold  P(i) := forall k < i . pred(k)  as an uninterpreted predicate with step instances at loop
    indices, elimination at every index term and a Skolem introduction at n.  Returns the function i -> P(i)."""
    s = seqs(ip)
    p = ip.path
    sorts = [a.sort() for a in args] + [I, B]
    P = fn(name, *sorts)
    key = f"forall:{name}:{[str(a) for a in args]}:{n}"
    if key not in s.done:
        s.done.add(key)
        p.assume(P(*args, z3.IntVal(0)))
        sk = skolem(ip, "sk_" + name, n)
        ip.path.ghost.setdefault("forall_skolems", {})[(name, tuple(str(a) for a in args))] = sk
        p.assume(z3.Or(P(*args, n), z3.And(sk >= 0, sk < n, z3.Not(pred_fn(sk)))))       # lean: forall_prefix_intro

        def pw(k):
            if _once(ip, f"{key}:elim:{k}"):
                p.assume(z3.Implies(z3.And(k >= 0, k < n, P(*args, n)), pred_fn(k)))         # lean: forall_prefix_elim
        s.pointwise.append(pw)

        def st(i):
            if _once(ip, f"{key}:step:{i}"):
                p.assume(P(*args, i + 1) == z3.And(P(*args, i), pred_fn(i)))
        s.folds.append(st)
    return lambda i: P(*args, i if not isinstance(i, int) else z3.IntVal(i))


def named_exists(ip, name: str, args: list, n, pred_fn):
    s = seqs(ip)
    p = ip.path
    sorts = [a.sort() for a in args] + [I, B]
    P = fn(name, *sorts)
    key = f"exists:{name}:{[str(a) for a in args]}:{n}"
    if key not in s.done:
        s.done.add(key)
        p.assume(z3.Not(P(*args, z3.IntVal(0))))
        sk = skolem(ip, "sk_" + name, n)
        p.assume(z3.Implies(P(*args, n), z3.And(sk >= 0, sk < n, pred_fn(sk))))            # lean: exists_prefix_elim

        def pw(k):
            if _once(ip, f"{key}:intro:{k}"):
                p.assume(z3.Implies(z3.And(k >= 0, k < n, pred_fn(k)), P(*args, n)))          # lean: exists_prefix_intro
        s.pointwise.append(pw)

        def st(i):
            if _once(ip, f"{key}:step:{i}"):
                p.assume(P(*args, i + 1) == z3.Or(P(*args, i), pred_fn(i)))
        s.folds.append(st)
    return lambda i: P(*args, i if not isinstance(i, int) else z3.IntVal(i))


def named_maxfold(ip, name: str, args: list, n, val_fn, lower=0):
    """Max-prefix fold  M(i) := max(lower, max_{k<i} val(k))  with step instances at loop indices and the bound
    val(k) <= M(n) at every index term (lean: maxfold_ge), plus attainment by a Skolem index (lean: maxfold_attained)."""
    s = seqs(ip)
    p = ip.path
    sorts = [a.sort() for a in args] + [I, I]
    Mx = fn(name, *sorts)
    key = f"maxfold:{name}:{[str(a) for a in args]}:{n}"
    if key not in s.done:
        s.done.add(key)
        p.assume(Mx(*args, z3.IntVal(0)) == lower)
        sk = skolem(ip, "sk_" + name, n)
        p.assume(z3.Or(Mx(*args, n) == lower, z3.And(sk >= 0, sk < n, Mx(*args, n) == val_fn(sk))))
        p.assume(Mx(*args, n) >= lower)

        def pw(k):
            if _once(ip, f"{key}:ge:{k}"):
                p.assume(z3.Implies(z3.And(k >= 0, k < n), val_fn(k) <= Mx(*args, n)))
        s.pointwise.append(pw)

        def st(i):
            if _once(ip, f"{key}:step:{i}"):
                p.assume(Mx(*args, i + 1) == sym.zmax(Mx(*args, i), val_fn(i)))
                p.assume(Mx(*args, i) >= lower)
        s.folds.append(st)
    return lambda i: Mx(*args, i if not isinstance(i, int) else z3.IntVal(i))


def index_used(ip, k) -> None:
    """An index term is about to be used to evaluate a lazily defined element: instantiate the element facts for it."""
    s = seqs(ip)
    if isinstance(k, int):
        k = z3.IntVal(k)
    new = not any(k.eq(x) for x in s.idx)
    add_index(ip, k)
    for other in list(s.idx):
        for pw in list(s.pointwise):
            pw(other)


def all_hook(ip, S, node=None):
    """all(<bool element> for k < n) over a symbolic-length sequence: a forall-prefix fold (intro by Skolem, elimination at
    every index term in use).  The elements are evaluated without forking (comparisons only)."""
    from pyvc.values import SBool
    n = ip.models.len_term(S.n)
    cnt = ip.path.ghost.setdefault("all_counter", [0])
    cnt[0] += 1
    name = f"ALLOF_{getattr(node, 'lineno', 0)}_{cnt[0]}"

    def pred(k):
        v = ip.as_bool_term(S.get(k))
        return z3.BoolVal(v) if isinstance(v, bool) else v
    P = named_forall(ip, name, [], n, pred)
    saturate(ip)
    return SBool(P(n))


def keyed_map(ip, S, key_fn, val_fn, n=None, desc="dict", require_distinct=True):
    """dict built from a sequence with Variable keys ({k(e): v(e) for e in S} or the equivalent loop): an SMap whose lookup
    goes through a position function POS: Name -> Int.

        indom(nm)   :=  0 <= POS(nm) < n  and  key(POS(nm)) = nm
        completeness (instantiated at every index term in use):  0 <= k < n and key(k) = nm  =>  indom(nm)
        lookup(nm)  :=  val(POS(nm))

    Python keeps the LAST value written for a key; the model returns the value at *a* position holding the key, which is
    the same thing when the keys of S are pairwise distinct.  That holds for the `_variables` list of a vector (A6, whose
    instances are generated for every pair of index terms, POS(nm) included); any other source is refused."""
    from pyvc.values import SMap
    if require_distinct and not (S.tag and S.tag[0] == "field" and S.tag[1] == "_variables"):
        raise Unsupported("dict keyed by Variables built from a sequence whose keys are not known to be distinct")
    n = ip.models.len_term(S.n) if n is None else n
    POS = fn(sym.fresh("POS", I).decl().name().replace("!", "_"), Name, I)
    s = seqs(ip)
    asked: list = []
    kmemo: dict = {}
    vmemo: dict = {}
    key_fn0, val_fn0 = key_fn, val_fn

    def key_fn(k):                       # the key / value expressions are re-evaluated from the AST: once per index term
        kk = str(k)
        if kk not in kmemo:
            kmemo[kk] = key_fn0(k)
        return kmemo[kk]

    def val_fn(k):
        kk = str(k)
        if kk not in vmemo:
            vmemo[kk] = val_fn0(k)
        return vmemo[kk]

    def instantiate(nm, k):
        if _once(ip, f"kmap:{POS}:{nm}:{k}"):
            pos = POS(nm)
            ip.path.assume(z3.Implies(z3.And(k >= 0, k < n, key_fn(k) == nm),
                                      z3.And(pos >= 0, pos < n, key_fn(pos) == nm)))

    def pw(k):
        for nm in list(asked):
            instantiate(nm, k)
    s.pointwise.append(pw)

    def indom(nm):
        pos = POS(nm)
        if not any(nm.eq(a) for a in asked):
            asked.append(nm)
            add_index(ip, pos, single=True)    # also a psum_single candidate: the position of the key
            index_used(ip, pos)
            for k in list(s.idx):
                instantiate(nm, k)
        return z3.And(pos >= 0, pos < n, key_fn(pos) == nm)

    def lookup(nm):
        indom(nm)
        return val_fn(POS(nm))
    m = SMap(indom, lookup, desc)
    return m


def array_equal_hook(ip, A, B):
    """np.array_equal of two 1-D sequences of numbers: same length and equal entry by entry (forall-prefix fold)."""
    from pyvc.values import SBool, num_term
    na, nb = ip.models.len_term(A.n), ip.models.len_term(B.n)
    cnt = ip.path.ghost.setdefault("aeq_counter", [0])
    cnt[0] += 1

    def pred(k):
        a, b = num_term(A.get(k)), num_term(B.get(k))
        return sym.to_real(a) == sym.to_real(b)
    P = named_forall(ip, f"AEQ_{cnt[0]}", [], na, pred)
    saturate(ip)
    return SBool(z3.And(na == nb, P(na)))


def scatter_assign_hook(ip, arr, idx, val, node=None):
    """result[indices] = values  on a 1-D real array (NumPy fancy assignment).  Stated for pairwise distinct indices -- which is
    made an obligation of the path, not an assumption -- so that 'last write wins' never matters:

        R'[I(j)] = V(j)                       for 0 <= j < m
        R'[p]    = R[p]                        when no j < m has I(j) = p          (HAS / H: witness functions)
    """
    from pyvc.values import SReal, SSeq, SArr, num_term, real_term
    p = ip.path
    I_ = ip.models.as_seq(idx)
    m = ip.models.len_term(I_.n)
    scalar = not isinstance(val, (SSeq, SArr))
    V_ = None if scalar else ip.models.as_seq(val)
    old = arr.arr
    new = sym.fresh("scattered", RealArr)
    tag = new.decl().name().replace("!", "_")
    HAS = fn("SC_HAS_" + tag, I, B)
    H = fn("SC_H_" + tag, I, I)
    ival = lambda j: num_term(I_.get(j))
    vval = (lambda j: real_term(val)) if scalar else (lambda j: real_term(V_.get(j)))
    # obligation: indices pairwise distinct (checked at two arbitrary positions)
    j1, j2 = skolem(ip, "sk_sc1", m), skolem(ip, "sk_sc2", m)
    index_used(ip, j1)
    index_used(ip, j2)
    p.oblige(ip.cur_oid("fancy assignment: indices pairwise distinct"),
             z3.Implies(z3.And(j1 >= 0, j1 < m, j2 >= 0, j2 < m, j1 != j2), ival(j1) != ival(j2)), kind="pre")
    if not scalar:
        p.oblige(ip.cur_oid("fancy assignment: one value per index"), ip.models.len_term(V_.n) == m, kind="pre")
    s = seqs(ip)

    def pw(k):
        if _once(ip, f"scatter:{new}:{k}"):
            inr = z3.And(k >= 0, k < m)
            p.guards.append(inr)
            try:
                ik, vk = ival(k), vval(k)
            finally:
                p.guards.pop()
            p.assume(z3.Implies(inr, z3.And(z3.Select(new, ik) == vk, HAS(ik))))
            # k read as a position of the array (witness terms H(..) are not positions anybody reads: no H(H(..)) chains)
            if z3.is_app(k) and k.decl().name().startswith("SC_H_"):
                return
            hk = H(k)
            p.assume(z3.Implies(z3.Not(HAS(k)), z3.Select(new, k) == z3.Select(old, k)))
            if _once(ip, f"scatterH:{new}:{k}"):
                add_index(ip, hk)
                p.guards.append(z3.And(hk >= 0, hk < m))
                try:
                    ih = ival(hk)
                finally:
                    p.guards.pop()
                p.assume(z3.Implies(HAS(k), z3.And(hk >= 0, hk < m, ih == k)))
    s.pointwise.append(pw)
    arr.arr = new
    return None


def prefix_forall(ip, name: str, args: list, bound, pred_fn):
    """P(args, bound) := forall 0 <= k < bound . pred(k), for state that changes between uses (a mutable array among `args`):
    every use gets its own introduction instance (Skolem witness) and its elimination instances at the index terms in use, so
    the fact can be carried across an update of the state without a frame axiom for the fold."""
    s = seqs(ip)
    p = ip.path
    bt = bound if not isinstance(bound, int) else z3.IntVal(bound)
    sorts = [a.sort() for a in args] + [I, B]
    P = fn(name, *sorts)
    pt = P(*args, bt)
    key = f"pforall:{name}:{[str(a) for a in args]}:{bt}"
    if key not in s.done:
        s.done.add(key)
        from pyvc.interp import RaiseEx
        sk = skolem(ip, "sk_" + name, bt)
        p.assume(z3.Implies(bt <= 0, pt))                                    # empty range
        if p.check_sat(bt > 0) != "unsat":
            nonempty = p.entails(bt > 0)
            if not nonempty:
                p.guards.append(z3.And(sk >= 0, sk < bt))
            try:
                ps = pred_fn(sk)
                p.assume(z3.Or(pt, z3.And(sk >= 0, sk < bt, z3.Not(ps))))   # lean: forall_prefix_intro
            except RaiseEx:
                pass
            finally:
                if not nonempty:
                    p.guards.pop()

        def pw(k):
            if _once(ip, f"{key}:elim:{k}"):
                inr = z3.And(k >= 0, k < bt)
                if p.check_sat(inr) == "unsat":
                    return          # k known to lie outside [0, bound): the instance would be vacuous
                guarded = not p.entails(inr)
                if guarded:
                    p.guards.append(inr)
                try:
                    pk = pred_fn(k)
                except RaiseEx:
                    return
                finally:
                    if guarded:
                        p.guards.pop()
                p.assume(z3.Implies(z3.And(inr, pt), pk))          # lean: forall_prefix_elim
        s.pointwise.append(pw)
    return pt


def any_hook(ip, S, node=None):
    """any(<bool element> for k < n) over a symbolic-length sequence: an exists-prefix fold."""
    from pyvc.values import SBool
    n = ip.models.len_term(S.n)
    cnt = ip.path.ghost.setdefault("any_counter", [0])
    cnt[0] += 1
    name = f"ANYOF_{getattr(node, 'lineno', 0)}_{cnt[0]}"

    def pred(k):
        v = ip.as_bool_term(S.get(k))
        return z3.BoolVal(v) if isinstance(v, bool) else v
    P = named_exists(ip, name, [], n, pred)
    saturate(ip)
    return SBool(P(n))


def filter_count(ip, name: str, args: list, n, keep_fn):
    """Position function of a filter over the source positions [0, n):  cnt(k) = #{j < k : keep(j)}  is the length of the filtered
    list after k iterations, and src(p) is the source position of list position p (ghost inverse of cnt on the kept positions,
    well defined because cnt is injective there).  Instances at every index term in use:
      cnt(0) = 0, cnt(k+1) = cnt(k) + [keep k]                     (lean: cnt_zero, cnt_succ)
      k <= n => cnt(k) <= cnt(n);  k < n => cnt(k+1) <= cnt(n)     (lean: cnt_mono; with cnt_succ this is cnt_lt)
      k < n and keep(k) => src(cnt(k)) = k                         (definition of src; lean: cnt_inj)
    Returns (cnt, src) as functions of an index term."""
    s = seqs(ip)
    p = ip.path
    sorts = [a.sort() for a in args]
    CNT = fn("CNT_" + name, *sorts, I, I)
    SRC = fn("SRC_" + name, *sorts, I, I)
    key = f"cnt:{name}:{[str(a) for a in args]}:{n}"
    if key not in s.done:
        s.done.add(key)
        p.assume(CNT(*args, z3.IntVal(0)) == 0)
        p.assume(CNT(*args, n) >= 0)

        def pw(k):
            if _once(ip, f"{key}:at:{k}"):
                ck, ck1, cn = CNT(*args, k), CNT(*args, k + 1), CNT(*args, n)
                p.assume(z3.Implies(k >= 0, z3.And(ck >= 0, ck1 == ck + z3.If(keep_fn(k), 1, 0))))
                p.assume(z3.Implies(z3.And(k >= 0, k <= n), ck <= cn))
                p.assume(z3.Implies(z3.And(k >= 0, k < n), ck1 <= cn))
                p.assume(z3.Implies(z3.And(k >= 0, k < n, keep_fn(k)), SRC(*args, ck) == k))
        s.pointwise.append(pw)
    tm = lambda k: k if not isinstance(k, int) else z3.IntVal(k)
    return (lambda k: CNT(*args, tm(k))), (lambda q: SRC(*args, tm(q)))


def minmax_hook(ip, S, ismax: bool):
    """max(S) / min(S) of a non-empty symbolic sequence of numbers: a value attained at some position and bounding every
    entry (the bound is instantiated at every index term in use)."""
    n = ip.models.len_term(S.n)
    m = sym.fresh("seqmax" if ismax else "seqmin", R)
    sk = skolem(ip, "sk_argmax" if ismax else "sk_argmin", n)
    index_used(ip, sk)
    ip.path.assume(z3.Implies(n > 0, real_term(S.get(sk)) == m))

    def pw(k):
        if _once(ip, f"minmax:{m}:{k}"):
            ek = real_term(S.get(k))
            ip.path.assume(z3.Implies(z3.And(k >= 0, k < n), ek <= m if ismax else ek >= m))
    seqs(ip).pointwise.append(pw)
    return SReal(m, "float")
