import Mathlib
open Real

variable (f g : ℝ → ℝ) (f' g' x : ℝ)

theorem r_add (hf : HasDerivAt f f' x) (hg : HasDerivAt g g' x) :
    HasDerivAt (fun y => f y + g y) (f' + g') x := hf.add hg
theorem r_sub (hf : HasDerivAt f f' x) (hg : HasDerivAt g g' x) :
    HasDerivAt (fun y => f y - g y) (f' - g') x := hf.sub hg
theorem r_neg (hf : HasDerivAt f f' x) : HasDerivAt (fun y => -(f y)) (-f') x := hf.neg
theorem r_exp (hf : HasDerivAt f f' x) : HasDerivAt (fun y => Real.exp (f y)) (Real.exp (f x) * f') x := hf.exp
theorem r_cos (hf : HasDerivAt f f' x) : HasDerivAt (fun y => Real.cos (f y)) (-Real.sin (f x) * f') x := hf.cos
theorem r_log (hf : HasDerivAt f f' x) (h : f x ≠ 0) :
    HasDerivAt (fun y => Real.log (f y)) (1 / f x * f') x := by
  have := hf.log h
  convert this using 1; field_simp
theorem r_sqrt (hf : HasDerivAt f f' x) (h : f x ≠ 0) :
    HasDerivAt (fun y => Real.sqrt (f y)) (1 / (2 * Real.sqrt (f x)) * f') x := by
  have := hf.sqrt h
  convert this using 1; field_simp
theorem r_sinh (hf : HasDerivAt f f' x) : HasDerivAt (fun y => Real.sinh (f y)) (Real.cosh (f x) * f') x := hf.sinh
theorem r_cosh (hf : HasDerivAt f f' x) : HasDerivAt (fun y => Real.cosh (f y)) (Real.sinh (f x) * f') x := hf.cosh
theorem r_arctan (hf : HasDerivAt f f' x) :
    HasDerivAt (fun y => Real.arctan (f y)) (1 / (1 + f x * f x) * f') x := by
  have := hf.arctan
  convert this using 1; ring
theorem r_arcsin (hf : HasDerivAt f f' x) (h1 : f x ≠ -1) (h2 : f x ≠ 1) :
    HasDerivAt (fun y => Real.arcsin (f y)) (1 / Real.sqrt (1 - f x * f x) * f') x := by
  have := (Real.hasDerivAt_arcsin h1 h2).comp x hf
  have e : 1 / Real.sqrt (1 - f x * f x) * f' = 1 / Real.sqrt (1 - f x ^ 2) * f' := by ring_nf
  rw [e]; exact this
theorem r_arsinh (hf : HasDerivAt f f' x) :
    HasDerivAt (fun y => Real.arsinh (f y)) (1 / Real.sqrt (1 + f x * f x) * f') x := by
  have := hf.arsinh
  convert this using 1
  rw [smul_eq_mul]; ring_nf
theorem r_pow_const (p : ℝ) (hf : HasDerivAt f f' x) (h : f x ≠ 0 ∨ 1 ≤ p) :
    HasDerivAt (fun y => (f y) ^ p) (p * (f x) ^ (p - 1) * f') x := by
  have := hf.rpow_const (p := p) h
  convert this using 1; ring
theorem r_pow_gen (hf : HasDerivAt f f' x) (hg : HasDerivAt g g' x) (h : 0 < f x) :
    HasDerivAt (fun y => (f y) ^ (g y)) ((f x) ^ (g x) * (g' * Real.log (f x) + g x * f' / f x)) x := by
  have := hf.rpow hg h
  convert this using 1
  have hne : f x ≠ 0 := ne_of_gt h
  rw [Real.rpow_sub_one hne]; field_simp; ring
theorem r_abs (hf : HasDerivAt f f' x) (h : f x ≠ 0) :
    HasDerivAt (fun y => |f y|) (f x / |f x| * f') x := by
  have h1 : HasDerivAt (fun t : ℝ => |t|) (SignType.sign (f x) : ℝ) (f x) := hasDerivAt_abs h
  have h2 : HasDerivAt (fun y => |f y|) ((SignType.sign (f x) : ℝ) * f') x := h1.comp x hf
  have e : f x / |f x| * f' = (SignType.sign (f x) : ℝ) * f' := by
    rcases lt_or_gt_of_ne h with hlt | hgt
    · rw [abs_of_neg hlt, sign_neg hlt]; have : f x ≠ 0 := h; simp; field_simp
    · rw [abs_of_pos hgt, sign_pos hgt]; have : f x ≠ 0 := h; simp; field_simp
  rw [e]; exact h2
theorem r_tanh (hf : HasDerivAt f f' x) :
    HasDerivAt (fun y => Real.tanh (f y)) ((1 - Real.tanh (f x) * Real.tanh (f x)) * f') x := by
  have hc : Real.cosh (f x) ≠ 0 := ne_of_gt (Real.cosh_pos _)
  have h1 : HasDerivAt (fun y => Real.sinh (f y) / Real.cosh (f y))
      ((Real.cosh (f x) * f' * Real.cosh (f x) - Real.sinh (f x) * (Real.sinh (f x) * f')) / (Real.cosh (f x))^2) x :=
    (hf.sinh).div (hf.cosh) hc
  have e : (fun y => Real.tanh (f y)) = fun y => Real.sinh (f y) / Real.cosh (f y) := by
    funext y; exact Real.tanh_eq_sinh_div_cosh _
  rw [e]; convert h1 using 1
  rw [Real.tanh_eq_sinh_div_cosh]; field_simp
-- finite sums
theorem r_sum (n : ℕ) (F : ℕ → ℝ → ℝ) (F' : ℕ → ℝ) (h : ∀ i ∈ Finset.range n, HasDerivAt (F i) (F' i) x) :
    HasDerivAt (fun y => ∑ i ∈ Finset.range n, F i y) (∑ i ∈ Finset.range n, F' i) x :=
  HasDerivAt.fun_sum h
theorem s_succ (n : ℕ) (a : ℕ → ℝ) : ∑ i ∈ Finset.range (n+1), a i = ∑ i ∈ Finset.range n, a i + a n :=
  Finset.sum_range_succ a n
theorem s_congr (n : ℕ) (a b : ℕ → ℝ) (h : ∀ i, i < n → a i = b i) :
    ∑ i ∈ Finset.range n, a i = ∑ i ∈ Finset.range n, b i :=
  Finset.sum_congr rfl (fun i hi => h i (Finset.mem_range.mp hi))
-- polynomial degree closure
open MvPolynomial in
theorem d_C (σ : Type) (c : ℝ) : (C c : MvPolynomial σ ℝ).totalDegree = 0 := totalDegree_C c
open MvPolynomial in
theorem d_X (σ : Type) (i : σ) : (X i : MvPolynomial σ ℝ).totalDegree = 1 := totalDegree_X i
open MvPolynomial in
theorem d_sub (σ : Type) (p q : MvPolynomial σ ℝ) : (p - q).totalDegree ≤ max p.totalDegree q.totalDegree :=
  totalDegree_sub p q
open MvPolynomial in
theorem d_neg (σ : Type) (p : MvPolynomial σ ℝ) : (-p).totalDegree = p.totalDegree := totalDegree_neg p
open MvPolynomial in
theorem d_smul (σ : Type) (c : ℝ) (p : MvPolynomial σ ℝ) : (c • p).totalDegree ≤ p.totalDegree :=
  totalDegree_smul_le c p
open MvPolynomial in
theorem d_sum (σ : Type) (n : ℕ) (F : ℕ → MvPolynomial σ ℝ) :
    (∑ i ∈ Finset.range n, F i).totalDegree ≤ (Finset.range n).sup (fun i => (F i).totalDegree) :=
  totalDegree_finsetSum _ _
-- degree 0 => constant evaluation
open MvPolynomial in
theorem d_zero_const (σ : Type) (p : MvPolynomial σ ℝ) (h : p.totalDegree = 0) (u v : σ → ℝ) :
    eval u p = eval v p := by
  rw [totalDegree_eq_zero_iff_eq_C.mp h]; simp

-- rules of spike 1 in the exact shape the code emits
theorem d_mul (hf : HasDerivAt f f' x) (hg : HasDerivAt g g' x) :
    HasDerivAt (fun y => f y * g y) (f x * g' + g x * f') x := by
  have h := hf.mul hg
  have e : f x * g' + g x * f' = f' * g x + f x * g' := by ring
  rw [e]; exact h

theorem d_div (hf : HasDerivAt f f' x) (hg : HasDerivAt g g' x) (hx : g x ≠ 0) :
    HasDerivAt (fun y => f y / g y) ((g x * f' - f x * g') / (g x * g x)) x := by
  have h := hf.div hg hx
  have e : (g x * f' - f x * g') / (g x * g x) = (f' * g x - f x * g') / (g x)^2 := by ring
  rw [e]; exact h

theorem d_sin (hf : HasDerivAt f f' x) :
    HasDerivAt (fun y => Real.sin (f y)) (Real.cos (f x) * f') x := hf.sin

theorem d_tan (hf : HasDerivAt f f' x) (h : Real.cos (f x) ≠ 0) :
    HasDerivAt (fun y => Real.tan (f y)) (1 / (Real.cos (f x) * Real.cos (f x)) * f') x := by
  have h1 := (Real.hasDerivAt_tan h).comp x hf
  have e : 1 / (Real.cos (f x) * Real.cos (f x)) * f' = 1 / Real.cos (f x) ^ 2 * f' := by ring
  rw [e]; exact h1

open MvPolynomial in
theorem deg_add (σ : Type) (p q : MvPolynomial σ ℝ) :
    (p + q).totalDegree ≤ max p.totalDegree q.totalDegree := totalDegree_add p q
open MvPolynomial in
theorem deg_mul (σ : Type) (p q : MvPolynomial σ ℝ) :
    (p * q).totalDegree ≤ p.totalDegree + q.totalDegree := totalDegree_mul p q
open MvPolynomial in
theorem deg_pow (σ : Type) (p : MvPolynomial σ ℝ) (n : ℕ) :
    (p ^ n).totalDegree ≤ n * p.totalDegree := totalDegree_pow p n

-- ---------------------------------------------------------------- sequence theory (contracts/seqtheory.py)
-- psum_zero: a sum of zeros is zero (used contrapositively: a non-zero sum has a non-zero entry)
theorem psum_zero (n : ℕ) (a : ℕ → ℝ) (h : ∀ i, i < n → a i = 0) : ∑ i ∈ Finset.range n, a i = 0 :=
  Finset.sum_eq_zero (fun i hi => h i (Finset.mem_range.mp hi))

-- psum_single: all entries but one vanish
theorem psum_single (n : ℕ) (a : ℕ → ℝ) (j : ℕ) (hj : j < n) (h : ∀ i, i < n → i ≠ j → a i = 0) :
    ∑ i ∈ Finset.range n, a i = a j := by
  apply Finset.sum_eq_single j
  · intro i hi hne; exact h i (Finset.mem_range.mp hi) hne
  · intro hn; exact absurd (Finset.mem_range.mpr hj) hn

-- psum_pair: all entries but two vanish
theorem psum_pair (n : ℕ) (a : ℕ → ℝ) (j k : ℕ) (hj : j < n) (hk : k < n) (hjk : j ≠ k)
    (h : ∀ i, i < n → i ≠ j → i ≠ k → a i = 0) :
    ∑ i ∈ Finset.range n, a i = a j + a k := by
  have hsub : ({j, k} : Finset ℕ) ⊆ Finset.range n := by
    intro i hi
    simp only [Finset.mem_insert, Finset.mem_singleton] at hi
    rcases hi with rfl | rfl
    · exact Finset.mem_range.mpr hj
    · exact Finset.mem_range.mpr hk
  rw [← Finset.sum_subset hsub]
  · exact Finset.sum_pair hjk
  · intro i hi hni
    simp only [Finset.mem_insert, Finset.mem_singleton, not_or] at hni
    exact h i (Finset.mem_range.mp hi) hni.1 hni.2

-- dot_neg / dot_ext: linearity and congruence of the dot product in its first argument
theorem dot_neg (n : ℕ) (a b x : ℕ → ℝ) (h : ∀ i, i < n → a i = - b i) :
    ∑ i ∈ Finset.range n, a i * x i = - ∑ i ∈ Finset.range n, b i * x i := by
  rw [← Finset.sum_neg_distrib]
  apply Finset.sum_congr rfl
  intro i hi
  rw [h i (Finset.mem_range.mp hi)]; ring

theorem dot_ext (n : ℕ) (a b x : ℕ → ℝ) (h : ∀ i, i < n → a i = b i) :
    ∑ i ∈ Finset.range n, a i * x i = ∑ i ∈ Finset.range n, b i * x i := by
  apply Finset.sum_congr rfl
  intro i hi
  rw [h i (Finset.mem_range.mp hi)]

-- dot_update: changing one entry of the coefficient row
theorem dot_update (n : ℕ) (a x : ℕ → ℝ) (j : ℕ) (v : ℝ) (hj : j < n) :
    ∑ i ∈ Finset.range n, (Function.update a j v) i * x i
      = ∑ i ∈ Finset.range n, a i * x i + (v - a j) * x j := by
  have hmem : j ∈ Finset.range n := Finset.mem_range.mpr hj
  rw [← Finset.add_sum_erase _ _ hmem, ← Finset.add_sum_erase (Finset.range n) (fun i => a i * x i) hmem]
  have : ∑ i ∈ (Finset.range n).erase j, (Function.update a j v) i * x i
       = ∑ i ∈ (Finset.range n).erase j, a i * x i := by
    apply Finset.sum_congr rfl
    intro i hi
    rw [Function.update_of_ne (Finset.ne_of_mem_erase hi)]
  rw [this, Function.update_self]; ring

-- prefix folds (named_forall / named_exists / named_maxfold are these definitions, instantiated)
theorem forall_prefix_elim (n : ℕ) (P : ℕ → Prop) (h : ∀ i, i < n → P i) (k : ℕ) (hk : k < n) : P k := h k hk
theorem exists_prefix_intro (n : ℕ) (P : ℕ → Prop) (k : ℕ) (hk : k < n) (h : P k) : ∃ i, i < n ∧ P i := ⟨k, hk, h⟩
theorem maxfold_ge (n : ℕ) (a : ℕ → ℕ) (k : ℕ) (hk : k < n) : a k ≤ (Finset.range n).sup a :=
  Finset.le_sup (Finset.mem_range.mpr hk)

-- ---------------------------------------------------------------- covers <-> occ (bridge lemmas of compiler_c.py)
inductive OTree where
  | const : ℝ → OTree
  | var : ℕ → OTree
  | bin : OTree → OTree → OTree
  | un : OTree → OTree

def OTree.occ : OTree → ℕ → Prop
  | .const _, _ => False
  | .var m, n => m = n
  | .bin l r, n => l.occ n ∨ r.occ n
  | .un t, n => t.occ n

def OTree.covers : OTree → Set ℕ → Prop
  | .const _, _ => True
  | .var m, D => m ∈ D
  | .bin l r, D => l.covers D ∧ r.covers D
  | .un t, D => t.covers D

theorem covers_iff_occ (t : OTree) (D : Set ℕ) : t.covers D ↔ ∀ n, t.occ n → n ∈ D := by
  induction t with
  | const c => simp [OTree.covers, OTree.occ]
  | var m => simp [OTree.covers, OTree.occ]
  | bin l r ihl ihr =>
    simp only [OTree.covers, OTree.occ, ihl, ihr]
    constructor
    · rintro ⟨hl, hr⟩ n (h | h)
      · exact hl n h
      · exact hr n h
    · intro h
      exact ⟨fun n hn => h n (Or.inl hn), fun n hn => h n (Or.inr hn)⟩
  | un t ih => simpa [OTree.covers, OTree.occ] using ih

-- ---------------------------------------------------------------- C17: derivative of a function that agrees with another one near x
theorem deriv_of_eventually_eq (u v : ℝ → ℝ) (u' : ℝ) (x : ℝ) (h : u =ᶠ[nhds x] v) (hu : HasDerivAt u u' x) :
    HasDerivAt v u' x := hu.congr_of_eventuallyEq h.symm

-- psum_const: a sum of n equal entries (used for sum(x ** 0) = len(x))
theorem psum_const (n : ℕ) (a : ℕ → ℝ) (c : ℝ) (h : ∀ i, i < n → a i = c) :
    ∑ i ∈ Finset.range n, a i = n * c := by
  rw [Finset.sum_congr rfl (fun i hi => h i (Finset.mem_range.mp hi))]
  simp

-- ---------------------------------------------------------------- filtered lists (pyvc FilterListSpec: conditional append)
-- cnt keep k = number of kept source positions below k = length of the list after k iterations
def cnt (keep : ℕ → Prop) [DecidablePred keep] (k : ℕ) : ℕ := ((Finset.range k).filter keep).card

theorem cnt_zero (keep : ℕ → Prop) [DecidablePred keep] : cnt keep 0 = 0 := by simp [cnt]

theorem cnt_succ (keep : ℕ → Prop) [DecidablePred keep] (k : ℕ) :
    cnt keep (k+1) = cnt keep k + (if keep k then 1 else 0) := by
  unfold cnt
  rw [Finset.range_add_one, Finset.filter_insert]
  split_ifs with h
  · rw [Finset.card_insert_of_notMem]; simp
  · simp

theorem cnt_mono (keep : ℕ → Prop) [DecidablePred keep] (k n : ℕ) (h : k ≤ n) : cnt keep k ≤ cnt keep n := by
  unfold cnt
  apply Finset.card_le_card
  apply Finset.filter_subset_filter
  exact Finset.range_mono h

-- a kept source position k < n lands at list position cnt k < cnt n (in range of the finished list)
theorem cnt_lt (keep : ℕ → Prop) [DecidablePred keep] (k n : ℕ) (h : k < n) (hk : keep k) : cnt keep k < cnt keep n := by
  have h1 : cnt keep (k+1) ≤ cnt keep n := cnt_mono keep (k+1) n h
  have h2 := cnt_succ keep k
  simp [hk] at h2
  omega

-- the position function is injective on kept positions, so "source of list position p" is well defined
theorem cnt_inj (keep : ℕ → Prop) [DecidablePred keep] (j k : ℕ) (hj : keep j) (hk : keep k) (h : cnt keep j = cnt keep k) : j = k := by
  rcases Nat.lt_trichotomy j k with h1 | h1 | h1
  · have := cnt_lt keep j k h1 hj; omega
  · exact h1
  · have := cnt_lt keep k j h1 hk; omega

-- the index map {name of V_k : k} of a variable list is injective on the names of the list (contracts/lpextract_c.py: INJ)
theorem idx_inj {α : Type} (f : ℕ → α) (idx : α → ℕ) (n : ℕ) (h : ∀ k, k < n → idx (f k) = k)
    (a b : α) (ha : ∃ j, j < n ∧ f j = a) (hb : ∃ k, k < n ∧ f k = b) (e : idx a = idx b) : a = b := by
  obtain ⟨j, hj, rfl⟩ := ha
  obtain ⟨k, hk, rfl⟩ := hb
  rw [h j hj, h k hk] at e
  rw [e]
