"""Contracts for optyx.problem.Problem (C13, C16 and the routing half of C08/C09/C18)."""
from __future__ import annotations

import z3

from pyvc import sym
from pyvc.contracts import T
from pyvc.values import (HeapList, Obj, Opaque, PList, SBool, SInt, SOpt, SReal, SSeq, SSet, Unsupported, real_term)

from .specfns import Spec

M = "optyx.problem"
P_ = "Problem."
CACHES = ["_variables", "_solver_cache", "_lp_cache", "_is_linear_cache"]


def st(ip, name, sort):
    return ip.path.store_of(name, sort)


class PState:
    """Snapshot of the model state of a Problem (terms over the stores at the time of the snapshot)."""

    def __init__(self, ip, P):
        r = P.ref
        self.obj_none = z3.Select(st(ip, "Problem._objective!none", sym.B), r)
        self.obj = z3.Select(st(ip, "Problem._objective", sym.Ref), r)
        self.sense = z3.Select(st(ip, "Problem._sense", sym.Name), r)
        self.ncon = z3.Select(st(ip, "Problem._constraints!len", sym.I), r)
        self.cons = z3.Select(st(ip, "Problem._constraints!elems", sym.RefArr), r)
        self.cache_none = {c: z3.Select(st(ip, f"Problem.{c}!none", sym.B), r) for c in CACHES}

    def same_model(self, other: "PState"):
        return z3.And(self.obj_none == other.obj_none, self.obj == other.obj, self.sense == other.sense,
                      self.ncon == other.ncon, self.cons == other.cons)

    def caches_cleared(self):
        return z3.And(*self.cache_none.values())


FIELD_SORTS = {"_objective": sym.Ref, "_sense": sym.Name, "_constraints!len": sym.I, "_constraints!elems": sym.RefArr,
               "_variables": sym.Ref, "_solver_cache": sym.Ref, "_lp_cache": sym.Ref, "_is_linear_cache": sym.B}


def havoc_fields(ip, P, fields):
    """Effect of a callee that may write the given fields of P: only P's entries of those stores change."""
    p = ip.path
    for f in fields:
        names = []
        if f == "_constraints":
            names = [("Problem._constraints!len", sym.I), ("Problem._constraints!elems", sym.RefArr)]
        else:
            names = [(f"Problem.{f}!none", sym.B), (f"Problem.{f}", FIELD_SORTS[f])]
        if f == "_sense":
            names = [("Problem._sense", sym.Name)]
        for nm, srt in names:
            p.stores[nm] = z3.Store(p.store_of(nm, srt), P.ref, sym.fresh("hv_" + nm.split(".")[-1], srt))
    p.event("field-write", ("Problem.*", P.ref))


def install(reg, src):
    reg.mark_inline(f"{M}:{P_}_validate_expression", f"{M}:{P_}_validate_constraint", f"{M}:{P_}objective", f"{M}:{P_}sense",
                    f"{M}:{P_}constraints", f"{M}:{P_}n_constraints")

    def prob(c):
        P = c.arg("self", T.obj("Problem", exact=True))
        c.ip.path.assume(z3.Select(st(c.ip, "Problem._constraints!len", sym.I), P.ref) >= 0)
        return P

    def frame_others(c, P, before: PState):
        """Nothing but this problem's fields is written (store equality on every other object is by construction of
        Store(...); what is checked here is that the fields of *other* objects named in the model stay as they were)."""
        return None

    # ---- _invalidate_caches: the four cache fields are None afterwards, the model is untouched
    @reg.contract(f"{M}:{P_}_invalidate_caches", props=["C13", "C20"])
    def _(c):
        P = prob(c)
        before = PState(c.ip, P)
        if not c.verifying:
            havoc_fields(c.ip, P, CACHES)
        c.returns(T.none())
        c.ensures("all four caches reset", lambda res: PState(c.ip, P).caches_cleared())
        c.ensures("model untouched", lambda res: PState(c.ip, P).same_model(before))

    # ---- minimize / maximize
    def objective_setter(name, sense_lit):
        @reg.contract(f"{M}:{P_}{name}", props=["C13"], cases={"arg": ["Expression", "int", "float", "other"]})
        def _(c):
            sp = Spec(c.ip)
            P = prob(c)
            kind = c.choose("arg", [])
            if c.verifying:
                if kind == "Expression":
                    e = c.arg("expr", T.expr())
                elif kind == "int":
                    e = c.arg("expr", T.custom(lambda ip, h: SReal(sym.to_real(sym.fresh("k", sym.I)), "int")))
                elif kind == "float":
                    e = c.arg("expr", T.real("float"))
                else:
                    e = c.arg("expr", T.const("not an expression"))
            else:
                e = c.arg("expr")
            before = PState(c.ip, P)
            if not c.verifying:
                havoc_fields(c.ip, P, ["_objective", "_sense"] + CACHES)
            if c.verifying and kind == "other":
                c.raises("InvalidOperationError", when=None, name="non-expression objective rejected")
                c.ensures("unreachable", lambda res: z3.BoolVal(False))
                c.on_exit.append(lambda cc, outcome, val: cc.path.oblige(
                    cc.ip.cur_oid("rejected objective leaves the problem untouched"),
                    z3.And(PState(cc.ip, P).same_model(before)), kind="frame") if outcome == "raise" else None)
                return
            c.returns(lambda cc: P)

            def post(res):
                now = PState(c.ip, P)
                if isinstance(e, (Obj, Opaque)):
                    objok = z3.And(z3.Not(now.obj_none), now.obj == c.ip.models.ref_of(c.ip, e))
                else:
                    K = sp.K
                    objok = z3.And(z3.Not(now.obj_none), K.is_kind(now.obj, "Constant"),
                                   sp.S.F("value", sym.R)(now.obj) == real_term(e))
                return [objok, now.sense == sym.lit(sense_lit), now.ncon == before.ncon, now.cons == before.cons,
                        now.caches_cleared(), z3.BoolVal(res is P)]
            c.ensures("model updated and caches reset", post)
        return _
    objective_setter("minimize", "minimize")
    objective_setter("maximize", "maximize")

    # ---- subject_to
    @reg.contract(f"{M}:{P_}subject_to", props=["C13"], cases={"arg": ["Constraint", "list2", "list-bad", "other"]})
    def _(c):
        sp = Spec(c.ip)
        P = prob(c)
        kind = c.choose("arg", [])
        if c.verifying:
            mk = lambda: T.obj("Constraint", exact=True).fresh(c.ip, "con")
            if kind == "Constraint":
                a = c.arg("constraint", T.obj("Constraint", exact=True))
                items = [a]
            elif kind == "list2":
                items = [mk(), mk()]
                a = c.arg("constraint", T.const(PList(items)))
            elif kind == "list-bad":
                items = [mk()]
                a = c.arg("constraint", T.const(PList(items + ["oops"])))
            else:
                items = []
                a = c.arg("constraint", T.const("oops"))
        else:
            a = c.arg("constraint")
            items = a.items if isinstance(a, PList) else [a]
        before = PState(c.ip, P)
        if not c.verifying:
            havoc_fields(c.ip, P, ["_constraints"] + CACHES)
        bad = c.verifying and kind in ("list-bad", "other")
        if bad:
            c.raises("ConstraintError", when=None, name="non-constraint rejected")
            # C13/C20: on the exceptional exit the caches must still describe the model (D23)
            def on_exit(cc, outcome, val):
                if outcome != "raise":
                    cc.path.oblige(cc.ip.cur_oid("non-constraint rejected (must raise)"), False, kind="post")
                    return
                now = PState(cc.ip, P)
                cc.path.oblige(cc.ip.cur_oid("exceptional exit: caches still describe the model"),
                               z3.Or(now.same_model(before), now.caches_cleared()), kind="frame")
            c.on_exit.append(on_exit)
            return
        c.returns(lambda cc: P)

        def post(res):
            now = PState(c.ip, P)
            goals = [now.obj_none == before.obj_none, now.obj == before.obj, now.sense == before.sense,
                     now.ncon == before.ncon + len(items), now.caches_cleared(), z3.BoolVal(res is P)]
            for k, it in enumerate(items):
                goals.append(z3.Select(now.cons, before.ncon + k) == c.ip.models.ref_of(c.ip, it))
            j = sym.fresh("j", sym.I)
            goals.append(z3.Implies(z3.And(j >= 0, j < before.ncon), z3.Select(now.cons, j) == z3.Select(before.cons, j)))
            return goals
        c.ensures("constraints appended in order and caches reset", post)

    # ---- __init__ (allocated problem): empty model, all caches None
    @reg.contract(f"{M}:{P_}__init__", props=["C13"])
    def _(c):
        if c.verifying:
            from pyvc.values import Obj as _Obj
            o = _Obj("Problem")
            c.argorder.append("self"); c.argvals["self"] = o
            c.argorder.append("name"); c.argvals["name"] = None
            c.returns(T.none())
            def post(res):
                f = o.fields
                return [z3.BoolVal(f.get("_objective", 0) is None), z3.BoolVal(f.get("_sense") == "minimize"),
                        z3.BoolVal(isinstance(f.get("_constraints"), PList) and not f["_constraints"].items)] + \
                       [z3.BoolVal(f.get(cn, 0) is None) for cn in CACHES]
            c.ensures("empty model, caches None", post)
    reg.PState = PState
