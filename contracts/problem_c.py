"""Contracts for optyx.problem.Problem (C13, C16 and the routing half of C08/C09/C18)."""
from __future__ import annotations

import z3

from pyvc import sym
from pyvc.contracts import T
from pyvc.values import (HeapList, Obj, Opaque, PList, SBool, SInt, SOpt, SReal, SSeq, SSet, Unsupported, real_term)

from .specfns import Spec

M = "optyx.problem"
P_ = "Problem."
CACHES = ["_variables", "_solver_cache", "_lp_cache", "_is_linear_cache"]


def st(ip, name, sort):
    return ip.path.store_of(name, sort)


class PState:
    """Snapshot of the model state of a Problem (terms over the stores at the time of the snapshot)."""

    def __init__(self, ip, P):
        r = P.ref
        self.obj_none = z3.Select(st(ip, "Problem._objective!none", sym.B), r)
        self.obj = z3.Select(st(ip, "Problem._objective", sym.Ref), r)
        self.sense = z3.Select(st(ip, "Problem._sense", sym.Name), r)
        self.ncon = z3.Select(st(ip, "Problem._constraints!len", sym.I), r)
        self.cons = z3.Select(st(ip, "Problem._constraints!elems", sym.RefArr), r)
        self.cache_none = {c: z3.Select(st(ip, f"Problem.{c}!none", sym.B), r) for c in CACHES}

    def same_model(self, other: "PState"):
        return z3.And(self.obj_none == other.obj_none, self.obj == other.obj, self.sense == other.sense,
                      self.ncon == other.ncon, self.cons == other.cons)

    def caches_cleared(self):
        return z3.And(*self.cache_none.values())


FIELD_SORTS = {"_objective": sym.Ref, "_sense": sym.Name, "_constraints!len": sym.I, "_constraints!elems": sym.RefArr,
               "_variables": sym.Ref, "_solver_cache": sym.Ref, "_lp_cache": sym.Ref, "_is_linear_cache": sym.B}


def havoc_fields(ip, P, fields):
    """Effect of a callee that may write the given fields of P: only P's entries of those stores change."""
    p = ip.path
    for f in fields:
        names = []
        if f == "_constraints":
            names = [("Problem._constraints!len", sym.I), ("Problem._constraints!elems", sym.RefArr)]
        else:
            names = [(f"Problem.{f}!none", sym.B), (f"Problem.{f}", FIELD_SORTS[f])]
        if f == "_sense":
            names = [("Problem._sense", sym.Name)]
        for nm, srt in names:
            p.stores[nm] = z3.Store(p.store_of(nm, srt), P.ref, sym.fresh("hv_" + nm.split(".")[-1], srt))
    p.event("field-write", ("Problem.*", P.ref))


def install(reg, src):
    reg.mark_inline(f"{M}:{P_}_validate_expression", f"{M}:{P_}_validate_constraint", f"{M}:{P_}objective", f"{M}:{P_}sense",
                    f"{M}:{P_}constraints", f"{M}:{P_}n_constraints")

    def prob(c):
        P = c.arg("self", T.obj("Problem", exact=True))
        c.ip.path.assume(z3.Select(st(c.ip, "Problem._constraints!len", sym.I), P.ref) >= 0)
        return P

    def frame_others(c, P, before: PState):
        """Nothing but this problem's fields is written (store equality on every other object is by construction of
        Store(...); what is checked here is that the fields of *other* objects named in the model stay as they were)."""
        return None

    # ---- _invalidate_caches: the four cache fields are None afterwards, the model is untouched
    @reg.contract(f"{M}:{P_}_invalidate_caches", props=["C13", "C20", "C08"])
    def _(c):
        P = prob(c)
        before = PState(c.ip, P)
        if not c.verifying:
            havoc_fields(c.ip, P, CACHES)
        c.returns(T.none())
        c.ensures("all four caches reset", lambda res: PState(c.ip, P).caches_cleared())
        c.ensures("model untouched", lambda res: PState(c.ip, P).same_model(before))

    # ---- minimize / maximize
    def objective_setter(name, sense_lit):
        @reg.contract(f"{M}:{P_}{name}", props=["C13", "C08"], cases={"arg": ["Expression", "int", "float", "other"]})
        def _(c):
            sp = Spec(c.ip)
            P = prob(c)
            kind = c.choose("arg", [])
            if c.verifying:
                if kind == "Expression":
                    e = c.arg("expr", T.expr())
                elif kind == "int":
                    e = c.arg("expr", T.custom(lambda ip, h: SReal(sym.to_real(sym.fresh("k", sym.I)), "int")))
                elif kind == "float":
                    e = c.arg("expr", T.real("float"))
                else:
                    e = c.arg("expr", T.const("not an expression"))
            else:
                e = c.arg("expr")
            before = PState(c.ip, P)
            if not c.verifying:
                havoc_fields(c.ip, P, ["_objective", "_sense"] + CACHES)
            if c.verifying and kind == "other":
                c.raises("InvalidOperationError", when=None, name="non-expression objective rejected")
                c.ensures("unreachable", lambda res: z3.BoolVal(False))
                c.on_exit.append(lambda cc, outcome, val: cc.path.oblige(
                    cc.ip.cur_oid("rejected objective leaves the problem untouched"),
                    z3.And(PState(cc.ip, P).same_model(before)), kind="frame") if outcome == "raise" else None)
                return
            c.returns(lambda cc: P)

            def post(res):
                now = PState(c.ip, P)
                if isinstance(e, (Obj, Opaque)):
                    objok = z3.And(z3.Not(now.obj_none), now.obj == c.ip.models.ref_of(c.ip, e))
                else:
                    K = sp.K
                    objok = z3.And(z3.Not(now.obj_none), K.is_kind(now.obj, "Constant"),
                                   sp.S.F("value", sym.R)(now.obj) == real_term(e))
                return [objok, now.sense == sym.lit(sense_lit), now.ncon == before.ncon, now.cons == before.cons,
                        now.caches_cleared(), z3.BoolVal(res is P)]
            c.ensures("model updated and caches reset", post)
        return _
    objective_setter("minimize", "minimize")
    objective_setter("maximize", "maximize")

    # ---- subject_to
    @reg.contract(f"{M}:{P_}subject_to", props=["C13", "C08"], cases={"arg": ["Constraint", "list2", "list-bad", "other"]})
    def _(c):
        sp = Spec(c.ip)
        P = prob(c)
        kind = c.choose("arg", [])
        if c.verifying:
            mk = lambda: T.obj("Constraint", exact=True).fresh(c.ip, "con")
            if kind == "Constraint":
                a = c.arg("constraint", T.obj("Constraint", exact=True))
                items = [a]
            elif kind == "list2":
                items = [mk(), mk()]
                a = c.arg("constraint", T.const(PList(items)))
            elif kind == "list-bad":
                items = [mk()]
                a = c.arg("constraint", T.const(PList(items + ["oops"])))
            else:
                items = []
                a = c.arg("constraint", T.const("oops"))
        else:
            a = c.arg("constraint")
            items = a.items if isinstance(a, PList) else [a]
        before = PState(c.ip, P)
        if not c.verifying:
            havoc_fields(c.ip, P, ["_constraints"] + CACHES)
        bad = c.verifying and kind in ("list-bad", "other")
        if bad:
            c.raises("ConstraintError", when=None, name="non-constraint rejected")
            # C13/C20: on the exceptional exit the caches must still describe the model (D23)
            def on_exit(cc, outcome, val):
                if outcome != "raise":
                    cc.path.oblige(cc.ip.cur_oid("non-constraint rejected (must raise)"), False, kind="post")
                    return
                now = PState(cc.ip, P)
                cc.path.oblige(cc.ip.cur_oid("exceptional exit: caches still describe the model"),
                               z3.Or(now.same_model(before), now.caches_cleared()), kind="frame")
            c.on_exit.append(on_exit)
            return
        c.returns(lambda cc: P)

        def post(res):
            now = PState(c.ip, P)
            goals = [now.obj_none == before.obj_none, now.obj == before.obj, now.sense == before.sense,
                     now.ncon == before.ncon + len(items), now.caches_cleared(), z3.BoolVal(res is P)]
            for k, it in enumerate(items):
                goals.append(z3.Select(now.cons, before.ncon + k) == c.ip.models.ref_of(c.ip, it))
            j = sym.fresh("j", sym.I)
            goals.append(z3.Implies(z3.And(j >= 0, j < before.ncon), z3.Select(now.cons, j) == z3.Select(before.cons, j)))
            return goals
        c.ensures("constraints appended in order and caches reset", post)

    # ---- __init__ (allocated problem): empty model, all caches None
    @reg.contract(f"{M}:{P_}__init__", props=["C13"])
    def _(c):
        if c.verifying:
            from pyvc.values import Obj as _Obj
            o = _Obj("Problem")
            c.argorder.append("self"); c.argvals["self"] = o
            c.argorder.append("name"); c.argvals["name"] = None
            c.returns(T.none())
            def post(res):
                f = o.fields
                return [z3.BoolVal(f.get("_objective", 0) is None), z3.BoolVal(f.get("_sense") == "minimize"),
                        z3.BoolVal(isinstance(f.get("_constraints"), PList) and not f["_constraints"].items)] + \
                       [z3.BoolVal(f.get(cn, 0) is None) for cn in CACHES]
            c.ensures("empty model, caches None", post)
    reg.PState = PState
    install_vars(reg, src)
    install_rest(reg, src)


# ======================================================================================= C16: variables of a problem
NAMESET = z3.ArraySort(sym.Name, sym.B)
NAMES_OF = sym.fn("NAMES_OF", sym.Ref, NAMESET)          # names of the Variables in a list object
NATSORTED = sym.fn("NATSORTED", sym.Ref, sym.B)          # list object is sorted by the natural (numeric-aware) key
DISTINCT = sym.fn("DISTINCTNAMES", sym.Ref, sym.B)       # no two entries of the list object have the same name


VARLIST = sym.fn("VARLIST", sym.B, sym.Ref, sym.RefArr, sym.I, sym.Ref)   # content of Problem.variables as a function of the model


def varlist_base(s):
    return VARLIST(s.obj_none, s.obj, s.cons, s.ncon)


def NM(ip):
    """The arbitrary variable name of this path: every `for all names` *goal* is checked at it."""
    g = ip.path.ghost
    if "NM*" not in g:
        g["NM*"] = sym.fresh("anyname", sym.Name)
        _names(ip).append(g["NM*"])
        for gen in list(g.get("forall_name_facts", [])):
            ip.path.assume(gen(g["NM*"]))
    return g["NM*"]


def _names(ip):
    return ip.path.ghost.setdefault("names_of_interest", [])


def forall_name(ip, gen):
    """A fact that holds for every variable name: instantiated at every name of interest, now and later."""
    NM(ip)
    ip.path.ghost.setdefault("forall_name_facts", []).append(gen)
    for nm in list(_names(ip)):
        ip.path.assume(gen(nm))


def witness_name(ip, hint="wname"):
    """A fresh name constant (witness of an existential over names); all registered for-all facts are instantiated at it."""
    nm = sym.fresh(hint, sym.Name)
    _names(ip).append(nm)
    for gen in list(ip.path.ghost.get("forall_name_facts", [])):
        ip.path.assume(gen(nm))
    return nm


def install_bounded_order(reg):
    reg.bounded_checks.setdefault("C16", []).append({
        "name": "natural-order", "script": "bounded_order.py", "timeout": 300,
        "bound": "6 pools of names (vector elements with 1-3 digit indices, matrix elements, suffixed scalars, mixed prefixes, two "
                 "vectors) x 4 creation / mention orders; Problem.variables compared with an independent natural sort",
        "why": "that _natural_sort_key orders names numerically inside digit runs is string processing (a regular-expression split) "
               "outside the executor's theories; the proof side only shows that the list is sorted by that key"})


def install_vars(reg, src):
    install_bounded_order(reg)
    from .seqtheory import OCCV, VLEN, register_vector, named_exists, named_forall, seqs, _once
    from .compiler_c import names_of_varlist
    EX = "optyx.core.expressions"

    def set_of_field(ip, ref, field, S):
        if field == "_variables":
            sp = Spec(ip)
            def member(nm):
                register_vector(sp, ref, nm)
                return OCCV(ref, nm, VLEN(ref))
            return SSet(member, "set(vector._variables)")
        return None
    reg.set_of_field_hook = set_of_field

    def sorted_hook(ip, it, key, node):
        """sorted(set_of_variables, key=_natural_sort_key): the list with exactly one Variable per name in the set, in
        natural order (A4: sorted returns the key-ordered permutation; the natural order is established only when the
        key is optyx.problem._natural_sort_key itself)."""
        from pyvc.values import FuncRef
        if isinstance(it, SSeq) and it.tag and it.tag[0] == "field" and it.tag[1] == "_variables":
            # sorted(vector._variables): the elements of a vector are pairwise distinct (A6), so the sorted list is the
            # sorted list of the set of its variables
            it = set_of_field(ip, it.tag[2], "_variables", it)
        if not isinstance(it, SSet):
            raise Unsupported("sorted() of something that is not a set of Variables")
        base = sym.fresh("sortedlist", sym.Ref)
        L = ip.schema.seq_of_base(ip, base, "Variable")
        nm = NM(ip)
        ip.path.assume(z3.Select(NAMES_OF(base), nm) == it.member(nm))
        ip.path.assume(DISTINCT(base))
        if isinstance(key, FuncRef) and key.finfo.key == f"{M}:_natural_sort_key":
            ip.path.assume(NATSORTED(base))
        return L
    reg.sorted_hook = sorted_hook

    def boxed_seq_hook(ip, base, S):
        """list(vector._variables) etc.: the new list object has the names of its source."""
        nm = NM(ip)
        if S.tag and S.tag[0] == "field" and S.tag[1] == "_variables":
            vref = S.tag[2]
            sp = Spec(ip)
            register_vector(sp, vref, nm)
            ip.path.assume(z3.Select(NAMES_OF(base), nm) == OCCV(vref, nm, VLEN(vref)))
            ip.path.assume(DISTINCT(base))      # A6
    reg.boxed_seq_hook = boxed_seq_hook

    # ---- get_variables: the virtual contract and every override
    def gv_contract(c, argname="self", ty=None):
        sp = Spec(c.ip)
        e = c.arg(argname, ty)
        c.decreases(e)
        c.returns(lambda cc: SSet(lambda nm: sp.occ(e, nm), "Vars"))
        def post(res):
            if not isinstance(res, SSet):
                return z3.BoolVal(False)
            nm = NM(c.ip)
            return res.member(nm) == sp.occ(e, nm)
        c.ensures("exactly the variables that occur", post)
        return e

    @reg.contract("virtual:Expression.get_variables", props=["C16"], group="vars", rank=0)
    def _(c):
        gv_contract(c, "self", T.expr())

    from .compiler_c import compile_cases
    from .expressions_c import EV_KEYS
    kinds = {}
    for cse in compile_cases(src):
        kinds.setdefault(cse.split("|")[0].split(":")[0], []).append(cse)
    for kind, kcases in kinds.items():
        ci = src.classes.get(kind)
        if ci is None or "get_variables" not in ci.methods or kind in ("MatrixSum", "FrobeniusNorm"):
            continue
        key = ci.methods["get_variables"].key
        def mk(key=key, kcases=kcases, kind=kind):
            @reg.contract(key, props=["C16"], cases={"node": kcases}, group="vars", rank=1)
            def _(c):
                from .autodiff_c import node_type
                sp = Spec(c.ip)
                case = c.choose("node", kcases)
                if case is None:
                    return gv_contract(c, "self", None)
                parts = case.split("|")
                e = gv_contract(c, "self", node_type(parts[0]))
                r = sp.ref(e)
                base_kind = parts[0].split(":")[0]
                fixed = {"VectorSum": ("vector", "VectorVariable"), "VectorPowerSum": ("vector", "VectorVariable"),
                         "VectorUnarySum": ("vector", "VectorVariable"), "VectorExpressionSum": ("expression", "VectorExpression")}
                pairs = []
                if len(parts) > 1:
                    fields = ["left", "right"] if base_kind == "DotProduct" else ["vector"]
                    pairs = list(zip(fields, parts[1:]))
                elif base_kind in fixed:
                    pairs = [fixed[base_kind]]
                for f, k in pairs:
                    v = sp.S.F(f, sym.Ref)(r)
                    c.assume(sp.K.is_kind(v, k))
                    sp.S.learn_kind(c.ip, v, k)
        mk()

    # VectorExpression.get_variables (container): union over elements
    @reg.contract("optyx.core.vectors:VectorExpression.get_variables", props=["C16"], group="vars", rank=1)
    def _(c):
        sp = Spec(c.ip)
        ve = c.arg("self", T.obj("VectorExpression", exact=True))
        v = sp.ref(ve)
        c.decreases(ve)
        def member(nm):
            register_vector(sp, v, nm)
            return OCCV(v, nm, VLEN(v))
        c.returns(lambda cc: SSet(member, "Vars(vector expression)"))
        def post(res):
            nm = NM(c.ip)
            return res.member(nm) == member(nm)
        c.ensures("exactly the variables that occur", post)
        if c.verifying:
            nm = NM(c.ip)
            register_vector(sp, v, nm)
            MEM = sym.fn("MEMHV", sym.I, sym.Name, sym.B)
            def inv(st):
                res = st.var("result")
                return res.member(nm) == OCCV(v, nm, st.i)
            c.loop(1, inv, havoc={"result": T.custom(lambda ip, h: SSet(lambda n_, t=sym.fresh("memhv", NAMESET): z3.Select(t, n_), "havoc"))})

    @reg.contract(f"{M.replace('problem', 'constraints')}:Constraint.get_variables", props=["C16"])
    def _(c):
        sp = Spec(c.ip)
        con = c.arg("self", T.obj("Constraint", exact=True))
        e = Opaque(sp.S.F("expr", sym.Ref)(sp.ref(con)), "Expression")
        c.returns(lambda cc: SSet(lambda nm: sp.occ(e, nm), "Vars"))
        c.ensures("exactly the variables that occur", lambda res: res.member(NM(c.ip)) == sp.occ(e, NM(c.ip)))

    @reg.contract(f"{EX}:get_all_variables", props=["C16", "C15"])
    def _(c):
        gv_contract(c, "expr", T.expr())

    @reg.contract(f"{EX}:_get_variables_iterative", props=["C16", "C15"],
                  bounded="worklist traversal with a seen-set keyed by id(); covered by the bounded stand-in (all tree shapes "
                          "up to the stated size) -- the invariant Vars(expr) = Done U Vars(stack) is stated in DESIGN.md")
    def _(c):
        gv_contract(c, "expr", T.expr())

    @reg.contract(f"{EX}:_estimate_tree_depth", props=["C15"],
                  trusted="returns some int and writes nothing (frame scan); only selects between twins with the same contract")
    def _(c):
        c.arg("expr")
        c.returns(T.int_())

    @reg.contract(f"{M}:_try_get_single_vector_source", props=["C16", "C15"],
                  bounded="worklist traversal; covered by the bounded stand-in; contract: a returned vector has exactly the "
                          "variables of the expression")
    def _(c):
        sp = Spec(c.ip)
        e = c.arg("expr", T.expr())
        c.returns(T.opt(T.obj("VectorVariable", exact=True)))
        def post(res):
            nm = NM(c.ip)
            if res is None:
                return None
            v = res.val.ref if isinstance(res, SOpt) else res.ref
            register_vector(sp, v, nm)
            fact = sp.occ(e, nm) == OCCV(v, nm, VLEN(v))
            return z3.Implies(z3.Not(res.isnone), fact) if isinstance(res, SOpt) else fact
        c.ensures("same variables", post)

    # ---- Problem.variables
    @reg.contract(f"{M}:{P_}variables", props=["C16", "C13"], cases={"cache": ["none", "set"], "objective": ["none", "set"]})
    def _(c):
        sp = Spec(c.ip)
        P = c.arg("self", T.obj("Problem", exact=True))
        ip = c.ip
        ip.path.assume(z3.Select(st(ip, "Problem._constraints!len", sym.I), P.ref) >= 0)
        before = PState(ip, P)
        nm = NM(ip)
        cons_arr, ncon = before.cons, before.ncon
        EXPR = sp.S.F("expr", sym.Ref)
        excon = named_exists(ip, "EXCON", [cons_arr, nm], ncon, lambda k: sp.S.OCC(EXPR(z3.Select(cons_arr, k)), nm))
        # make the OCC unfolding of each constraint expression available at the index terms
        def pw(k):
            if _once(ip, f"conocc:{cons_arr}:{k}"):
                sp.occ(Opaque(EXPR(z3.Select(cons_arr, k)), "Expression"), nm)
        seqs(ip).pointwise.append(pw)
        objocc = z3.And(z3.Not(before.obj_none), sp.occ(Opaque(before.obj, "Expression"), nm))
        VARSET = lambda i: z3.Or(objocc, excon(i))

        def valid(base):
            """the cached / returned list is what a fresh computation gives for the current model"""
            return z3.And(z3.Select(NAMES_OF(base), nm) == VARSET(ncon), DISTINCT(base), NATSORTED(base))
        cache_none = before.cache_none["_variables"]
        cache_base = z3.Select(st(ip, "Problem._variables", sym.Ref), P.ref)
        reg.varlist_valid = valid
        if c.verifying:
            c.assume(cache_none if c.case["cache"] == "none" else z3.Not(cache_none))
            c.assume(before.obj_none if c.case["objective"] == "none" else z3.Not(before.obj_none))
            c.assume(z3.Implies(z3.Not(cache_none), valid(cache_base)))        # Inv (C13)
        else:
            c.requires(z3.Implies(z3.Not(cache_none), valid(cache_base)), name="cache invariant")
            havoc_fields(ip, P, ["_variables"])
        # the list is a function of the model state (content identifier; list identity is never relied upon)
        c.returns(lambda cc: ip.schema.seq_of_base(ip, varlist_base(before), "Variable"))

        def post(res):
            if not isinstance(res, SSeq) or not res.tag:
                return z3.BoolVal(False)
            base = res.tag[2]
            now = PState(ip, P)
            if not c.verifying:
                # the name clause below is proved at an arbitrary name, hence holds at every name (universal generalisation):
                # callers get it at all the names they reason about
                assume_varlist_valid(ip, sp, P, before, base)
            return [z3.Select(NAMES_OF(base), nm) == VARSET(ncon), DISTINCT(base), NATSORTED(base),
                    z3.And(z3.Not(now.cache_none["_variables"]), z3.Select(st(ip, "Problem._variables", sym.Ref), P.ref) == base),
                    now.same_model(before)]
        c.ensures("exactly the variables mentioned / one per name / natural order / cached / model untouched", post)
        if c.verifying:
            def inv1(st_):
                a_s = st_.var("all_same")
                return [a_s.t if isinstance(a_s, SBool) else z3.BoolVal(bool(a_s)),
                        named_forall(ip, "SAMESRC", [cons_arr, nm, sp.ref(st_.var("source_vector")) if not isinstance(st_.var("source_vector"), SOpt) else st_.var("source_vector").val.ref],
                                     ncon, lambda k: sp.S.OCC(EXPR(z3.Select(cons_arr, k)), nm) ==
                                     OCCV(st_.var("source_vector").val.ref if isinstance(st_.var("source_vector"), SOpt) else sp.ref(st_.var("source_vector")), nm,
                                          VLEN(st_.var("source_vector").val.ref if isinstance(st_.var("source_vector"), SOpt) else sp.ref(st_.var("source_vector")))))(st_.i)]
            c.loop(1, inv1, havoc={"constraint_source": T.opt(T.obj("VectorVariable", exact=True))})
            def inv2(st_):
                av = st_.var("all_vars")
                return av.member(nm) == VARSET(st_.i)
            c.loop(2, inv2, havoc={"all_vars": T.custom(lambda ip_, h: SSet(lambda n_, t=sym.fresh("memhv", NAMESET): z3.Select(t, n_), "havoc"))})
    def assume_varlist_valid(ip, sp, P, s0, base):
        """C13 invariant for the variable-list cache, phrased for callers: the canonical list of the current model is
        what `variables` specifies (names = mentioned variables, one per name, natural order)."""
        EXPR = sp.S.F("expr", sym.Ref)
        ip.path.assume(z3.And(DISTINCT(base), NATSORTED(base)))

        def gen(nm):
            excon = named_exists(ip, "EXCON", [s0.cons, nm], s0.ncon, lambda k: sp.S.OCC(EXPR(z3.Select(s0.cons, k)), nm))

            def pw(k, nm=nm):
                if _once(ip, f"conocc:{s0.cons}:{nm}:{k}"):
                    sp.occ(Opaque(EXPR(z3.Select(s0.cons, k)), "Expression"), nm)
            seqs(ip).pointwise.append(pw)
            objocc = z3.And(z3.Not(s0.obj_none), sp.occ(Opaque(s0.obj, "Expression"), nm))
            return z3.Select(NAMES_OF(base), nm) == z3.Or(objocc, excon(s0.ncon))
        forall_name(ip, gen)
    reg.assume_varlist_valid = assume_varlist_valid

    def varlist_valid_for(ip, sp, P, s0):
        """The predicate `valid(base)` of the `variables` contract for model state s0 (same vocabulary, same instances): the
        list object `base` is what a fresh computation gives -- checked, like every for-all-names goal, at the path's name."""
        nm = NM(ip)
        EXPR = sp.S.F("expr", sym.Ref)
        excon = named_exists(ip, "EXCON", [s0.cons, nm], s0.ncon, lambda k: sp.S.OCC(EXPR(z3.Select(s0.cons, k)), nm))

        def pw(k):
            if _once(ip, f"conocc:{s0.cons}:{k}"):
                sp.occ(Opaque(EXPR(z3.Select(s0.cons, k)), "Expression"), nm)
        seqs(ip).pointwise.append(pw)
        objocc = z3.And(z3.Not(s0.obj_none), sp.occ(Opaque(s0.obj, "Expression"), nm))
        return lambda base: z3.And(z3.Select(NAMES_OF(base), nm) == z3.Or(objocc, excon(s0.ncon)), DISTINCT(base), NATSORTED(base))
    reg.varlist_valid_for = varlist_valid_for
    reg.NM = NM
    reg.NAMES_OF, reg.NATSORTED, reg.DISTINCT = NAMES_OF, NATSORTED, DISTINCT


# ======================================================================================= remaining Problem methods
def install_rest(reg, src):
    from .seqtheory import named_forall, named_exists, skolem, add_index
    ISLIN = sym.fn("ISLIN", sym.Ref, sym.B)      # the answer of is_linear on an (immutable) tree: a function of the tree

    reg.assumption("C13/C08: is_linear(e) is a deterministic function of the immutable tree e (named ISLIN(e)); its soundness "
                   "(ISLIN(e) => polynomial of degree <= 1 in the LP class) is the proved contract of is_linear")

    def linprob(ip, sp, s):
        EXPR = sp.S.F("expr", sym.Ref)
        alllin = named_forall(ip, "ALLLIN", [s.cons], s.ncon, lambda k: ISLIN(EXPR(z3.Select(s.cons, k))))
        return z3.And(z3.Not(s.obj_none), ISLIN(s.obj), alllin(s.ncon)), alllin

    # is_linear gets the functional clause (only used by callers that need cache exactness)
    reg.ISLIN = ISLIN

    def linear_cache_invariant(c, sp, P, s0):
        """Inv (C13) assumed at the entry of Problem.solve: a non-None linearity cache is the linearity of the current model"""
        ip = c.ip
        want, _ = linprob(ip, sp, s0)
        cnone = s0.cache_none["_is_linear_cache"]
        cval = z3.Select(st(ip, "Problem._is_linear_cache", sym.B), P.ref)
        c.assume(z3.Implies(z3.Not(cnone), cval == want))
    reg.solve_entry_invariants = [linear_cache_invariant]

    @reg.contract(f"{M}:{P_}_is_linear_problem", props=["C13", "C08", "C04", "C06"], cases={"cache": ["none", "set"], "objective": ["none", "set"]})
    def _(c):
        sp = Spec(c.ip)
        ip = c.ip
        P = c.arg("self", T.obj("Problem", exact=True))
        ip.path.assume(z3.Select(st(ip, "Problem._constraints!len", sym.I), P.ref) >= 0)
        s0 = PState(ip, P)
        want, alllin = linprob(ip, sp, s0)
        cnone = s0.cache_none["_is_linear_cache"]
        cval = z3.Select(st(ip, "Problem._is_linear_cache", sym.B), P.ref)
        if c.verifying:
            c.assume(cnone if c.case["cache"] == "none" else z3.Not(cnone))
            c.assume(s0.obj_none if c.case["objective"] == "none" else z3.Not(s0.obj_none))
            c.assume(z3.Implies(z3.Not(cnone), cval == want))         # Inv (C13)
            from .specfns import NODIV0
            EXPR = sp.S.F("expr", sym.Ref)
            c.assume(z3.Implies(z3.Not(s0.obj_none), sp.nodiv0(Opaque(s0.obj, "Expression"))))
            nd_all = named_forall(ip, "CONND0", [s0.cons], s0.ncon, lambda k: NODIV0(EXPR(z3.Select(s0.cons, k))))
            c.assume(nd_all(s0.ncon))
            c.loop(1, lambda st_: alllin(st_.i))
        else:
            c.requires(z3.Implies(z3.Not(cnone), cval == want), name="cache invariant")
            havoc_fields(ip, P, ["_is_linear_cache"])
        c.returns(T.bool_())

        def post(res):
            now = PState(ip, P)
            t = res.t if isinstance(res, SBool) else z3.BoolVal(bool(res))
            nv = z3.Select(st(ip, "Problem._is_linear_cache", sym.B), P.ref)
            if not c.verifying:
                ip.path.ghost["is_linear_problem_answer"] = t          # read by the dispatcher's contract (dispatch_c)
            return [t == want, z3.And(z3.Not(now.cache_none["_is_linear_cache"]), nv == want), now.same_model(s0)]
        c.ensures("answer = linearity of the current model / cached / model untouched", post)

    @reg.contract(f"{M}:{P_}n_variables", props=["C16"])
    def _(c):
        ip = c.ip
        P = c.arg("self", T.obj("Problem", exact=True))
        if not c.verifying:
            raise Unsupported("n_variables is only verified, not applied")
        ip.path.assume(z3.Select(st(ip, "Problem._constraints!len", sym.I), P.ref) >= 0)
        s0 = PState(ip, P)
        sp = Spec(ip)
        cache_base = z3.Select(st(ip, "Problem._variables", sym.Ref), P.ref)
        vb0 = varlist_base(s0)
        c.assume(z3.Implies(z3.Not(s0.cache_none["_variables"]), cache_base == vb0))
        reg.assume_varlist_valid(ip, sp, P, s0, vb0)
        c.returns(T.int_())
        c.ensures("length of the variable list", lambda res: num(res) == sym.fn("LEN_any", sym.Ref, sym.I)(vb0))

    def num(v):
        from pyvc.values import num_term
        return num_term(v)

    @reg.contract(f"{M}:{P_}get_bounds", props=["C16"])
    def _(c):
        ip = c.ip
        P = c.arg("self", T.obj("Problem", exact=True))
        if not c.verifying:
            raise Unsupported("get_bounds is only verified, not applied")
        ip.path.assume(z3.Select(st(ip, "Problem._constraints!len", sym.I), P.ref) >= 0)
        s0 = PState(ip, P)
        sp = Spec(ip)
        cache_base = z3.Select(st(ip, "Problem._variables", sym.Ref), P.ref)
        vb0 = varlist_base(s0)
        c.assume(z3.Implies(z3.Not(s0.cache_none["_variables"]), cache_base == vb0))
        reg.assume_varlist_valid(ip, sp, P, s0, vb0)
        n = sym.fn("LEN_any", sym.Ref, sym.I)(vb0)
        c.returns(T.none())

        def post(res):
            S_ = ip.models.as_seq(res)
            sk = skolem(ip, "sk_bound", n)
            ip.reg.index_used(ip, sk)
            V = ip.schema.seq_of_base(ip, vb0, "Variable")
            pair = S_.get(sk)
            v = V.get(sk)
            lb, ub = pair
            wl, wu = ip.getattr(v, "lb"), ip.getattr(v, "ub")
            same = lambda a, b: z3.And(a.isnone == b.isnone, z3.Implies(z3.Not(a.isnone), real_term(a.val) == real_term(b.val)))
            return [ip.models.len_term(S_.n) == n, z3.Implies(z3.And(sk >= 0, sk < n), z3.And(same(lb, wl), same(ub, wu)))]
        c.ensures("bounds of the k-th variable at position k", post)

    METHODS_ALL = ["auto", "linprog", "highs", "highs-ds", "highs-ipm", "SLSQP", "trust-constr", "L-BFGS-B", "BFGS", "Nelder-Mead"]

    @reg.contract(f"{M}:{P_}_auto_select_method", props=["C09", "C08"])
    def _(c):
        ip = c.ip
        sp = Spec(ip)
        P = c.arg("self", T.obj("Problem", exact=True))
        ip.path.assume(z3.Select(st(ip, "Problem._constraints!len", sym.I), P.ref) >= 0)
        s0 = PState(ip, P)
        if c.verifying:
            from .specfns import NODIV0
            EXPR = sp.S.F("expr", sym.Ref)
            c.assume(z3.Implies(z3.Not(s0.obj_none), sp.nodiv0(Opaque(s0.obj, "Expression"))))
            nd_all = named_forall(ip, "CONND0", [s0.cons], s0.ncon, lambda k: NODIV0(EXPR(z3.Select(s0.cons, k))))
            c.assume(nd_all(s0.ncon))
            c.loop(1, lambda st_: [])
        c.returns(T.name())

        def post(res):
            t = ip.models.name_term(res)
            if not c.verifying:
                ip.path.ghost["auto_selected_method"] = res
            return [z3.Or(t == sym.lit("L-BFGS-B"), t == sym.lit("trust-constr"), t == sym.lit("SLSQP")),
                    z3.Implies(t == sym.lit("L-BFGS-B"), s0.ncon == 0),      # never a bounds-only method with constraints
                    PState(ip, P).same_model(s0)]
        c.ensures("a constrained-capable method whenever there are constraints", post)
