"""Bounded stand-ins (DESIGN.md section 7): native checks of the real code, labelled bounded, never counted as proved."""
from __future__ import annotations

import json
import os
import re

from .replay import native, sanitize, ROOT


def run_bounded(eng, prop: str, tier: str, repo: str, seed: int, known: list[dict]) -> list[dict]:
    out = []
    specs = getattr(eng.reg, "bounded_checks", {}).get(prop, [])
    for spec in specs:
        payload = {"mode": "bounded", "name": spec["name"], "tier": tier, "seed": seed, "args": spec.get("args", {})}
        res = native(spec["script"], payload, repo, timeout=spec.get("timeout", 900))
        entry = {"name": spec["name"], "bound": spec.get("bound", ""), "why_bounded": spec.get("why", "")}
        if "error" in res:
            entry["crash"] = res["error"][-800:]
            out.append(entry)
            continue
        entry.update({k: res.get(k) for k in ("cases", "distinct", "exhaustive", "seconds") if k in res})
        fails = []
        for f in res.get("failures", []):
            kid = None
            for k in known:
                pats = (k.get("bounded") or {}).get(spec["name"], [])
                if any(re.fullmatch(p, f.get("signature", "")) for p in pats):
                    kid = k
                    break
            oid = f"bounded:{spec['name']} / {f.get('signature')}"
            if kid is not None:
                fails.append({"oid": oid, "known": kid["id"], "what": kid["what_fails"]})
            else:
                os.makedirs(os.path.join(ROOT, "replays", prop), exist_ok=True)
                rpath = os.path.join("replays", prop, sanitize(oid) + ".json")
                job = dict(f.get("job") or {})
                with open(os.path.join(ROOT, rpath), "w") as fh:
                    json.dump({"property": prop, "obligation": oid, "bounded_check": spec["name"], "native_job": job,
                               "script": spec["script"], "args": spec.get("args", {}), "detail": f, "reproduced": True,
                               "how_to_replay": f"./check {prop} --replay <this file>  (re-runs native/{spec['script']} on the "
                                                "current tree and looks for this signature)"}, fh, indent=1, default=str)
                fails.append({"oid": oid, "known": None, "what": f.get("what", ""), "replay": rpath})
        entry["failures"] = fails
        out.append(entry)
    return out
