"""Contracts for the derivative compilers: compute_jacobian, compile_jacobian, compile_gradient, compile_hessian,
compute_hessian, jacobian_row implementations, _sanitize_derivatives (C03, C17, C19)."""
from __future__ import annotations

import z3

from pyvc import sym
from pyvc.contracts import T
from pyvc.values import Obj, Opaque, PList, SArr, SBool, SInt, SOpt, SReal, SSeq, SpecFn, Unsupported, real_term

from .specfns import Spec
from .compiler_c import (IDXS, NV, DOMOF, names_of_varlist, index_map_of_varlist, point_for, compile_cases)

AD = "optyx.core.autodiff"
CP = "optyx.core.compiler"
FN = sym.fn("F_name", sym.Ref, sym.Name)
D2V = sym.fn("D2V", sym.Ref, sym.Name, sym.Name, sym.EnvSort, sym.PVSort, sym.R)     # true second partial derivative
REG2 = sym.fn("REG2", sym.Ref, sym.Name, sym.Name, sym.EnvSort, sym.PVSort, sym.B)   # regular for both differentiations


def install(reg, src):
    from .analysis_c import setup_node
    from .seqtheory import skolem, add_index
    cases = compile_cases(src)

    def varlist(c, name="variables"):
        vs = c.arg(name, T.seq(T.obj("Variable", exact=True)))
        if not isinstance(vs, SSeq) or not vs.tag:
            raise Unsupported("derivative compiler called with an untracked variable list")
        return vs

    def env_of(ip, x, IDX):
        if x.envlink is None:
            x.envlink = (IDX, sym.fresh("ENV_x", sym.EnvSort), ip.path)
        return x.envlink[1]

    # ---- compile_hessian (C17): H(x)[i][j] = d2 den / dV_i dV_j at doubly regular points; symmetric by construction
    @reg.contract(f"{AD}:compile_hessian", props=["C17", "C09", "C12"],
                  bounded="diagonal shortcuts and the upper-triangle mirroring loop are not yet under proof; the symbolic entries "
                          "come from compute_hessian = gradient(gradient(e, V_i), V_j), both steps proved (C02); bounded stand-in")
    def _(c):
        sp = Spec(c.ip)
        ip = c.ip
        e = c.arg("expr", T.expr())
        vs = varlist(c)
        NS = names_of_varlist(ip, vs)
        m = index_map_of_varlist(ip, vs)
        IDX = m.idx
        n = ip.models.len_term(vs.n)

        def call(ip2, x):
            sp2 = Spec(ip2)
            E = env_of(ip2, x, IDX)
            r = sp2.ref(e)

            def at(i, j):
                return SReal(D2V(r, FN(vs.get(i).ref), FN(vs.get(j).ref), E, sp2.PV), "npfloat")
            return SpecFn(None, "hessian matrix", meta={"getitem": lambda ip3, key: at(*key), "shape": (n, n), "hessian_of": e})
        c.returns(lambda cc: SpecFn(call, "compiled hessian"))

    install_c19(reg, src)


# ======================================================================================= C19
class XArr:
    """Array over the extended reals (finiteness abstraction of C19): element k has a class cls[k] in
    {0 finite, 1 NaN, 2 +Inf, 3 -Inf} and, when finite, the real value val[k]."""
    def __init__(self, cls, val, n):
        self.cls, self.val, self.n = cls, val, n


def install_c19(reg, src):
    import ast
    from .seqtheory import named_forall, skolem, add_index
    ClsArr = z3.ArraySort(sym.I, sym.I)

    def isfinite_hook(ip, v):
        if isinstance(v, XArr):
            return SpecFn(None, "isfinite-mask", meta={"xarr": v})
        raise Unsupported(f"np.isfinite of {type(v).__name__}")
    reg.isfinite_hook = isfinite_hook

    def np_all(ip, v):
        if isinstance(v, SpecFn) and v.meta.get("xarr") is not None:
            xa = v.meta["xarr"]
            allf = named_forall(ip, "ALLFINITE", [xa.cls], xa.n, lambda k: z3.Select(xa.cls, k) == 0)
            return SBool(allf(xa.n))
        raise Unsupported("np.all of an untracked value")

    def nan_to_num(ip, v, kw):
        if not isinstance(v, XArr):
            raise Unsupported("np.nan_to_num of an untracked value")
        nanv = real_term(kw.get("nan", 0.0))
        pinf = real_term(kw["posinf"]) if "posinf" in kw else None
        ninf = real_term(kw["neginf"]) if "neginf" in kw else None
        if pinf is None or ninf is None:
            raise Unsupported("np.nan_to_num without posinf/neginf (defaults are the largest finite floats)")
        cls = sym.fresh("san_cls", ClsArr)
        val = sym.fresh("san_val", sym.RealArr)
        out = XArr(cls, val, v.n)
        from .seqtheory import seqs, _once

        def pw(k):
            if _once(ip, f"nan2num:{cls}:{k}"):
                c0 = z3.Select(v.cls, k)
                ip.path.assume(z3.Select(cls, k) == 0)
                ip.path.assume(z3.Select(val, k) == z3.If(c0 == 0, z3.Select(v.val, k), z3.If(c0 == 1, nanv, z3.If(c0 == 2, pinf, ninf))))
        seqs(ip).pointwise.append(pw)
        return out
    # ---- reductions over the extended reals (IEEE semantics of NumPy: NaN propagates through max/min/sum; +Inf + -Inf = NaN)
    from .seqtheory import named_exists

    class XScalar:
        """extended-real scalar: class in {0 finite, 1 NaN, 2 +Inf, 3 -Inf}"""
        def __init__(self, cls):
            self.cls = cls

    def any_cls(ip, xa, k):
        return named_exists(ip, f"ANYCLS{k}", [xa.cls], xa.n, lambda j: z3.Select(xa.cls, j) == k)(xa.n)

    def x_max(ip, a, kw, sign=+1):
        xa = a[0]
        if not isinstance(xa, XArr):
            raise Unsupported("np.max/np.min of an untracked value")
        if ip.path.branch(xa.n <= 0, "empty array"):
            ip.raise_exc("ValueError", "zero-size array to reduction operation")
        nan, pinf, ninf, fin = any_cls(ip, xa, 1), any_cls(ip, xa, 2), any_cls(ip, xa, 3), any_cls(ip, xa, 0)
        top, bot = (pinf, ninf) if sign > 0 else (ninf, pinf)
        topc, botc = (2, 3) if sign > 0 else (3, 2)
        cls = z3.If(nan, 1, z3.If(top, topc, z3.If(fin, 0, botc)))
        return XScalar(cls)

    def x_sum(ip, a, kw):
        xa = a[0]
        nan, pinf, ninf = any_cls(ip, xa, 1), any_cls(ip, xa, 2), any_cls(ip, xa, 3)
        return XScalar(z3.If(z3.Or(nan, z3.And(pinf, ninf)), 1, z3.If(pinf, 2, z3.If(ninf, 3, 0))))

    def x_size(ip, a, kw):
        if isinstance(a[0], XArr):
            return SInt(a[0].n)
        raise Unsupported("np.size of an untracked value")

    def x_any(ip, a, kw):
        v = a[0]
        if isinstance(v, SpecFn) and v.meta.get("xmask") is not None:
            xa, pred = v.meta["xmask"]
            return SBool(named_exists(ip, "ANYMASK_" + v.meta["maskname"], [xa.cls], xa.n, lambda j: pred(z3.Select(xa.cls, j)))(xa.n))
        raise Unsupported("np.any of an untracked value")

    def x_mask(name, pred):
        def f(ip, a, kw):
            v = a[0]
            if isinstance(v, XArr):
                return SpecFn(None, name + "-mask", meta={"xmask": (v, pred), "maskname": name})
            if isinstance(v, XScalar):
                return SBool(pred(v.cls))
            raise Unsupported(f"np.{name} of an untracked value")
        return f
    def x_clip(ip, a, kw):
        """np.clip(x, lo, hi) with finite scalar bounds over the extended reals: NaN stays NaN, +Inf -> hi, -Inf -> lo,
        finite entries are clamped into [lo, hi]"""
        v = a[0]
        lo = a[1] if len(a) > 1 else kw.get("a_min")
        hi = a[2] if len(a) > 2 else kw.get("a_max")
        if not isinstance(v, XArr) or lo is None or hi is None or isinstance(lo, (XArr, SArr, SSeq)) or isinstance(hi, (XArr, SArr, SSeq)):
            raise Unsupported("np.clip outside the extended-real model")
        lo_, hi_ = real_term(lo), real_term(hi)
        cls = sym.fresh("clip_cls", ClsArr)
        val = sym.fresh("clip_val", sym.RealArr)
        from .seqtheory import seqs, _once

        def pw(k):
            if _once(ip, f"xclip:{cls}:{k}"):
                c0 = z3.Select(v.cls, k)
                x0 = z3.Select(v.val, k)
                ip.path.assume(z3.Select(cls, k) == z3.If(c0 == 1, 1, 0))
                ip.path.assume(z3.Select(val, k) == z3.If(c0 == 0, sym.zmin(sym.zmax(x0, lo_), hi_), z3.If(c0 == 2, hi_, z3.If(c0 == 3, lo_, x0))))
        seqs(ip).pointwise.append(pw)
        return XArr(cls, val, v.n)

    def x_where(ip, a, kw):
        """np.where(mask(x), scalar, y): entry k is the scalar where the mask holds, y[k] elsewhere"""
        if len(a) != 3 or kw:
            raise Unsupported("np.where form outside the extended-real model")
        m, x, y = a
        if not (isinstance(m, SpecFn) and m.meta.get("xmask") is not None and isinstance(y, XArr)) or isinstance(x, (XArr, SArr, SSeq)):
            raise Unsupported("np.where form outside the extended-real model")
        xa, pred = m.meta["xmask"]
        xs = real_term(x)
        cls = sym.fresh("where_cls", ClsArr)
        val = sym.fresh("where_val", sym.RealArr)
        from .seqtheory import seqs, _once

        def pw(k):
            if _once(ip, f"xwhere:{cls}:{k}"):
                hit = pred(z3.Select(xa.cls, k))
                ip.path.assume(z3.Select(cls, k) == z3.If(hit, 0, z3.Select(y.cls, k)))
                ip.path.assume(z3.Select(val, k) == z3.If(hit, xs, z3.Select(y.val, k)))
        seqs(ip).pointwise.append(pw)
        return XArr(cls, val, y.n)

    reg.xarr_hooks = {"clip": x_clip, "where": x_where, "max": lambda ip, a, kw: x_max(ip, a, kw, +1), "min": lambda ip, a, kw: x_max(ip, a, kw, -1), "sum": x_sum,
                      "size": x_size, "any": x_any, "isnan": x_mask("isnan", lambda c_: c_ == 1),
                      "isinf": x_mask("isinf", lambda c_: z3.Or(c_ == 2, c_ == 3))}
    _old_isfinite = isfinite_hook

    def isfinite_hook2(ip, v):
        if isinstance(v, XScalar):
            return SBool(v.cls == 0)
        return _old_isfinite(ip, v)
    reg.isfinite_hook = isfinite_hook2
    from pyvc.spec import Schema
    Schema.np_all = lambda self, ip, v: np_all(ip, v)
    Schema.nan_to_num = lambda self, ip, v, kw: nan_to_num(ip, v, kw)

    @reg.contract(f"{CP}:_sanitize_derivatives", props=["C19"])
    def _(c):
        ip = c.ip
        n = sym.fresh("n", sym.I)
        ip.path.assume(n >= 0)
        a = c.arg("arr", T.custom(lambda ip_, h: XArr(sym.fresh("in_cls", ClsArr), sym.fresh("in_val", sym.RealArr), n)))
        if not c.verifying:
            # applied inside the real-arithmetic model (A1): every entry of a real array is finite, and on an all-finite array
            # the sanitiser returns its argument (the 'finite entries unchanged' clause proved below, for every entry)
            if isinstance(a, (SArr, SSeq)):
                c.returns(lambda cc: a)
                return
            raise Unsupported("_sanitize_derivatives applied to an untracked value")
        sk = skolem(ip, "sk_entry", n)
        ip.path.assume(z3.And(z3.Select(a.cls, sk) >= 0, z3.Select(a.cls, sk) <= 3))
        c.returns(T.none())

        def post(res):
            if not isinstance(res, XArr):
                return z3.BoolVal(False)
            inr = z3.And(sk >= 0, sk < n)
            c0 = z3.Select(a.cls, sk)
            rv = z3.Select(res.val, sk)
            return [res.n == n,
                    z3.Implies(inr, z3.Select(res.cls, sk) == 0),                                   # every entry finite
                    z3.Implies(z3.And(inr, c0 == 0), rv == z3.Select(a.val, sk)),                    # finite entries unchanged
                    z3.Implies(z3.And(inr, c0 == 1), rv == 0),                                       # NaN -> 0
                    z3.Implies(z3.And(inr, c0 == 2), rv == sym.rv(1e16)),                            # +Inf -> +1e16
                    z3.Implies(z3.And(inr, c0 == 3), rv == sym.rv(-1e16))]                           # -Inf -> -1e16
        c.ensures("finite / unchanged / NaN->0 / +-Inf->+-1e16", post)

    def sanitize_search(eng, ob, oid, seed):
        """native search for a failing array: every mix of the four entry classes, magnitudes around the clamp value"""
        import itertools
        vals = ["nan", "inf", "-inf", 0.0, -2.5, 3e15, 1e16, 2.35e17, -4e18, 1e-300]
        pool = [{"args": [[v]]} for v in vals]
        pool += [{"args": [list(p_)]} for p_ in itertools.product(vals, repeat=2)]
        pool += [{"args": [list(p_)]} for p_ in itertools.product(["nan", "inf", "-inf", 2.35e17, -1.0], repeat=3)]
        pool += [{"args": [["nan", 1.0, "inf", -4e18]], "shape": [2, 2]}, {"args": [[]]}]
        return {"mode": "search", "family": "sanitize", "fn": f"{CP}:_sanitize_derivatives", "clause": oid.split(" / ")[-1],
                "pool": pool, "seed": seed, "points": 1}
    if hasattr(reg, "native_searches"):
        reg.native_searches[f"{CP}:_sanitize_derivatives"] = sanitize_search

    # ---- every derivative closure returns either a sanitised array or a finite-preserving expression of its input
    FINITE_CALLS = {"np.sin", "np.cos", "np.sinh", "np.cosh", "np.tanh", "np.sign", "np.exp", "np.zeros", "np.ones", "np.diag",
                    "np.full", "np.array", "np.abs", "np.negative"}

    def finite_expr(e, env) -> bool:
        """Sound syntactic abstraction: True only if the value is finite for every finite input (A1: no overflow)."""
        if isinstance(e, ast.Constant):
            return isinstance(e.value, (int, float)) and e.value == e.value and abs(e.value) != float("inf")
        if isinstance(e, ast.Name):
            return env.get(e.id, False)
        if isinstance(e, ast.UnaryOp) and isinstance(e.op, (ast.USub, ast.UAdd)):
            return finite_expr(e.operand, env)
        if isinstance(e, ast.BinOp):
            if isinstance(e.op, (ast.Add, ast.Sub, ast.Mult)):
                return finite_expr(e.left, env) and finite_expr(e.right, env)
            if isinstance(e.op, ast.Pow):
                return finite_expr(e.left, env) and isinstance(e.right, ast.Constant) and isinstance(e.right.value, int) and e.right.value >= 0
            return False        # division: not finite-preserving
        if isinstance(e, ast.Subscript):
            return finite_expr(e.value, env)
        if isinstance(e, ast.Call):
            fn_ = ast.unparse(e.func)
            if fn_ == "_sanitize_derivatives":
                return True
            if env.get("callable:" + fn_):
                return True     # a derivative callable built by one of the builders whose own closures are checked here
            if fn_ in FINITE_CALLS:
                return all(finite_expr(a_, env) for a_ in e.args if not isinstance(a_, ast.Constant) or True)
            if isinstance(e.func, ast.Attribute) and e.func.attr in ("reshape", "flatten", "copy"):
                return finite_expr(e.func.value, env)
            return False
        if isinstance(e, ast.Tuple):
            return all(finite_expr(x, env) for x in e.elts)
        return False

    def closure_returns_finite(fnode, outer_finite: set[str]) -> tuple[bool, str]:
        env = {a.arg: True for a in fnode.args.args}            # inputs are finite points
        for nm in outer_finite:
            env[nm] = True
        ok = True
        why = ""
        for st_ in ast.walk(fnode):
            if isinstance(st_, ast.Assign) and len(st_.targets) == 1:
                t = st_.targets[0]
                if isinstance(t, ast.Name):
                    env[t.id] = finite_expr(st_.value, env)
                elif isinstance(t, ast.Subscript) and isinstance(t.value, ast.Name):
                    env[t.value.id] = env.get(t.value.id, False) and finite_expr(st_.value, env)
        for st_ in ast.walk(fnode):
            if isinstance(st_, ast.Return) and st_.value is not None:
                if not finite_expr(st_.value, env):
                    ok = False
                    why = ast.unparse(st_.value)[:80]
        return ok, why

    DERIV_BUILDERS = [f"{CP}:compile_gradient", f"{CP}:_compile_vectorized_power_gradient",
                      f"{CP}:_compile_vectorized_unary_gradient", f"{AD}:compile_jacobian", f"{AD}:compile_hessian",
                      f"{CP}:CompiledExpression.gradient"]
    # names bound in the enclosing builder that hold finite data (constants, precomputed arrays of constants, compiled
    # sub-callables are *not* assumed finite: their results must go through the sanitiser)
    OUTER_FINITE = {"ones", "zeros", "hess", "const_jac", "n", "m", "indices", "scale", "k", "coeff", "exp"}

    @reg.contract("lemma:finite:derivative-closures", props=["C19"])
    def _(c):
        c.returns(T.none())
        goals = []
        for key in DERIV_BUILDERS:
            fi = src.funcs.get(key)
            if fi is None:
                goals.append((f"{key} exists", False, "function not found"))
                continue
            closures = [n_ for n_ in ast.walk(fi.node) if isinstance(n_, ast.FunctionDef) and n_ is not fi.node]
            if key.endswith("CompiledExpression.gradient"):
                continue
            builders = {k_.split(":")[1].split(".")[-1] for k_ in DERIV_BUILDERS}
            fin_callables = set()
            for st_ in ast.walk(fi.node):
                if isinstance(st_, ast.Assign) and isinstance(st_.value, ast.Call) and isinstance(st_.targets[0], ast.Name) \
                        and ast.unparse(st_.value.func) in builders:
                    fin_callables.add("callable:" + st_.targets[0].id)
            for cn in closures:
                ok, why = closure_returns_finite(cn, OUTER_FINITE | fin_callables)
                goals.append((f"{key.split(':')[1]}.{cn.name}", ok, why))

        def on_exit(cc, outcome, val):
            for name, ok, why in goals:
                cc.path.oblige(cc.ip.cur_oid(f"{name} returns a sanitised or finite-preserving array"), z3.BoolVal(ok), kind="post",
                               detail=why)
        c.on_exit.append(on_exit)
