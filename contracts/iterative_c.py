"""C15 layer 2 (block equivalence): for each node kind the block of an iterative routine that computes a node's result
from its children's results is executed symbolically -- the real statements of the while-loop body, once -- with the
children's results as opaque inputs meeting the recursive twin's contract, and must produce a value meeting the same
clause.  The positional discipline of the stacks (which entries are on top when a node is revisited) is *assumed* here and
exercised by the bounded stand-in; everything a block computes is proved.
"""
from __future__ import annotations

import ast

import z3

from pyvc import sym
from pyvc.contracts import T
from pyvc.interp import Frame, _Continue, _Break, RaiseEx
from pyvc.values import (Closure, Obj, Opaque, PDict, PList, SArr, SInt, SOpt, SReal, SSeq, SpecFn, Unsupported, real_term)

from .specfns import Spec
from .analysis_c import setup_node
from .compiler_c import compile_cases, fresh_var_indices, index_term, point_for, compiled_fn

CP = "optyx.core.compiler"
AD = "optyx.core.autodiff"
AN = "optyx.analysis"


def loop_parts(src, key):
    fi = src.funcs[key]
    pro, loop = [], None
    for st in fi.node.body:
        if isinstance(st, ast.While):
            loop = st
            break
        pro.append(st)
    if loop is None:
        raise Unsupported(f"{key}: no top-level while loop")
    return fi, pro, loop


def run_block(ip, fi, prologue, loop, args: dict, overrides: dict):
    """Execute the function's prologue (imports, initialisations) and then the loop body once."""
    fr = Frame(fi.module, dict(args), None, fi)
    for st in prologue:
        if isinstance(st, ast.Expr) and isinstance(st.value, ast.Constant):
            continue
        ip.exec_stmt(st, fr)
    for k, v in overrides.items():
        fr.locals[k] = v
    outcome = "fallthrough"
    try:
        ip.exec_block(loop.body, fr)
    except _Continue:
        outcome = "continue"
    except _Break:
        outcome = "break"
    return fr, outcome


def install(reg, src):
    cases = [c for c in compile_cases(src) if not c.startswith("QuadraticForm")]      # nested sums x'Qx: bounded only

    # ------------------------------------------------------------------ _build_evaluator_iterative
    key_b = f"{CP}:_build_evaluator_iterative"
    bcases = [{"node": cse, "phase": ph} for cse in cases for ph in ((0, 1) if cse.split(":")[0].split("|")[0] in ("BinaryOp", "UnaryOp") else (0,))]

    @reg.contract("lemma:block:_build_evaluator_iterative", props=["C15", "C01", "C12"], cases={"__combos__": bcases})
    def _(c):
        ip = c.ip
        sp = Spec(ip)
        fi, pro, loop = loop_parts(src, key_b)
        case, phase = c.case["node"], c.case["phase"]
        e = setup_node(c, sp, case)
        vi = c.arg("var_indices", T.custom(lambda ip_, h: fresh_var_indices(ip_)))
        IDX = index_term(vi)
        c.assume(sp.wf(e), reg.covers(sp, e, IDX))
        kind = case.split(":")[0].split("|")[0]
        r = sp.ref(e)
        kids = []
        if kind == "BinaryOp":
            kids = [Opaque(sp.S.F("left", sym.Ref)(r), "Expression"), Opaque(sp.S.F("right", sym.Ref)(r), "Expression")]
        elif kind == "UnaryOp":
            kids = [Opaque(sp.S.F("operand", sym.Ref)(r), "Expression")]
        below = SpecFn(None, "entry below (belongs to an enclosing node)")
        child_fns = [compiled_fn(sp, k, IDX) for k in kids]
        order = list(range(len(kids)))
        if phase == 1 and kids:
            # the order in which the children's entries lie on the result stack is whatever the first-visit block of the code
            # schedules (last pushed = processed first = deepest entry): read it off a run of that block
            fr0, _o0 = run_block(ip, fi, pro, loop, {"expr": e, "var_indices": vi},
                                 {"stack": PList([(e, 0, PList())]), "result_stack": PList([below])})
            pushed = [it for it in fr0.locals["stack"].items if isinstance(it, tuple) and it[1] == 0 and isinstance(it[0], Opaque)]
            seq_ = []
            for it in reversed(pushed):
                for j_, k_ in enumerate(kids):
                    if it[0].ref.eq(k_.ref) and j_ not in seq_:
                        seq_.append(j_)
            if sorted(seq_) == list(range(len(kids))):
                order = seq_
        result_stack = PList([below] + ([child_fns[j_] for j_ in order] if phase == 1 else []))
        stack = PList([(e, phase, PList())])
        c.returns(T.none())
        c.loop_owner = key_b
        from pyvc.contracts import ListSpec
        from .seqtheory import ELEME, VLEN

        def elem_list_spec(vref):
            def spec_elem(k):
                kt = k if not isinstance(k, int) else z3.IntVal(k)
                return compiled_fn(sp, Opaque(ELEME(vref, kt), "Expression"), IDX)

            def equal(ip2, appended, k):
                x, ENV = point_for(ip2, IDX)
                sp2 = Spec(ip2)
                ek = Opaque(ELEME(vref, k), "Expression")
                ip2.path.assume(sp2.dom(ek, ENV, sp2.PV))
                out = ip2.call(appended, [x], {}, None)
                return [real_term(out) == sp2.den(ek, ENV, sp2.PV)]
            return ListSpec(spec_elem, equal, "elem_fns")
        if case == "LinearCombination|VectorExpression":
            c.loop(2, lambda st_: [], havoc={"elem_fns": elem_list_spec(sp.S.F("vector", sym.Ref)(r)), "idx": T.int_(), "val": T.real("pynum")})
        if case == "VectorExpressionSum":
            c.loop(3, lambda st_: [], havoc={"elem_fns": elem_list_spec(sp.S.F("expression", sym.Ref)(r)), "idx": T.int_(), "val": T.real("pynum")})

        def body(cc):
            fr, outcome = run_block(ip, fi, pro, loop, {"expr": e, "var_indices": vi}, {"stack": stack, "result_stack": result_stack})
            cc.block = (fr, outcome)
            return None
        c.synthetic_body = body

        def on_exit(cc, outcome, val):
            path = ip.path
            oid = ip.cur_oid
            if outcome == "raise":
                return      # reported by the driver as the `no-raise` obligation of this block
            if not hasattr(cc, "block") or outcome != "return":
                return
            fr, _o = cc.block
            st_, rs = fr.locals["stack"], fr.locals["result_stack"]
            if kind in ("BinaryOp", "UnaryOp") and phase == 0:
                want = [(e, 1)] + [(k, 0) for k in reversed(kids)]
                ok = len(st_.items) == len(want) and all(
                    isinstance(it, tuple) and it[1] == ph_ and isinstance(it[0], Opaque) and it[0].ref.eq(w.ref)
                    for it, (w, ph_) in zip(st_.items, want))
                # protocol clauses: how the two blocks of a node hand work to each other.  A refuted protocol clause means the
                # lemma is no longer aligned with the code (reported as undecided), not that the property fails: the value
                # clause of the second-visit block is set up with whatever order this block schedules.
                want_set = {str(k.ref) for k in kids}
                got = [it for it in st_.items if isinstance(it, tuple)]
                ok = (len(got) == len(kids) + 1 and got[0][0] is e and got[0][1] == 1
                      and {str(it[0].ref) for it in got[1:] if isinstance(it[0], Opaque)} == want_set and all(it[1] == 0 for it in got[1:]))
                path.oblige(oid("first visit: node re-pushed with phase 1 below its children, each child scheduled once"),
                            z3.BoolVal(bool(ok)), kind="post", protocol=True)
                path.oblige(oid("first visit leaves the result stack untouched"),
                            z3.BoolVal(len(rs.items) == 1 and rs.items[0] is below), kind="post", protocol=True)
                return
            path.oblige(oid("work stack consumed"), z3.BoolVal(len(st_.items) == 0), kind="post", protocol=True)
            okshape = len(rs.items) == 2 and rs.items[0] is below
            path.oblige(oid("exactly the children's entries are replaced by one entry for the node"), z3.BoolVal(okshape), kind="post",
                        protocol=True)
            if not okshape:
                return
            f = rs.items[1]
            ip.path.havoc_store("_value", sym.R)          # call-time heap (C12)
            x, ENV = point_for(ip, IDX)
            sp2 = Spec(ip)
            ip.path.assume(sp2.dom(e, ENV, sp2.PV))
            out = ip.call(f, [x], {}, None)
            ip.reg.saturate(ip)
            path.oblige(oid("the entry pushed for the node computes its denotation (at call-time parameter values)"),
                        real_term(out) == sp2.den(e, ENV, sp2.PV), kind="post")
        c.on_exit.append(on_exit)
    install_grad_blocks(reg, src)
    install_degree_blocks(reg, src)
    install_vars_blocks(reg, src)
    reg.bounded_checks.setdefault("C15", []).append({
        "name": "twins", "script": "bounded_twins.py", "timeout": 1500,
        "bound": "focus trees of depth <= 3 (every node kind x 7 contexts quick / 11 contexts + 400 seeded random trees thorough); "
                 "accumulations of n in {399,401,450} (quick) / {100,399,400,401,450,700,900} (thorough) terms per operator",
        "why": "the block lemmas prove each loop-body block of the stack machines; that the stack discipline composes the blocks "
               "into a post-order traversal is an informal induction, so the end-to-end agreement of the twins is only sampled"})


def install_grad_blocks(reg, src):
    """Blocks of _gradient_iterative: results are kept in a dict keyed by id(); every stored entry must meet G1/G2."""
    from .autodiff_c import Spec as SpecX, scalar_node_cases, node_type
    key = f"{AD}:_gradient_iterative"
    ncases = scalar_node_cases(src)
    combos = []
    for cse in ncases:
        k0 = cse.split(":")[0]
        if k0 in ("BinaryOp", "UnaryOp"):
            combos += [{"node": cse, "phase": 0, "children": "absent"}, {"node": cse, "phase": 0, "children": "present"},
                       {"node": cse, "phase": 1, "children": "present"}]
        else:
            combos.append({"node": cse, "phase": 0, "children": "absent"})

    @reg.contract("lemma:block:_gradient_iterative", props=["C15", "C02"], cases={"__combos__": combos})
    def _(c):
        ip = c.ip
        sp = SpecX(ip)
        fi, pro, loop = loop_parts(src, key)
        case, phase, ch = c.case["node"], c.case["phase"], c.case["children"]
        e = c.arg("expr", node_type(case))
        wrt = c.arg("wrt", T.obj("Variable"))
        w = sp.name(wrt)
        c.assume(sp.wf(e))
        kind = case.split(":")[0]
        r = sp.ref(e)
        kids = []
        if kind == "BinaryOp":
            kids = [Opaque(sp.S.F("left", sym.Ref)(r), "Expression"), Opaque(sp.S.F("right", sym.Ref)(r), "Expression")]
        elif kind == "UnaryOp":
            kids = [Opaque(sp.S.F("operand", sym.Ref)(r), "Expression")]
        results = PDict()
        if ch == "present":
            for k in kids:
                d = T.expr().fresh(ip, "d_child")
                # stored entries meet the gradient contract for their node (invariant I1 of the traversal)
                c.assume(z3.Implies(sp.reg(k, w), sp.den(d) == sp.dv(k, w)), z3.Implies(z3.Not(sp.occ(k, w)), sp.is_zero(d)), sp.wf(d))
                results.items[ip.models.b_id(ip, [k], {}, None)] = d
        stack = PList([(e, phase, PList())])
        c.returns(T.none())
        c.loop_owner = key

        def body(cc):
            # the prologue contains an early `return` for registered rules of the root: run only the initialisations
            fr, outcome = run_block(ip, fi, [s_ for s_ in pro if not isinstance(s_, ast.If)], loop, {"expr": e, "wrt": wrt},
                                    {"stack": stack, "results": results})
            cc.block = (fr, outcome)
            return None
        c.synthetic_body = body

        def on_exit(cc, outcome, val):
            if not hasattr(cc, "block") or outcome != "return":
                return
            path, oid = ip.path, ip.cur_oid
            fr, _o = cc.block
            st_, rs = fr.locals["stack"], fr.locals["results"]
            mykey = ip.models.b_id(ip, [e], {}, None)
            if kids and ch == "absent":
                want = [(e, 1)] + [(k, 0) for k in reversed(kids)]
                ok = len(st_.items) == len(want) and all(
                    isinstance(it, tuple) and it[1] == ph_ and isinstance(it[0], Opaque) and it[0].ref.eq(w_.ref)
                    for it, (w_, ph_) in zip(st_.items, want))
                path.oblige(oid("first visit: node re-pushed with phase 1, then its children"), z3.BoolVal(bool(ok)), kind="post", protocol=True)
                path.oblige(oid("first visit stores nothing"), z3.BoolVal(mykey not in rs.items), kind="post", protocol=True)
                return
            path.oblige(oid("work stack consumed"), z3.BoolVal(len(st_.items) == 0), kind="post", protocol=True)
            if mykey not in rs.items:
                path.oblige(oid("a gradient is stored for the node"), False, kind="post")
                return
            res = rs.items[mykey]
            goals = [z3.Implies(sp.reg(e, w), sp.den(res) == sp.dv(e, w)), z3.Implies(z3.Not(sp.occ(e, w)), sp.is_zero(res)), sp.wf(res)]
            ip.reg.saturate(ip)
            for nm, g in zip(("G1", "G2", "wf"), goals):
                path.oblige(oid(f"stored gradient meets {nm}"), g, kind="post", clause=nm)
        c.on_exit.append(on_exit)


def install_degree_blocks(reg, src):
    from .analysis_c import degree_cases, degree_post, syn_post
    key = f"{AN}:_compute_degree_iterative"
    ncases = [c for c in degree_cases(src)]
    combos = []
    for cse in ncases:
        k0 = cse.split(":")[0].split("|")[0]
        if k0 == "BinaryOp":
            combos += [{"node": cse, "phase": ph} for ph in (0, 1, 2)]
        elif cse == "UnaryOp:neg":
            combos += [{"node": cse, "phase": ph} for ph in (0, 1)]
        else:
            combos.append({"node": cse, "phase": 0})

    @reg.contract("lemma:block:_compute_degree_iterative", props=["C15", "C04", "C06", "C08"], cases={"__combos__": combos})
    def _(c):
        ip = c.ip
        sp = Spec(ip)
        fi, pro, loop = loop_parts(src, key)
        case, phase = c.case["node"], c.case["phase"]
        e = setup_node(c, sp, case)
        c.assume(sp.nodiv0(e))
        kind = case.split(":")[0].split("|")[0]
        r = sp.ref(e)
        left = Opaque(sp.S.F("left", sym.Ref)(r), "Expression")
        right = Opaque(sp.S.F("right", sym.Ref)(r), "Expression")
        operand = Opaque(sp.S.F("operand", sym.Ref)(r), "Expression")

        def child_deg(k, hint):
            d = T.opt(T.int_()).fresh(ip, hint)
            for g in (degree_post(sp, k)(d), syn_post(sp, k)(d)):
                c.assume(g)
            return d
        below = SpecFn(None, "entry below")
        rs_items = [below]
        left_deg = None
        if kind == "BinaryOp" and phase == 1:
            rs_items.append(child_deg(left, "deg_left"))
        if kind == "BinaryOp" and phase == 2:
            left_deg = child_deg(left, "deg_left")
            c.assume(z3.Not(left_deg.isnone))        # phase 2 is only scheduled with a known left degree (read from the frame)
            rs_items.append(child_deg(right, "deg_right"))
        if kind == "UnaryOp" and phase == 1:
            rs_items.append(child_deg(operand, "deg_operand"))
        result_stack = PList(rs_items)
        stack = PList([(e, phase, left_deg, None)])
        c.returns(T.none())
        c.loop_owner = key

        def body(cc):
            fr, outcome = run_block(ip, fi, pro, loop, {"expr": e}, {"stack": stack, "result_stack": result_stack})
            cc.block = (fr, outcome)
            return None
        c.synthetic_body = body

        def on_exit(cc, outcome, val):
            if not hasattr(cc, "block") or outcome != "return":
                return
            path, oid = ip.path, ip.cur_oid
            fr, _o = cc.block
            st_, rs = fr.locals["stack"], fr.locals["result_stack"]
            pushed = [it for it in st_.items]
            if pushed:
                # scheduling step: nothing is claimed about the node yet; the node must come back with a later phase and the
                # child scheduled must be a strict sub-term
                ok = (len(rs.items) == 1 and all(isinstance(it, tuple) for it in pushed)
                      and pushed[0][0] is e and isinstance(pushed[0][1], int) and pushed[0][1] > phase
                      and all(isinstance(it[0], Opaque) and any(it[0].ref.eq(k.ref) for k in (left, right, operand)) and it[1] == 0 for it in pushed[1:]))
                path.oblige(oid("scheduling: node re-pushed with a later phase, one child pushed for a first visit, results untouched"),
                            z3.BoolVal(bool(ok)), kind="post", protocol=True)
                if kind == "BinaryOp" and phase == 1 and len(pushed) == 2:
                    ld = pushed[0][2]
                    path.oblige(oid("phase 1 hands the left degree to phase 2 through the frame"),
                                z3.BoolVal(ld is rs_items[1] or (isinstance(ld, SInt) and isinstance(rs_items[1], SOpt) and ld.t.eq(rs_items[1].val.t))), kind="post", protocol=True)
                return
            okshape = len(rs.items) == 2 and rs.items[0] is below
            path.oblige(oid("exactly the children's entries are replaced by one entry for the node"), z3.BoolVal(okshape), kind="post",
                        protocol=True)
            if not okshape:
                return
            res = rs.items[1]
            g1, g2 = degree_post(sp, e)(res), syn_post(sp, e)(res)
            ip.reg.saturate(ip)
            path.oblige(oid("degree pushed for the node is a sound bound (poly)"), g1, kind="post", clause="poly")
            path.oblige(oid("degree pushed for the node stays inside the LP class (lp-class)"), g2, kind="post", clause="lp-class")
        c.on_exit.append(on_exit)


def install_vars_blocks(reg, src):
    """_get_variables_iterative: worklist invariant  Vars(expr) = variables U Vars(unseen stack entries).  One block:
    an unseen node is popped; afterwards  variables' U Vars(pushed)  =  variables U Vars(node)  for every name."""
    from .autodiff_c import scalar_node_cases, node_type
    from .problem_c import NM
    from pyvc.values import SSet
    EX = "optyx.core.expressions"
    key = f"{EX}:_get_variables_iterative"
    kinds = [k.split(":")[0] for k in scalar_node_cases(src)]
    kinds = list(dict.fromkeys(kinds))
    combos = [{"node": k, "seen": s} for k in kinds for s in ("no", "yes")]

    @reg.contract("lemma:block:_get_variables_iterative", props=["C15", "C16"], cases={"__combos__": combos})
    def _(c):
        ip = c.ip
        sp = Spec(ip)
        fi, pro, loop = loop_parts(src, key)
        case, seen_case = c.case["node"], c.case["seen"]
        e = c.arg("expr", T.obj(case, exact=True))
        r = sp.ref(e)
        V0 = sym.fn("VARS0", sym.Name, sym.B)
        variables = SSet(lambda nm: V0(nm), "variables so far")
        added = []
        seen = SpecFn(None, "seen", meta={"contains": lambda ip_, item: seen_case == "yes",
                                          "methods": {"add": lambda ip_, x: added.append(x)}})
        stack = PList([e])
        c.returns(T.none())
        c.loop_owner = key

        def body(cc):
            fr, outcome = run_block(ip, fi, pro, loop, {"expr": e}, {"stack": stack, "seen": seen, "variables": variables})
            cc.block = (fr, outcome)
            return None
        c.synthetic_body = body

        def on_exit(cc, outcome, val):
            if not hasattr(cc, "block") or outcome != "return":
                return
            path, oid = ip.path, ip.cur_oid
            fr, _o = cc.block
            st_, vs = fr.locals["stack"], fr.locals["variables"]
            nm = NM(ip)
            if seen_case == "yes":
                path.oblige(oid("a node already seen changes nothing"),
                            z3.And(z3.BoolVal(len(st_.items) == 0 and vs is variables), vs.member(nm) == V0(nm)), kind="post")
                return
            mykey = ip.models.b_id(ip, [e], {}, None)
            path.oblige(oid("the node is marked seen"), z3.BoolVal(len(added) == 1 and added[0] == mykey), kind="post", protocol=True)
            ok = all(isinstance(it, Opaque) for it in st_.items)
            path.oblige(oid("only sub-expressions are scheduled"), z3.BoolVal(ok), kind="post", protocol=True)
            if not ok:
                return
            rhs = z3.Or(V0(nm), sp.occ(e, nm))
            lhs = z3.Or(vs.member(nm), *[sp.occ(it, nm) for it in st_.items])
            ip.reg.saturate(ip)
            path.oblige(oid("variables U Vars(scheduled) = variables_before U Vars(node), for every name"), lhs == rhs, kind="post")
        c.on_exit.append(on_exit)
