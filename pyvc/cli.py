"""./check <property> --tier quick|thorough   (see DESIGN.md section 10)

exit 0  property held on everything explored (KNOWN-FINDING lines allowed)
exit 1  unlisted violation(s): one `VIOLATION property=<id> replay=<path>` line each
exit 2  undecided (solver unknown on both solvers / function out of reach / contract matches no function)
exit 3  checker crash or solver disagreement
"""
from __future__ import annotations

import argparse
import json
import os
import subprocess
import sys
import time
import traceback
from collections import Counter, defaultdict

ROOT = os.path.dirname(os.path.dirname(os.path.abspath(__file__)))


def main(argv=None) -> int:
    ap = argparse.ArgumentParser()
    ap.add_argument("prop")
    ap.add_argument("--tier", default=os.environ.get("VERIF_TIER", "quick"))
    ap.add_argument("--repo", default=os.environ.get("VERIF_REPO", "/repo"))
    ap.add_argument("--replay", default=None)
    ap.add_argument("--only", default=None, help="substring filter on function keys (development)")
    ap.add_argument("--no-bounded", action="store_true")
    ap.add_argument("--write-ledger", action="store_true")
    args = ap.parse_args(argv)
    seed = int(os.environ.get("VERIF_SEED", "0") or 0)
    if args.tier not in ("quick", "thorough"):
        args.tier = "quick"
    try:
        if args.replay:
            from .replay import replay_file
            return replay_file(args.prop, args.replay, args.repo)
        return run_property(args.prop, args.tier, args.repo, seed, args)
    except SystemExit:
        raise
    except Exception:
        traceback.print_exc()
        print(f"CRASH property={args.prop}")
        return 3


def load_known(prop: str):
    path = os.path.join(ROOT, "known_findings.json")
    if not os.path.exists(path):
        return []
    data = json.load(open(path))
    # a listed finding is matched by obligation id + case signature, whatever property the obligation is reported under
    return list(data.get("findings", []))


def run_property(prop: str, tier: str, repo: str, seed: int, args) -> int:
    from .engine import Engine, verify_parallel
    from .contracts import verify_function
    from . import replay as replay_mod

    t0 = time.time()
    eng = Engine(repo)
    keys = [k for k, ct in eng.reg.contracts.items() if (prop in ct.props or prop in ct.extra_props) and not k.startswith(("virtual:", "ctor:"))]
    if args.only:
        keys = [k for k in keys if args.only in k]
    timeout_ms = 10000 if tier == "quick" else 20000
    results, skipped = verify_parallel(eng, keys, tier, timeout_ms)
    if os.environ.get("VERIF_SLOWLOG"):
        for r_ in sorted(results, key=lambda r_: -r_.get("seconds", 0))[:8]:
            print(f"SLOW {r_.get('seconds', 0):8.1f}s {r_['key']} / {r_['case']}", file=sys.stderr)
    undecided: list[str] = []
    for k, why in skipped.items():
        if why == "missing":
            undecided.append(f"contract names {k}, which does not exist in the current source")
    by_oid: dict[str, list] = defaultdict(list)
    for r in results:
        for o in r["obligations"]:
            pr = o["meta"].get("props")
            if pr and prop not in pr:
                continue        # clause belongs to other properties of the same function
            if prop not in eng.reg.contracts[r["key"]].props and not (pr and prop in pr):
                continue        # the function is run for this property only because of its clauses tagged with it
            by_oid[o["oid"]].append((r, o))
    status: dict[str, str] = {}
    for oid, lst in by_oid.items():
        vs = [o["verdict"] for _, o in lst]
        status[oid] = ("disagree" if "disagree" in vs else "refuted" if "refuted" in vs else "unknown" if "unknown" in vs else "proved")
    known = load_known(prop)
    violations: list[dict] = []
    known_hits: list[dict] = []
    exit_code = 0
    rdir = os.path.join(ROOT, "replays", prop)
    os.makedirs(rdir, exist_ok=True)
    for old in os.listdir(rdir):
        if old.endswith(".json"):
            os.unlink(os.path.join(rdir, old))
    rerun_cache: dict = {}

    def instances_of(oid):
        """Rebuild the refuted obligation's terms in this process (needed for the counter-model)."""
        out = []
        for r, o in by_oid[oid]:
            if o["verdict"] != "refuted":
                continue
            ck = (r["key"], r["case"])
            if ck not in rerun_cache:
                rep = verify_function(eng.src, eng.reg, eng.schema_factory, eng.models, eng.reg.contracts[r["key"]],
                                      only_cases={r["case"]})
                rerun_cache[ck] = rep.obligations
            for ob in rerun_cache[ck]:
                if ob.oid == oid and ob.path_sig == o["path_sig"]:
                    out.append((ob, replay_mod.PlainVerdict(o)))
                    break
        return out
    for oid, st in sorted(status.items()):
        if st == "disagree":
            print(f"ENGINE-ERROR solvers disagree on {oid}")
            exit_code = max(exit_code, 3)
        elif st == "unknown":
            undecided.append(oid)
        elif st == "refuted" and all(o["meta"].get("protocol") for _, o in by_oid[oid] if o["verdict"] == "refuted"):
            # hand-over clause between two blocks of a traversal: its failure says the lemma no longer matches how the code
            # schedules its work, not that a result is wrong
            undecided.append(f"{oid}: the proof does not cover this code as it stands (a hand-over clause between proof blocks, or a "
                             "function / table the sidecar has no contract for); not a counterexample")
        elif st == "refuted":
            plain = [o for _, o in by_oid[oid] if o["verdict"] == "refuted"]
            kf = replay_mod.match_known_plain(known, oid, plain)
            if kf is not None:
                known_hits.append({"oid": oid, "finding": kf["id"], "what": kf["what_fails"]})
                continue
            if len(violations) >= 12:
                # enough distinct replays: the remaining refuted obligations are reported without a native search
                path = replay_mod.write_minimal(prop, oid, plain)
                violations.append({"oid": oid, "replay": path, "reproduced": False})
                continue
            inst = instances_of(oid)
            if not inst:
                path = replay_mod.write_minimal(prop, oid, plain)
                violations.append({"oid": oid, "replay": path, "reproduced": False})
                continue
            rp = replay_mod.make_replay(eng, prop, oid, inst, repo, seed)
            violations.append({"oid": oid, "replay": rp["path"], "reproduced": rp["reproduced"]})
    for r in results:
        for u in r["unsupported"]:
            undecided.append(f"{r['key']}: {u}")
        for vc in r["vacuous"]:
            undecided.append(f"{r['key']} / {vc}: no feasible path (vacuous precondition?)")
    bounded = []
    if not args.no_bounded:
        from .bounded import run_bounded
        bounded = run_bounded(eng, prop, tier, repo, seed, known)
        for b in bounded:
            for f in b.get("failures", []):
                if f.get("known"):
                    known_hits.append({"oid": f["oid"], "finding": f["known"], "what": f["what"]})
                else:
                    violations.append({"oid": f["oid"], "replay": f["replay"], "reproduced": True})
            if b.get("crash"):
                print(f"BOUNDED-CRASH {b['name']}: {b['crash']}")
                exit_code = max(exit_code, 3)
    ledger_path = os.path.join(ROOT, "ledger.json")
    ledger = json.load(open(ledger_path)) if os.path.exists(ledger_path) else {}
    if args.write_ledger:
        ledger[prop] = sorted(oid for oid, st in status.items() if st == "proved")
        json.dump(ledger, open(ledger_path, "w"), indent=0, sort_keys=True)
    # vacuity guard: a clause of a contract (post, invariant, lemma) proved before must still be generated; call-site
    # preconditions are exempt -- they come and go with the calls the code makes
    missing = [oid for oid in ledger.get(prop, []) if oid not in status and " / call " not in oid] if not args.only else []
    for oid in missing:
        undecided.append(f"obligation in the ledger was not generated on this tree: {oid}")
    if not status and not bounded:
        print(f"ENGINE-ERROR zero obligations generated for {prop}")
        exit_code = max(exit_code, 3)
    seen_known = set()
    for k in known_hits:
        if k["finding"] in seen_known:
            continue
        seen_known.add(k["finding"])
        print(f"KNOWN-FINDING: property={prop} {k['what']}")
    for v in violations:
        tail = "" if v["reproduced"] else " no-failing-input-found"
        print(f"VIOLATION property={prop} replay={v['replay']}{tail}")
    if violations:
        exit_code = max(exit_code, 1)
    for u in undecided[:40]:
        print(f"UNDECIDED property={prop} {u}")
    if undecided and exit_code == 0:
        exit_code = 2
    from .evidence import write_evidence
    write_evidence(eng, prop, tier, seed, results, skipped, status, known_hits, violations, undecided, bounded, time.time() - t0)
    n_ok = sum(1 for s in status.values() if s == "proved")
    n_inst = sum(len(r["obligations"]) for r in results)
    print(f"{prop}: {len(status)} obligations ({n_inst} path instances), {n_ok} discharged, "
          f"{len(known_hits)} known-finding instances, {len(violations)} violations, {len(undecided)} undecided, "
          f"{time.time() - t0:.1f}s")
    return exit_code


if __name__ == "__main__":
    sys.exit(main())
