"""C14: soundness of the three process-wide memo tables and of the equality / hash methods that key them.

For a memoised function F with proved contract Post_F(args, res) the obligation is
    args == args'  (Python equality exactly as the classes define it, read from the source)   ==>   Post_F(args', res)
at an arbitrary later parameter valuation: a result stored for one key is a correct answer for every equal key, whenever,
whatever passed through the cache in between (eviction only removes entries; key liveness is A4).
"""
from __future__ import annotations

import ast

import z3

from pyvc import sym
from pyvc.contracts import T
from pyvc.values import Obj, Opaque, SBool, SpecFn, Unsupported, real_term, SInt, SOpt

from .specfns import Spec
from .autodiff_c import Spec as SpecX, scalar_node_cases, node_type

EX = "optyx.core.expressions"
KEY_KINDS = ["Variable", "Parameter", "interior"]


def lru_cached_functions(src):
    return sorted(fi.key for fi in src.funcs.values() if any(d.startswith("lru_cache") for d in fi.decorators))


def install(reg, src):
    cached = lru_cached_functions(src)
    reg.lru_cached = cached
    reg.assumption("A4 (C14): functools.lru_cache returns the value stored for an *equal* key (== and hash of the argument "
                   "tuple, component-wise) and keeps keys alive; eviction only removes entries")

    # ---- the equality / hash methods themselves
    @reg.contract(f"{EX}:Variable.__eq__", props=["C14"], cases={"other": ["Variable", "Parameter", "Constant", "int"]})
    def _(c):
        sp = Spec(c.ip)
        a = c.arg("self", T.obj("Variable", exact=True))
        ok = c.choose("other", [])
        if c.verifying:
            b = c.arg("other", T.const(3) if ok == "int" else T.obj(ok, exact=True))
        else:
            b = c.arg("other")
        c.returns(T.bool_())
        if isinstance(b, (Obj, Opaque)):
            want = z3.And(sp.kind_is(b, "Variable"), sp.name(a) == sp.name(b))
        else:
            want = z3.BoolVal(False)
        c.ensures("equal iff other is a Variable with the same name",
                  lambda res: (res.t if isinstance(res, SBool) else z3.BoolVal(bool(res))) == want)

    @reg.contract("optyx.core.parameters:Parameter.__eq__", props=["C14"], cases={"other": ["Variable", "Parameter", "Constant", "int"]})
    def _(c):
        sp = Spec(c.ip)
        a = c.arg("self", T.obj("Parameter", exact=True))
        ok = c.choose("other", [])
        if c.verifying:
            b = c.arg("other", T.const(3) if ok == "int" else T.obj(ok, exact=True))
        else:
            b = c.arg("other")
        c.returns(T.bool_())
        if isinstance(b, (Obj, Opaque)):
            want = z3.And(sp.kind_is(b, "Parameter"), sp.name(a) == sp.name(b))
        else:
            want = z3.BoolVal(False)
        c.ensures("equal iff other is a Parameter with the same name",
                  lambda res: (res.t if isinstance(res, SBool) else z3.BoolVal(bool(res))) == want)

    @reg.contract(f"{EX}:Expression.__eq__", props=["C14"])
    def _(c):
        sp = Spec(c.ip)
        a = c.arg("self", T.expr())
        b = c.arg("other", T.expr())
        c.returns(T.bool_())
        c.ensures("identity", lambda res: (res.t if isinstance(res, SBool) else z3.BoolVal(bool(res))) == (sp.ref(a) == sp.ref(b)))

    def pyeq(sp, a, b):
        """Python equality of two expression objects as the class table defines it (Variable / Parameter by name, the
        rest by identity) -- the methods above are proved to implement exactly this."""
        K = sp.K
        ra, rb = sp.ref(a), sp.ref(b)
        both_var = z3.And(K.is_kind(ra, "Variable"), K.is_kind(rb, "Variable"))
        both_par = z3.And(K.is_kind(ra, "Parameter"), K.is_kind(rb, "Parameter"))
        return z3.If(K.is_kind(ra, "Variable"), z3.And(both_var, sp.name(a) == sp.name(b)),
                     z3.If(K.is_kind(ra, "Parameter"), z3.And(both_par, sp.name(a) == sp.name(b)), ra == rb))

    # dynamic dispatch of == on an expression of unknown class: by the class table (Variable / Parameter by name, everything
    # else by identity).  Classes that bring their own __eq__ are handled by the override lemma below.
    @reg.contract("virtual:Expression.__eq__", props=["C14"])
    def _(c):
        sp = Spec(c.ip)
        a = c.arg("self", T.expr())
        b = c.arg("other")
        if not isinstance(b, (Obj, Opaque)):
            c.returns(lambda cc: False)
            return
        c.returns(lambda cc: SBool(pyeq(sp, a, b)))

    def same_kind_pair(c, sp, kind):
        if kind == "interior":
            a = c.arg("expr", T.expr())
            c.assume(z3.Not(sp.K.is_any(sp.ref(a), ["Variable", "Parameter"])))
            b = c.arg("expr2", T.expr())
        else:
            a = c.arg("expr", T.obj(kind, exact=True))
            b = c.arg("expr2", T.obj(kind, exact=True))
        return a, b

    # ---- memo soundness, one lemma per memoised function (found by the decorator scan)
    if "optyx.core.autodiff:_gradient_cached" in cached:
        @reg.contract("lemma:memo:_gradient_cached", props=["C14"], cases={"key": KEY_KINDS})
        def _(c):
            sp = SpecX(c.ip)
            a, b = same_kind_pair(c, sp, c.case["key"])
            w1 = c.arg("wrt", T.obj("Variable", exact=True))
            w2 = c.arg("wrt2", T.obj("Variable", exact=True))
            res = c.arg("stored", T.expr())
            c.assume(pyeq(sp, a, b), pyeq(sp, w1, w2))
            n1, n2 = sp.name(w1), sp.name(w2)
            # the stored result met the contract for the first key (G1, G2 at an arbitrary valuation)
            c.assume(z3.Implies(sp.reg(a, n1), sp.den(res) == sp.dv(a, n1)), z3.Implies(z3.Not(sp.occ(a, n1)), sp.is_zero(res)))
            c.returns(T.none())
            c.ensures("stored gradient is a correct answer for the equal key",
                      lambda _r: [z3.Implies(sp.reg(b, n2), sp.den(res) == sp.dv(b, n2)), z3.Implies(z3.Not(sp.occ(b, n2)), sp.is_zero(res))])

    if "optyx.analysis:_compute_degree_cached" in cached:
        @reg.contract("lemma:memo:_compute_degree_cached", props=["C14"], cases={"key": KEY_KINDS})
        def _(c):
            sp = Spec(c.ip)
            a, b = same_kind_pair(c, sp, c.case["key"])
            d = c.arg("stored", T.opt(T.int_()))
            c.assume(pyeq(sp, a, b))
            ok = lambda e: z3.Implies(z3.Not(d.isnone), z3.And(d.val.t >= 0, sp.ispoly(e), sp.sdeg(e) <= d.val.t))
            c.assume(ok(a))
            c.returns(T.none())
            c.ensures("stored degree is a sound answer for the equal key", lambda _r: ok(b))

    if "optyx.core.compiler:_compile_cached" in cached:
        from .compiler_c import fresh_var_indices, index_term, point_for

        # key kind Parameter is excluded by the precondition of _compile_cached ("a Parameter root is never memoised"),
        # an obligation of every call site
        @reg.contract("lemma:memo:_compile_cached", props=["C14", "C12"], cases={"key": [k for k in KEY_KINDS if k != "Parameter"]})
        def _(c):
            sp = Spec(c.ip)
            ip = c.ip
            a, b = same_kind_pair(c, sp, c.case["key"])
            vi = c.arg("var_indices", T.custom(lambda ip_, h: fresh_var_indices(ip_)))
            IDX = index_term(vi)
            c.assume(pyeq(sp, a, b))
            # the stored callable f met the contract for the first key: f(x) = den(a) at every point and valuation
            x, ENV = point_for(ip, IDX)
            fval = sym.fresh("stored_f_of_x", sym.R)
            c.assume(fval == sp.den(a, ENV, sp.PV))
            c.returns(T.none())
            c.ensures("stored callable is a correct answer for the equal key", lambda _r: fval == sp.den(b, ENV, sp.PV))

        # ---- interior classes that define their own __eq__: the real method is executed (children compared through the
        #      class table) and must not identify two trees with different denotations -- otherwise a closure memoised for
        #      one of them is handed out for the other
        own_eq = [k for k in src.expression_kinds() if k not in ("Variable", "Parameter")
                  and "__eq__" in src.classes[k].methods]
        for K_ in own_eq:
            reg.mark_inline(src.classes[K_].methods["__eq__"].key)       # the override itself is executed, never summarised

            def mk(K_=K_):
                @reg.contract(f"lemma:memo:_compile_cached:own-eq:{K_}", props=["C14", "C12"])
                def _(c):
                    sp = Spec(c.ip)
                    ip = c.ip
                    a = c.arg("expr", T.obj(K_, exact=True))
                    b = c.arg("expr2", T.obj(K_, exact=True))
                    vi = c.arg("var_indices", T.custom(lambda ip_, h: fresh_var_indices(ip_)))
                    IDX = index_term(vi)
                    c.assume(sp.wf(a), sp.wf(b))
                    c.returns(T.none())

                    def body(cc):
                        eq = ip.call_method(a, "__eq__", [b], {}, None)
                        cc.eq_true = ip.truth(eq, f"{K_}.__eq__")
                        return None
                    c.synthetic_body = body

                    def on_exit(cc, outcome, val):
                        if outcome != "return" or not getattr(cc, "eq_true", False):
                            return
                        x, ENV = point_for(ip, IDX)
                        ip.reg.saturate(ip)
                        ip.path.oblige(ip.cur_oid(f"{K_}.__eq__ identifies only trees with the same denotation (at every point and "
                                                  "parameter valuation)"),
                                       sp.den(a, ENV, sp.PV) == sp.den(b, ENV, sp.PV), kind="post")
                    c.on_exit.append(on_exit)
            mk()
    install_scan(reg, src)


# ======================================================================================= process-wide mutable state (scan)
MUTATORS = {"append", "add", "update", "setdefault", "pop", "popitem", "clear", "extend", "insert", "remove", "discard",
            "appendleft", "move_to_end", "__setitem__", "__delitem__"}
CONTAINER_CALLS = {"dict", "list", "set", "defaultdict", "OrderedDict", "WeakValueDictionary", "WeakKeyDictionary", "deque",
                   "Counter", "collections.defaultdict", "collections.OrderedDict", "collections.deque",
                   "weakref.WeakValueDictionary", "weakref.WeakKeyDictionary"}


def key_text(fn_, e):
    """source text of a key expression; a local name is replaced by the expression it was assigned in the same function"""
    if isinstance(e, ast.Name) and not isinstance(fn_, ast.Lambda):
        for a_ in ast.walk(fn_):
            if isinstance(a_, ast.Assign) and len(a_.targets) == 1 and isinstance(a_.targets[0], ast.Name) and a_.targets[0].id == e.id:
                return ast.unparse(a_.value)
    return ast.unparse(e)


def process_wide_state(src):
    """(memoised functions, written module-/class-level containers) of the current source.

    A container is a module-level or class-level name bound to a dict / list / set display, comprehension or constructor call;
    it counts as *written* when some function stores into it (subscript store / delete, augmented assignment, a mutating
    method call) or rebinds it through `global`.  Read-only tables (operator tables, method sets) are not reported."""
    memo = sorted(fi.key for fi in src.funcs.values()
                  if any(d.split("(")[0].split(".")[-1] in ("lru_cache", "cache", "cached_property") for d in fi.decorators))
    written = []
    keys_of: dict[str, list[str]] = {}
    for mod, mi in src.modules.items():
        cands: dict[str, str] = {}

        def is_container(v):
            if isinstance(v, (ast.Dict, ast.List, ast.Set, ast.DictComp, ast.ListComp, ast.SetComp)):
                return True
            return isinstance(v, ast.Call) and ast.unparse(v.func) in CONTAINER_CALLS

        def scan_body(body, prefix):
            for st_ in body:
                tg, val = None, None
                if isinstance(st_, ast.Assign) and len(st_.targets) == 1 and isinstance(st_.targets[0], ast.Name):
                    tg, val = st_.targets[0].id, st_.value
                elif isinstance(st_, ast.AnnAssign) and isinstance(st_.target, ast.Name) and st_.value is not None:
                    tg, val = st_.target.id, st_.value
                if tg is not None and is_container(val):
                    cands[prefix + tg] = tg
                if isinstance(st_, ast.ClassDef):
                    scan_body(st_.body, prefix + st_.name + ".")
                if isinstance(st_, ast.If):
                    scan_body(st_.body + st_.orelse, prefix)
        scan_body(mi.tree.body, "")
        if not cands:
            continue
        simple = {}
        for full, nm in cands.items():
            simple.setdefault(nm, full)
        for fn_ in ast.walk(mi.tree):
            if not isinstance(fn_, (ast.FunctionDef, ast.AsyncFunctionDef, ast.Lambda)):
                continue
            local_rebound = set()
            if not isinstance(fn_, ast.Lambda):
                globs = {n for g in ast.walk(fn_) if isinstance(g, ast.Global) for n in g.names}
                for a_ in ast.walk(fn_):
                    if isinstance(a_, ast.Assign):
                        for t_ in a_.targets:
                            if isinstance(t_, ast.Name) and t_.id not in globs:
                                local_rebound.add(t_.id)
                    if isinstance(a_, ast.arg):
                        local_rebound.add(a_.arg)
            else:
                globs = set()

            def base_name(e):
                # X, cls.X, self.X, ClassName.X  ->  X
                if isinstance(e, ast.Name):
                    return e.id if e.id not in local_rebound else None
                if isinstance(e, ast.Attribute) and isinstance(e.value, ast.Name):
                    return e.attr
                return None
            for n_ in ast.walk(fn_):
                hit = None
                if isinstance(n_, (ast.Assign, ast.AugAssign, ast.Delete, ast.AnnAssign)):
                    tgs = n_.targets if isinstance(n_, (ast.Assign, ast.Delete)) else [n_.target]
                    for t_ in tgs:
                        if isinstance(t_, ast.Subscript):
                            hit = base_name(t_.value)
                        elif isinstance(t_, ast.Name) and t_.id in globs:
                            hit = t_.id
                        elif isinstance(n_, ast.AugAssign) and isinstance(t_, (ast.Name, ast.Attribute)):
                            hit = base_name(t_)
                        if hit in simple:
                            written.append(f"{mod}:{simple[hit]}")
                            if isinstance(t_, ast.Subscript):
                                keys_of.setdefault(f"{mod}:{simple[hit]}", []).append(key_text(fn_, t_.slice))
                elif isinstance(n_, ast.Call) and isinstance(n_.func, ast.Attribute) and n_.func.attr in MUTATORS:
                    hit = base_name(n_.func.value)
                    if hit in simple:
                        written.append(f"{mod}:{simple[hit]}")
                        if n_.func.attr == "setdefault" and n_.args:
                            keys_of.setdefault(f"{mod}:{simple[hit]}", []).append(key_text(fn_, n_.args[0]))
    return memo, sorted(set(written)), keys_of


def install_scan(reg, src):
    memo, written, keys_of = process_wide_state(src)
    with_lemma = {k.split("lemma:memo:")[1].split(":")[0] for k in reg.contracts if k.startswith("lemma:memo:")}
    # registries filled once at import time by decorators are process-wide by design; they map a class to a rule and are
    # keyed by class objects, not by model data (listed so that a new one is looked at, not silently accepted)
    REGISTRIES = {"optyx.core.autodiff:_gradient_registry"}

    @reg.contract("lemma:memo:process-wide-state", props=["C14"])
    def _(c):
        c.returns(T.none())

        def on_exit(cc, outcome, val):
            oid = cc.ip.cur_oid
            for key in memo:
                name = key.split(":")[1].split(".")[-1]
                cc.path.oblige(oid(f"memoised function {key} has a memo-soundness lemma"), z3.BoolVal(name in with_lemma), kind="post",
                               detail="every process-wide memo needs the lemma 'equal keys => the stored result is a correct answer'")
            for w in written:
                if w in REGISTRIES:
                    cc.path.oblige(oid(f"module-level container {w} is a known registry"), z3.BoolVal(True), kind="post")
                    continue
                # a table keyed by id(...) cannot be sound (addresses are reused once the object is collected) and one keyed by
                # a bare name identifies same-named variables of different models: refuted.  Any other new table has no
                # memo-soundness lemma yet: the proof is incomplete, which is `undecided`, not a violation.
                keys = keys_of.get(w, [])
                bad = [k_ for k_ in keys if "id(" in k_.replace(" ", "") or k_.replace(" ", "").endswith(".name")
                       or ".name," in k_.replace(" ", "") or ".name)" in k_.replace(" ", "")]
                if bad:
                    cc.path.oblige(oid(f"process-wide table {w}: keys identify the data they stand for"), z3.BoolVal(False), kind="post",
                                   detail=f"written with key(s) {bad}: an id() is reused after garbage collection, a name is shared by "
                                          "the variables of independent models")
                else:
                    cc.path.oblige(oid(f"process-wide table {w} has a memo-soundness lemma"), z3.BoolVal(False), kind="post", protocol=True,
                                   detail="new table written at run time and shared by all models; keys " + repr(keys))
            cc.path.oblige(oid("scan of process-wide state ran"), z3.BoolVal(True), kind="post")
        c.on_exit.append(on_exit)
