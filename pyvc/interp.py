"""Symbolic executor over the real `ast` of optyx (one path per run; forking via Path.branch).

Direct-style evaluator: `ev(expr, frame) -> engine value`, `exec_block(stmts, frame)`; Python control
flow is mapped to the private exceptions below.  Calls go, in this order, to
  (1) the contract of the callee (never its body) if one is registered in the sidecar,
  (2) the real body, unfolded, for callees the sidecar marks `inline` and for constructors,
  (3) the builtin / NumPy model table,
  (4) Unsupported (the function under proof is then reported out of reach).
"""
from __future__ import annotations

import ast
from typing import Any

import z3

from . import sym
from .path import Path
from .source import Source, FuncInfo
from .values import (GList, Poison, SDict, HeapList, BoundBuiltin, BoundMethod, BuiltinRef, ClassRef, Closure, ExcVal, FuncRef, Infeasible,
                     ModuleRef, NOTIMPL, Obj, Opaque, PDict, PList, SArr, SBool, SInt, SMap, SName, SOpt,
                     SReal, SSeq, SSet, SStrOpaque, SpecFn, Unsupported, num_term, real_term)


class _Return(Exception):
    def __init__(self, value):
        self.value = value


class RaiseEx(Exception):
    """A Python exception raised by the code under proof."""
    def __init__(self, exc: ExcVal):
        self.exc = exc


class _Break(Exception):
    pass


class LateBound(Exception):
    """A closure read a variable that the loop which created it keeps rebinding (late binding)."""
    def __init__(self, name):
        self.name = name


class _Continue(Exception):
    pass


BUILTIN_EXC = {
    "BaseException": [], "Exception": ["BaseException"], "KeyboardInterrupt": ["BaseException"],
    "SystemExit": ["BaseException"], "GeneratorExit": ["BaseException"],
    "ArithmeticError": ["Exception"], "ZeroDivisionError": ["ArithmeticError"], "FloatingPointError": ["ArithmeticError"],
    "OverflowError": ["ArithmeticError"], "LookupError": ["Exception"], "KeyError": ["LookupError"],
    "IndexError": ["LookupError"], "ValueError": ["Exception"], "TypeError": ["Exception"],
    "AttributeError": ["Exception"], "RuntimeError": ["Exception"], "RecursionError": ["RuntimeError"],
    "NotImplementedError": ["RuntimeError"], "MemoryError": ["Exception"], "AssertionError": ["Exception"],
    "StopIteration": ["Exception"], "ImportError": ["Exception"], "Warning": ["Exception"], "UserWarning": ["Warning"],
    "DeprecationWarning": ["Warning"], "RuntimeWarning": ["Warning"], "OSError": ["Exception"], "NameError": ["Exception"],
}

PY_BUILTINS = {"len", "isinstance", "hasattr", "getattr", "float", "int", "abs", "max", "min", "sum", "list", "tuple",
               "set", "dict", "enumerate", "zip", "range", "sorted", "id", "type", "repr", "str", "iter", "any", "all",
               "bool", "hash", "object", "print", "super", "next", "reversed", "frozenset", "callable", "round"}


class Frame:
    __slots__ = ("module", "locals", "parent", "finfo", "nonlocals", "cls")

    def __init__(self, module: str, locals_: dict, parent: "Frame | None" = None, finfo: FuncInfo | None = None):
        self.module = module
        self.locals = locals_
        self.parent = parent
        self.finfo = finfo
        self.nonlocals: set[str] = set()
        self.cls = finfo.cls if finfo else None

    def lookup(self, name: str):
        f = self
        while f is not None:
            if name in f.locals:
                return True, f.locals[name]
            f = f.parent
        return False, None

    def assign(self, name: str, value) -> None:
        if name in self.nonlocals:
            f = self.parent
            while f is not None:
                if name in f.locals:
                    f.locals[name] = value
                    return
                f = f.parent
        self.locals[name] = value


class Interp:
    def __init__(self, source: Source, path: Path, registry, schema, models, under_proof: str | None = None):
        self.src = source
        self.path = path
        self.reg = registry          # contract registry (pyvc.contracts.Registry)
        self.schema = schema         # pyvc.spec.Schema
        self.models = models         # pyvc.models.Models
        self.under_proof = under_proof
        self.depth = 0
        self.current_contract = None  # ContractCtx of the function being verified (loop invariants, IH)
        self.inline_log: set[str] = set()
        self.called_contracts: set[str] = set()
        self.fault_mode = False
        self.oid_prefix = ""
        self.cur_oid = lambda clause: f"{self.oid_prefix} / {clause}" if self.oid_prefix else clause

    # ================================================================== helpers
    def unsupported(self, msg: str, node: ast.AST | None = None):
        loc = f" (line {getattr(node, 'lineno', '?')})" if node is not None else ""
        raise Unsupported(msg + loc)

    def raise_exc(self, cls: str, *args, **kwargs):
        raise RaiseEx(ExcVal(cls, args, kwargs))

    def exc_is_subclass(self, cls: str, base: str) -> bool:
        if cls == base:
            return True
        if cls in self.src.classes:
            return any(self.exc_is_subclass(b, base) for b in self.src.classes[cls].bases)
        return any(self.exc_is_subclass(b, base) for b in BUILTIN_EXC.get(cls, []))

    def is_exception_class(self, cls: str) -> bool:
        return cls in BUILTIN_EXC or (cls in self.src.classes and self.exc_is_subclass(cls, "BaseException"))

    # truthiness -------------------------------------------------------------
    def truth(self, v, desc: str = "") -> bool:
        if isinstance(v, SBool):
            return self.path.branch(v.t, desc)
        if isinstance(v, bool) or v is None:
            return bool(v)
        if isinstance(v, (int, float, str, tuple)):
            return bool(v)
        if isinstance(v, SReal) or isinstance(v, SInt):
            return self.path.branch(v.t != 0, desc)
        if isinstance(v, SOpt):
            if self.path.branch(v.isnone, desc + " is None"):
                return False
            return self.truth(v.val, desc)
        if isinstance(v, PList):
            return len(v.items) > 0
        if isinstance(v, HeapList):
            return self.path.branch(self.schema.hl_len(self, v) > 0, desc + " nonempty")
        if isinstance(v, SDict):
            return self.path.branch(sym.fn("DICTNONEMPTY", z3.ArraySort(sym.Name, sym.B), sym.B)(v.keys), desc + " nonempty dict")
        if isinstance(v, PDict):
            return len(v.items) > 0
        if isinstance(v, SSeq):
            if isinstance(v.n, int):
                return v.n > 0
            return self.path.branch(v.n > 0, desc + " nonempty")
        if isinstance(v, (Obj, Opaque, Closure, SpecFn, FuncRef, ClassRef, BoundMethod)):
            return True
        if isinstance(v, (SName,)):
            self.unsupported("truthiness of symbolic string")
        if isinstance(v, SStrOpaque):
            return True
        if isinstance(v, SArr):
            self.unsupported("truthiness of array")
        self.unsupported(f"truthiness of {type(v).__name__}")

    def as_bool_term(self, v):
        """z3 Bool (or python bool) of a value without forking, where possible."""
        if isinstance(v, SBool):
            return v.t
        if isinstance(v, bool):
            return v
        if isinstance(v, (SReal, SInt)):
            return v.t != 0
        return self.truth(v)

    # ================================================================== statements
    def exec_block(self, stmts: list[ast.stmt], fr: Frame) -> None:
        for st in stmts:
            self.exec_stmt(st, fr)

    def exec_stmt(self, st: ast.stmt, fr: Frame) -> None:
        m = getattr(self, "st_" + type(st).__name__, None)
        if m is None:
            self.unsupported(f"statement {type(st).__name__}", st)
        m(st, fr)

    def st_Expr(self, st, fr):
        if isinstance(st.value, ast.Constant):
            return
        self.ev(st.value, fr)

    def st_Pass(self, st, fr):
        pass

    def st_Import(self, st, fr):
        for a in st.names:
            fr.locals[a.asname or a.name.split(".")[0]] = self.module_value(a.name if a.asname else a.name.split(".")[0])

    def st_ImportFrom(self, st, fr):
        for a in st.names:
            fr.locals[a.asname or a.name] = self.import_from(st.module, a.name)

    def st_Nonlocal(self, st, fr):
        fr.nonlocals.update(st.names)

    def st_Global(self, st, fr):
        self.unsupported("global statement", st)

    def st_Assert(self, st, fr):
        v = self.ev(st.test, fr)
        if not self.truth(v, "assert"):
            self.raise_exc("AssertionError")

    def st_Return(self, st, fr):
        raise _Return(None if st.value is None else self.ev(st.value, fr))

    def st_Raise(self, st, fr):
        if st.exc is None:
            ok, cur = fr.lookup("__current_exc__")
            if not ok:
                self.unsupported("bare raise outside except", st)
            raise RaiseEx(cur)
        v = self.ev(st.exc, fr)
        if isinstance(v, ClassRef) or (isinstance(v, BuiltinRef) and v.name in BUILTIN_EXC):
            v = ExcVal(v.name)
        if not isinstance(v, ExcVal):
            self.unsupported(f"raise of {v!r}", st)
        if st.cause is not None:
            v.cause = self.ev(st.cause, fr)
        raise RaiseEx(v)

    def st_If(self, st, fr):
        c = self.ev(st.test, fr)
        if self.truth(c, self.src_text(st.test)):
            self.exec_block(st.body, fr)
        else:
            self.exec_block(st.orelse, fr)

    def st_Assign(self, st, fr):
        v = self.ev(st.value, fr)
        for t in st.targets:
            self.assign_target(t, v, fr)

    def st_AnnAssign(self, st, fr):
        if st.value is None:
            return
        self.assign_target(st.target, self.ev(st.value, fr), fr)

    def st_AugAssign(self, st, fr):
        load = self._as_load(st.target)
        cur = self.ev(load, fr)
        rhs = self.ev(st.value, fr)
        new = self.binop(st.op, cur, rhs, st)
        if isinstance(cur, SArr) and cur.shape is None and isinstance(st.target, ast.Name):
            # NumPy in-place operator: the array object itself is updated (every alias sees it)
            return self.models.inplace_update(self, cur, new)
        self.assign_target(st.target, new, fr)

    @staticmethod
    def _as_load(t):
        import copy
        t2 = copy.copy(t)
        t2.ctx = ast.Load()
        return t2

    def st_FunctionDef(self, st, fr):
        qn = (fr.finfo.qualname + "." if fr.finfo else "") + st.name
        fi = self.src.funcs.get(f"{fr.module}:{qn}")
        defaults = [self.ev(d, fr) for d in st.args.defaults]
        kwd = {a.arg: self.ev(d, fr) for a, d in zip(st.args.kwonlyargs, st.args.kw_defaults) if d is not None}
        clo = Closure(st, fr, defaults, kwd, qualname=qn, finfo=fi)
        val: Any = clo
        for d in reversed(st.decorator_list):
            dv = self.ev(d, fr)
            val = self.call(dv, [val], {}, d, fr)
        fr.assign(st.name, val)

    def st_Delete(self, st, fr):
        self.unsupported("del", st)

    def st_Break(self, st, fr):
        raise _Break()

    def st_Continue(self, st, fr):
        raise _Continue()

    def st_With(self, st, fr):
        self.models.exec_with(self, st, fr)

    def st_Try(self, st, fr):
        try:
            try:
                self.exec_block(st.body, fr)
            except RaiseEx as r:
                handled = False
                for h in st.handlers:
                    if self.handler_matches(h, r.exc, fr):
                        handled = True
                        saved = fr.locals.get("__current_exc__")
                        fr.locals["__current_exc__"] = r.exc
                        if h.name:
                            fr.locals[h.name] = r.exc
                        try:
                            self.exec_block(h.body, fr)
                        finally:
                            if saved is None:
                                fr.locals.pop("__current_exc__", None)
                            else:
                                fr.locals["__current_exc__"] = saved
                        break
                if not handled:
                    raise
            else:
                self.exec_block(st.orelse, fr)
        finally:
            # Python semantics: finally runs on every exit (normal, return, raise, break/continue)
            if st.finalbody:
                self.exec_block(st.finalbody, fr)

    def handler_matches(self, h: ast.ExceptHandler, exc: ExcVal, fr: Frame) -> bool:
        if h.type is None:
            return True
        t = self.ev(h.type, fr)
        names = []
        for x in (t if isinstance(t, tuple) else (t,)):
            if isinstance(x, (ClassRef, BuiltinRef)):
                names.append(x.name)
            else:
                self.unsupported(f"except clause type {x!r}")
        if exc.cls == "?":        # arbitrary exception object (fault mode): class decided by the contract
            for n in names:
                pred = exc.kwargs["isinstance"](n)
                if self.path.branch(pred, f"exc isinstance {n}"):
                    return True
            return False
        return any(self.exc_is_subclass(exc.cls, n) for n in names)

    # loops ------------------------------------------------------------------
    def st_For(self, st, fr):
        it = self.ev(st.iter, fr)
        items = self.concrete_iter(it)
        if items is None:
            return self.symbolic_for(st, it, fr)
        broke = False
        for x in items:
            self.assign_target(st.target, x, fr)
            try:
                self.exec_block(st.body, fr)
            except _Break:
                broke = True
                break
            except _Continue:
                continue
        if not broke:
            self.exec_block(st.orelse, fr)

    def st_While(self, st, fr):
        inv = self.loop_spec(st, fr)
        if inv is not None:
            return inv.run_while(self, st, fr)
        # no invariant: unroll while the condition stays concrete (bounded by 64)
        for _ in range(64):
            c = self.ev(st.test, fr)
            if isinstance(c, (SBool, SReal, SInt, SOpt)) or (isinstance(c, SSeq) and not isinstance(c.n, int)):
                self.unsupported("while loop with symbolic condition and no invariant in the sidecar", st)
            if not self.truth(c):
                self.exec_block(st.orelse, fr)
                return
            try:
                self.exec_block(st.body, fr)
            except _Break:
                return
            except _Continue:
                continue
        self.unsupported("while loop did not terminate in 64 concrete iterations", st)

    def loop_spec(self, st, fr):
        if self.current_contract is None:
            return None
        return self.current_contract.loop_for(self, st, fr)

    def symbolic_for(self, st, it, fr):
        spec = self.loop_spec(st, fr)
        if spec is None:
            self.unsupported(f"for-loop over a symbolic-length sequence with no invariant in the sidecar "
                             f"({self.src_text(st.iter)})", st)
        return spec.run_for(self, st, it, fr)

    def concrete_iter(self, it) -> list | None:
        """List of items if the iterable has concrete length, else None."""
        if isinstance(it, PList):
            return list(it.items)
        if isinstance(it, tuple):
            return list(it)
        if isinstance(it, PDict):
            return [self.models.unkey(k) for k in it.items]
        if isinstance(it, SSeq):
            if isinstance(it.n, int):
                return [it.get(k) for k in range(it.n)]
            return None
        if isinstance(it, range):
            return list(it)
        if isinstance(it, str):
            return list(it)
        if isinstance(it, SArr) and isinstance(it.n, int):
            return [SReal(z3.Select(it.arr, k)) for k in range(it.n)]
        if isinstance(it, HeapList):
            return None
        if isinstance(it, (Obj, Opaque)):
            r = self.call_method(it, "__iter__", [], {}, None)
            return self.concrete_iter(r)
        if isinstance(it, SpecFn) and it.meta.get("iterable") is not None:
            return self.concrete_iter(it.meta["iterable"])
        self.unsupported(f"iteration over {type(it).__name__}")

    # assignment ---------------------------------------------------------------
    def assign_target(self, t, v, fr: Frame) -> None:
        if isinstance(t, ast.Name):
            fr.assign(t.id, v)
        elif isinstance(t, (ast.Tuple, ast.List)):
            items = self.concrete_iter(v)
            if items is None or len(items) != len(t.elts):
                self.unsupported("tuple unpacking of symbolic-length value", t)
            for sub, x in zip(t.elts, items):
                self.assign_target(sub, x, fr)
        elif isinstance(t, ast.Attribute):
            o = self.ev(t.value, fr)
            self.setattr(o, t.attr, v, t)
        elif isinstance(t, ast.Subscript):
            o = self.ev(t.value, fr)
            k = self.ev_index(t.slice, fr)
            self.models.setitem(self, o, k, v, t)
        else:
            self.unsupported(f"assignment target {type(t).__name__}", t)

    def setattr(self, o, attr: str, v, node=None) -> None:
        if isinstance(o, Obj):
            if o.frozen:
                self.raise_exc("FrozenInstanceError")
            o.fields[attr] = v
            return
        if isinstance(o, Opaque):
            self.schema.write_field(self, o, attr, v)
            return
        if isinstance(o, ModuleRef):
            self.path.globals[f"{o.name}.{attr}"] = v
            self.path.event("global-write", (f"{o.name}.{attr}", v))
            return
        self.unsupported(f"attribute store on {type(o).__name__}.{attr}", node)

    # ================================================================== expressions
    def src_text(self, node) -> str:
        try:
            return ast.unparse(node)[:60]
        except Exception:
            return type(node).__name__

    def ev(self, e: ast.expr, fr: Frame):
        m = getattr(self, "ev_" + type(e).__name__, None)
        if m is None:
            self.unsupported(f"expression {type(e).__name__}", e)
        return m(e, fr)

    def ev_Constant(self, e, fr):
        if e.value is Ellipsis:
            return None
        return e.value

    def ev_Name(self, e, fr):
        ok, v = fr.lookup(e.id)
        if ok:
            if isinstance(v, Poison):
                raise LateBound(v.name)
            if isinstance(v, SOpt):
                nv = self.models.narrow(self, v)
                if nv is not v:
                    fr.assign(e.id, nv) if e.id in fr.locals else None
                return nv
            return v
        return self.global_name(fr.module, e.id, e)

    def global_name(self, module: str, name: str, node=None):
        r = self.src.resolve_name(module, name)
        if r is not None:
            kind, payload = r
            if kind == "func":
                return FuncRef(payload)
            if kind == "class":
                return ClassRef(payload.name)
            if kind == "module":
                return ModuleRef(payload)
            if kind == "const":
                mod, valnode = payload
                ov = self.path.globals.get(f"{mod}.{name}")
                if ov is not None:
                    return ov
                return self.ev(valnode, Frame(mod, {}))
            if kind == "ext":
                m, a = payload
                return self.external(m, a)
        if name in PY_BUILTINS or name in BUILTIN_EXC:
            return BuiltinRef(name)
        if name in ("True", "False", "None"):
            return {"True": True, "False": False, "None": None}[name]
        if name == "NotImplemented":
            return NOTIMPL
        self.unsupported(f"unresolved global name {name!r} in {module}", node)

    def external(self, module: str, attr: str | None):
        if attr is None:
            return ModuleRef(module)
        full = f"{module}.{attr}"
        if module == "numpy" and attr is None:
            return ModuleRef("numpy")
        return BuiltinRef(full)

    def module_value(self, name: str):
        return ModuleRef(name)

    def import_from(self, module: str, name: str):
        if module in self.src.modules:
            r = self.src.resolve_name(module, name)
            if r is None:
                self.unsupported(f"cannot import {name} from {module}")
            kind, payload = r
            if kind == "func":
                return FuncRef(payload)
            if kind == "class":
                return ClassRef(payload.name)
            if kind == "module":
                return ModuleRef(payload)
            if kind == "const":
                mod, valnode = payload
                return self.ev(valnode, Frame(mod, {}))
            if kind == "ext":
                return self.external(*payload)
        return BuiltinRef(f"{module}.{name}")

    def ev_Attribute(self, e, fr):
        o = self.ev(e.value, fr)
        return self.getattr(o, e.attr, e)

    def ev_Tuple(self, e, fr):
        return tuple(self.ev(x, fr) for x in e.elts)

    def ev_List(self, e, fr):
        return PList([self.ev(x, fr) for x in e.elts])

    def ev_Set(self, e, fr):
        return self.models.make_set(self, [self.ev(x, fr) for x in e.elts])

    def ev_Dict(self, e, fr):
        d = PDict()
        for k, v in zip(e.keys, e.values):
            if k is None:
                self.unsupported("dict unpacking in literal", e)
            d.items[self.models.key(self.ev(k, fr))] = self.ev(v, fr)
        return d

    def ev_JoinedStr(self, e, fr):
        parts = []
        for v in e.values:
            if isinstance(v, ast.Constant):
                parts.append(v.value)
            else:
                parts.append(self.ev(v.value, fr))
        if all(isinstance(p, str) for p in parts):
            return "".join(parts)
        return SStrOpaque(parts)

    def ev_FormattedValue(self, e, fr):
        return self.ev(e.value, fr)

    def ev_IfExp(self, e, fr):
        c = self.ev(e.test, fr)
        if self.truth(c, self.src_text(e.test)):
            return self.ev(e.body, fr)
        return self.ev(e.orelse, fr)

    def ev_BoolOp(self, e, fr):
        is_and = isinstance(e.op, ast.And)
        if self.path.guards:
            # inside a lazily evaluated sequence element: combine the operands as a term when all of them are plain booleans
            # (comparisons, `is None` tests); evaluation order does not matter for those
            vals = [self.ev(sub, fr) for sub in e.values]
            if all(isinstance(v, (SBool, bool)) for v in vals):
                ts = [v.t if isinstance(v, SBool) else z3.BoolVal(v) for v in vals]
                return SBool(z3.And(*ts) if is_and else z3.Or(*ts))
            raise Unsupported("boolean operator over non-boolean operands inside a lazily evaluated sequence element")
        last = None
        for sub in e.values:
            last = self.ev(sub, fr)
            t = self.truth(last, self.src_text(sub))
            if is_and and not t:
                return last if not isinstance(last, (SBool, SReal, SInt, SOpt)) else False
            if not is_and and t:
                return last if not isinstance(last, (SBool, SReal, SInt)) else (True if isinstance(last, SBool) else last)
        if isinstance(last, SBool):
            return is_and  # all true (and) / all false (or) on this path
        return last

    def ev_UnaryOp(self, e, fr):
        v = self.ev(e.operand, fr)
        if isinstance(e.op, ast.Not):
            if isinstance(v, SBool):
                return SBool(z3.Not(v.t))
            return not self.truth(v, self.src_text(e.operand))
        if isinstance(e.op, ast.USub):
            return self.neg(v, e)
        if isinstance(e.op, ast.UAdd):
            if isinstance(v, (Obj, Opaque)):
                return self.call_method(v, "__pos__", [], {}, e)
            return v
        self.unsupported("unary operator", e)

    def neg(self, v, node=None):
        if isinstance(v, SOpt):
            v = self.models.unopt(self, v)
            if v is None:
                self.raise_exc("TypeError", "bad operand type for unary -: 'NoneType'")
        if isinstance(v, bool):
            return -int(v)
        if isinstance(v, (int, float)):
            return -v
        if isinstance(v, SReal):
            return SReal(-v.t, v.pytype)
        if isinstance(v, SInt):
            return SInt(-v.t)
        if isinstance(v, (Obj, Opaque)):
            return self.call_method(v, "__neg__", [], {}, node)
        if isinstance(v, (SArr, SSeq)):
            return self.models.array_unary(self, "neg", v)
        self.unsupported(f"negation of {type(v).__name__}", node)

    def ev_BinOp(self, e, fr):
        l = self.ev(e.left, fr)
        r = self.ev(e.right, fr)
        return self.binop(e.op, l, r, e)

    OPNAMES = {ast.Add: ("__add__", "__radd__"), ast.Sub: ("__sub__", "__rsub__"), ast.Mult: ("__mul__", "__rmul__"),
               ast.Div: ("__truediv__", "__rtruediv__"), ast.Pow: ("__pow__", "__rpow__"),
               ast.MatMult: ("__matmul__", "__rmatmul__"), ast.FloorDiv: ("__floordiv__", "__rfloordiv__"),
               ast.Mod: ("__mod__", "__rmod__"), ast.BitOr: ("__or__", "__ror__"), ast.BitAnd: ("__and__", "__rand__")}

    def binop(self, op, l, r, node=None):
        lo = isinstance(l, (Obj, Opaque))
        ro = isinstance(r, (Obj, Opaque))
        if lo or ro:
            fwd, rev = self.OPNAMES[type(op)]
            # ndarray on the left with an object defining __array_ufunc__ = None on the right: NumPy defers
            if lo and self.has_method(l, fwd):
                res = self.call_method(l, fwd, [r], {}, node)
                if res is not NOTIMPL:
                    return res
            if ro and self.has_method(r, rev):
                if isinstance(l, (SArr,)) or (isinstance(l, SSeq) and l.kind == "ndarray"):
                    if not self.class_has_attr(r, "__array_ufunc__"):
                        self.unsupported("ndarray <op> object without __array_ufunc__=None (NumPy broadcasting over the object)", node)
                res = self.call_method(r, rev, [l], {}, node)
                if res is not NOTIMPL:
                    return res
            self.raise_exc("TypeError", f"unsupported operand type(s) for {type(op).__name__}")
        return self.models.arith(self, op, l, r, node)

    def class_has_attr(self, o, attr) -> bool:
        cls = o.cls
        return self.src.find_class_attr(cls, attr) is not None

    def has_method(self, o, name: str) -> bool:
        return self.src.find_method(o.cls, name) is not None

    def ev_Compare(self, e, fr):
        left = self.ev(e.left, fr)
        result = None
        for op, comp in zip(e.ops, e.comparators):
            right = self.ev(comp, fr)
            r = self.compare(op, left, right, e)
            if len(e.ops) == 1:
                return r
            if not self.truth(r, self.src_text(e)):
                return False
            result = True
            left = right
        return result

    def compare(self, op, l, r, node=None):
        if isinstance(op, ast.Is):
            return self.models.identical(self, l, r)
        if isinstance(op, ast.IsNot):
            return self.models.bnot(self.models.identical(self, l, r))
        if isinstance(op, ast.In):
            return self.models.contains(self, r, l, node)
        if isinstance(op, ast.NotIn):
            return self.models.bnot(self.models.contains(self, r, l, node))
        if isinstance(op, ast.Eq):
            return self.models.equals(self, l, r, node)
        if isinstance(op, ast.NotEq):
            return self.models.bnot(self.models.equals(self, l, r, node))
        # ordering
        if isinstance(l, (Obj, Opaque)) or isinstance(r, (Obj, Opaque)):
            names = {ast.LtE: ("__le__", "__ge__"), ast.GtE: ("__ge__", "__le__"), ast.Lt: ("__lt__", "__gt__"),
                     ast.Gt: ("__gt__", "__lt__")}[type(op)]
            if isinstance(l, (Obj, Opaque)) and self.has_method(l, names[0]):
                res = self.call_method(l, names[0], [r], {}, node)
                if res is not NOTIMPL:
                    return res
            if isinstance(r, (Obj, Opaque)) and self.has_method(r, names[1]):
                res = self.call_method(r, names[1], [l], {}, node)
                if res is not NOTIMPL:
                    return res
            self.raise_exc("TypeError", "ordering not supported")
        return self.models.order(self, op, l, r, node)

    def ev_Lambda(self, e, fr):
        defaults = [self.ev(d, fr) for d in e.args.defaults]
        return Closure(e, fr, defaults, qualname=f"<lambda@{e.lineno}>")

    def ev_Subscript(self, e, fr):
        o = self.ev(e.value, fr)
        k = self.ev_index(e.slice, fr)
        return self.getitem(o, k, e)

    def ev_index(self, s, fr):
        if isinstance(s, ast.Slice):
            return slice(None if s.lower is None else self.ev(s.lower, fr),
                         None if s.upper is None else self.ev(s.upper, fr),
                         None if s.step is None else self.ev(s.step, fr))
        if isinstance(s, ast.Tuple):
            return tuple(self.ev_index(x, fr) for x in s.elts)
        return self.ev(s, fr)

    def getitem(self, o, k, node=None):
        if isinstance(o, SOpt):
            o = self.models.unopt(self, o)
            if o is None:
                self.raise_exc("TypeError", "'NoneType' object is not subscriptable")
        if isinstance(o, (Obj, Opaque)):
            return self.call_method(o, "__getitem__", [k], {}, node)
        return self.models.getitem(self, o, k, node)

    def ev_ListComp(self, e, fr):
        return self.models.comprehension(self, e, fr, "list")

    def ev_GeneratorExp(self, e, fr):
        return self.models.comprehension(self, e, fr, "gen")

    def ev_SetComp(self, e, fr):
        seq = self.models.comprehension(self, e, fr, "list")
        return self.models.make_set(self, self.concrete_iter(seq) if self.concrete_iter(seq) is not None else seq)

    def ev_DictComp(self, e, fr):
        return self.models.dict_comprehension(self, e, fr)

    def ev_Starred(self, e, fr):
        self.unsupported("starred expression", e)

    def ev_Call(self, e, fr):
        # super().__init__ etc. are not used in the functions under contract
        f = self.ev(e.func, fr)
        args = []
        for a in e.args:
            if isinstance(a, ast.Starred):
                items = self.concrete_iter(self.ev(a.value, fr))
                if items is None:
                    self.unsupported("*args of symbolic length", e)
                args.extend(items)
            else:
                args.append(self.ev(a, fr))
        kwargs = {}
        for kw in e.keywords:
            if kw.arg is None:
                d = self.ev(kw.value, fr)
                if isinstance(d, PDict):
                    for k, v in d.items.items():
                        kwargs[self.models.unkey(k)] = v
                elif isinstance(d, SpecFn) and d.meta.get("kwargs") is not None:
                    kwargs["**"] = d
                else:
                    self.unsupported("**kwargs of non-dict", e)
            else:
                kwargs[kw.arg] = self.ev(kw.value, fr)
        return self.call(f, args, kwargs, e, fr)

    # ================================================================== attribute access
    def getattr(self, o, attr: str, node=None):
        if isinstance(o, SOpt):
            o = self.models.unopt(self, o)
            if o is None:
                self.raise_exc("AttributeError", f"'NoneType' object has no attribute {attr!r}")
        if isinstance(o, Obj):
            if attr in o.fields:
                return o.fields[attr]
            return self.class_attr_or_method(o, o.cls, attr, node)
        if isinstance(o, Opaque):
            if attr in o.known:
                return o.known[attr]
            cls = self.exact_class(o) or o.cls
            m = self.src.find_method(cls, attr)
            if m is not None:
                if not self.exact_class(o) and self.overridden_below(cls, attr):
                    return BoundMethod(o, m)   # dispatch resolved at call time (virtual contract)
                if "property" in m.decorators:
                    return self.call_function(m, [o], {}, node)
                return BoundMethod(o, m)
            if not self.exact_class(o) and attr in ("value", "_value", "power", "coefficients") and not self.path.guards:
                # whether the attribute exists (and what reading it does) depends on the dynamic class: Constant.value is a
                # stored number, Parameter.value reads the parameter's current value, other nodes have no such attribute
                own, below = self.schema.attr_owners(o, attr)
                if own and len(own) < len(below):
                    K = self.schema.kinds
                    if not self.path.branch(K.is_any(o.ref, own), f"class of {o.ref} has attribute {attr}"):
                        self.raise_exc("AttributeError", attr)
                    if len(own) <= 4:
                        done = False
                        for cand in own[:-1]:
                            if self.path.branch(K.is_kind(o.ref, cand), f"class of {o.ref} is {cand}"):
                                self.schema.learn_kind(self, o.ref, cand)
                                done = True
                                break
                        if not done:
                            self.path.assume(K.is_kind(o.ref, own[-1]))
                            self.schema.learn_kind(self, o.ref, own[-1])
                        return self.getattr(o, attr, node)
            if self.schema.has_field(o, attr):
                return self.schema.read_field(self, o, attr)
            ca = self.src.find_class_attr(cls, attr)
            if ca is not None:
                return self.ev(ca[1], Frame(self.src.classes[ca[0]].module, {}))
            if self.is_dunder_default(attr):
                return BuiltinRef("object." + attr)
            self.raise_exc("AttributeError", attr)
        if isinstance(o, ModuleRef):
            return self.module_attr(o, attr, node)
        if isinstance(o, ClassRef):
            if attr == "__name__":
                return o.name
            m = self.src.find_method(o.name, attr) if o.name in self.src.classes else None
            if m is not None:
                if "classmethod" in m.decorators:
                    return BoundMethod(o, m)
                return FuncRef(m)
            ca = self.src.find_class_attr(o.name, attr) if o.name in self.src.classes else None
            if ca is not None:
                return self.ev(ca[1], Frame(self.src.classes[ca[0]].module, {}))
            if o.name in self.src.classes and "Enum" in self.src.classes[o.name].bases:
                self.raise_exc("AttributeError", attr)
            self.unsupported(f"class attribute {o.name}.{attr}", node)
        if isinstance(o, ExcVal):
            if attr in o.kwargs:
                return o.kwargs[attr]
            if attr == "args":
                return tuple(o.args)
            self.unsupported(f"exception attribute {attr}", node)
        if isinstance(o, BuiltinRef):
            return BuiltinRef(o.name + "." + attr)
        return self.models.getattr(self, o, attr, node)

    @staticmethod
    def is_dunder_default(attr: str) -> bool:
        return attr in ("__class__", "__hash__", "__eq__", "__repr__", "__str__", "__ne__")

    def overridden_below(self, cls: str, attr: str) -> bool:
        base_impl = self.src.find_method(cls, attr)
        for sub in self.src.subclasses(cls):
            if sub != cls and self.src.find_method(sub, attr) is not base_impl:
                return True
        return False

    def exact_class(self, o: Opaque) -> str | None:
        if o.exact:
            return o.cls
        return self.path.kinds.get(str(o.ref))

    def class_attr_or_method(self, o, cls: str, attr: str, node=None):
        m = self.src.find_method(cls, attr)
        if m is not None:
            if "property" in m.decorators:
                return self.call_function(m, [o], {}, node)
            return BoundMethod(o, m)
        ca = self.src.find_class_attr(cls, attr)
        if ca is not None:
            return self.ev(ca[1], Frame(self.src.classes[ca[0]].module, {}))
        if attr == "__class__":
            return ClassRef(cls)
        if self.assigned_on_self(cls, attr):
            # an instance attribute the class does assign (e.g. a field added to __init__) but the object schema does not
            # model: reading it is out of reach, not an AttributeError
            raise Unsupported(f"instance attribute {cls}.{attr} is assigned by the class but is not in the object schema")
        self.raise_exc("AttributeError", attr)

    def assigned_on_self(self, cls: str, attr: str) -> bool:
        for k in self.src.mro(cls):
            ci = self.src.classes.get(k)
            if ci is None:
                continue
            for m in ci.methods.values():
                a0 = m.node.args.args[0].arg if m.node.args.args else None
                if a0 is None:
                    continue
                for n_ in ast.walk(m.node):
                    tgs = n_.targets if isinstance(n_, ast.Assign) else [n_.target] if isinstance(n_, (ast.AnnAssign, ast.AugAssign)) else []
                    for t_ in tgs:
                        if isinstance(t_, ast.Attribute) and t_.attr == attr and isinstance(t_.value, ast.Name) and t_.value.id == a0:
                            return True
        return False

    def module_attr(self, o: ModuleRef, attr: str, node=None):
        if o.name in self.src.modules:
            return self.global_name(o.name, attr, node)
        g = self.path.globals.get(f"{o.name}.{attr}")
        if g is not None:
            return g
        if o.name == "numpy" and attr == "inf":
            return float("inf")
        if o.name == "numpy" and attr == "nan":
            return float("nan")
        if o.name == "numpy" and attr == "pi":
            import math
            return math.pi
        return BuiltinRef(f"{o.name}.{attr}")

    def hasattr(self, o, attr: str):
        if isinstance(o, Obj):
            if attr in o.fields:
                return True
            return self.src.find_method(o.cls, attr) is not None or self.src.find_class_attr(o.cls, attr) is not None
        if isinstance(o, Opaque):
            if attr in o.known:
                return True
            cls = self.exact_class(o) or o.cls
            if self.src.find_method(cls, attr) is not None or self.src.find_class_attr(cls, attr) is not None:
                return True
            return self.schema.hasattr(self, o, attr)
        return self.models.hasattr(self, o, attr)

    # ================================================================== calls
    def call(self, f, args: list, kwargs: dict, node=None, fr: Frame | None = None):
        if isinstance(f, FuncRef):
            return self.call_function(f.finfo, args, kwargs, node)
        if isinstance(f, BoundMethod):
            if isinstance(f.self, ClassRef):   # classmethod
                return self.call_function(f.finfo, [f.self] + args, kwargs, node)
            return self.call_method(f.self, f.finfo.name, args, kwargs, node)
        if isinstance(f, ClassRef):
            return self.instantiate(f.name, args, kwargs, node)
        if isinstance(f, Closure):
            return self.apply_closure(f, args, kwargs, node)
        if isinstance(f, SpecFn):
            return f.fn(self, *args, **kwargs)
        if isinstance(f, BuiltinRef):
            if f.name in BUILTIN_EXC:
                return ExcVal(f.name, args, kwargs)
            args = [self.models.narrow(self, a) for a in args]
            return self.models.call_builtin(self, f.name, args, kwargs, node, fr)
        if isinstance(f, BoundBuiltin):
            return self.models.call_bound(self, f.recv, f.name, args, kwargs, node)
        if isinstance(f, (Obj, Opaque)):
            return self.call_method(f, "__call__", args, kwargs, node)
        self.unsupported(f"call of {f!r}", node)

    def call_method(self, o, name: str, args, kwargs, node=None):
        if isinstance(o, Obj):
            m = self.src.find_method(o.cls, name)
            if m is None:
                self.raise_exc("AttributeError", name)
            return self.call_function(m, [o] + list(args), kwargs, node)
        if isinstance(o, Opaque):
            cls = self.exact_class(o) or o.cls
            m = self.src.find_method(cls, name)
            if m is None:
                if name in ("__eq__", "__hash__", "__ne__"):
                    return self.models.object_default(self, o, name, args)
                self.raise_exc("AttributeError", name)
            if self.exact_class(o) is None and self.overridden_below(cls, name):
                # dynamic dispatch on an object of unknown exact class: virtual contract
                vc = self.reg.virtual_contract(cls, name)
                if vc is None:
                    self.unsupported(f"dynamic dispatch {cls}.{name} without a virtual contract", node)
                return vc.apply(self, [o] + list(args), kwargs, node, via=f"virtual {cls}.{name}")
            return self.call_function(m, [o] + list(args), kwargs, node)
        self.unsupported(f"method {name} on {type(o).__name__}", node)

    def call_function(self, fi: FuncInfo, args, kwargs, node=None):
        ct = self.reg.contract_for(fi.key)
        if ct is not None and not (self.reg.is_inline(fi.key)):
            if fi.key == self.under_proof and self.depth == 0:
                pass
            self.called_contracts.add(fi.key)
            return ct.apply(self, args, kwargs, node)
        if fi.cls is not None and ct is None:
            vc = self.reg.virtual_for_method(self.src, fi.cls, fi.name)
            if vc is not None and not self.reg.is_inline(fi.key) and fi.key != self.under_proof:
                self.called_contracts.add(vc.key)
                return vc.apply(self, args, kwargs, node, via=f"virtual for {fi.key}")
        if not self.reg.may_unfold(self.src, fi):
            self.unsupported(f"call to {fi.key}: no contract and not marked inline", node)
        self.inline_log.add(fi.key)
        return self.run_body(fi, args, kwargs, node)

    def run_body(self, fi: FuncInfo, args, kwargs, node=None, parent_frame: Frame | None = None):
        if self.depth > 40:
            self.unsupported(f"unfolding depth exceeded at {fi.key}", node)
        fr = Frame(fi.module, {}, parent_frame, fi)
        if fi.key == self.under_proof and self.depth == 0:
            self.root_frame = fr
        self.bind_args(fi.node.args, args, kwargs, fr, fi.key, defaults_frame=Frame(fi.module, {}, parent_frame))
        if "contextmanager" in fi.decorators:
            return SpecFn(None, desc="contextmanager:" + fi.key, meta={"cm": (fi, fr)})
        self.depth += 1
        try:
            self.exec_block(fi.node.body, fr)
        except _Return as r:
            return r.value
        finally:
            self.depth -= 1
        return None

    def bind_args(self, a: ast.arguments, args, kwargs, fr: Frame, what: str, defaults=None, defaults_frame=None,
                  kwdefaults=None):
        params = [p.arg for p in a.posonlyargs + a.args]
        args = list(args)
        kwargs = dict(kwargs)
        if defaults is None:
            defaults = [self.ev(d, defaults_frame) for d in a.defaults]
        n_req = len(params) - len(defaults)
        for i, p in enumerate(params):
            if i < len(args):
                fr.locals[p] = args[i]
            elif p in kwargs:
                fr.locals[p] = kwargs.pop(p)
            elif i >= n_req:
                fr.locals[p] = defaults[i - n_req]
            else:
                self.raise_exc("TypeError", f"{what}: missing argument {p}")
        extra = args[len(params):]
        if a.vararg:
            fr.locals[a.vararg.arg] = tuple(extra)
        elif extra:
            self.raise_exc("TypeError", f"{what}: too many positional arguments")
        for i, p in enumerate(a.kwonlyargs):
            if p.arg in kwargs:
                fr.locals[p.arg] = kwargs.pop(p.arg)
            elif kwdefaults is not None and p.arg in kwdefaults:
                fr.locals[p.arg] = kwdefaults[p.arg]
            elif a.kw_defaults[i] is not None:
                fr.locals[p.arg] = self.ev(a.kw_defaults[i], defaults_frame)
            else:
                self.raise_exc("TypeError", f"{what}: missing keyword argument {p.arg}")
        if a.kwarg:
            star = kwargs.pop("**", None)
            if star is not None:
                if kwargs:
                    self.unsupported("mix of symbolic **kwargs and explicit keywords")
                fr.locals[a.kwarg.arg] = star
            else:
                fr.locals[a.kwarg.arg] = PDict({self.models.key(k): v for k, v in kwargs.items()})
        elif kwargs:
            self.raise_exc("TypeError", f"{what}: unexpected keyword arguments {list(kwargs)}")

    def apply_closure(self, c: Closure, args, kwargs, node=None):
        if self.depth > 60:
            self.unsupported("closure application depth exceeded", node)
        fr = Frame(c.frame.module, {}, c.frame, c.finfo or c.frame.finfo)
        self.bind_args(c.node.args, args, kwargs, fr, c.qualname, defaults=c.defaults, kwdefaults=c.kwdefaults,
                       defaults_frame=c.frame)
        self.depth += 1
        try:
            if isinstance(c.node, ast.Lambda):
                return self.ev(c.node.body, fr)
            try:
                self.exec_block(c.node.body, fr)
            except _Return as r:
                return r.value
            return None
        finally:
            self.depth -= 1

    def instantiate(self, cls: str, args, kwargs, node=None):
        if self.is_exception_class(cls):
            return ExcVal(cls, args, kwargs)
        if cls not in self.src.classes:
            self.unsupported(f"instantiation of unknown class {cls}", node)
        ct = self.reg.contract_for_ctor(cls)
        if ct is not None:
            return ct.apply(self, args, kwargs, node)
        ci = self.src.classes[cls]
        o = Obj(cls)
        if any(d.startswith("dataclass") for d in ci.decorators):
            self.dataclass_init(o, ci, args, kwargs, node)
            return o
        init = self.src.find_method(cls, "__init__")
        if init is not None:
            self.inline_log.add(init.key)
            self.run_body(init, [o] + list(args), kwargs, node)
        return o

    def dataclass_init(self, o: Obj, ci, args, kwargs, node=None):
        names = [n for n, _ in ci.fields_annot]
        args = list(args)
        for i, (n, default) in enumerate(ci.fields_annot):
            if i < len(args):
                o.fields[n] = args[i]
            elif n in kwargs:
                o.fields[n] = kwargs[n]
            elif default is not None:
                dv = self.ev(default, Frame(ci.module, {}))
                if isinstance(dv, SpecFn) and dv.meta.get("default_factory") is not None:
                    dv = self.call(dv.meta["default_factory"], [], {}, node)
                o.fields[n] = dv
            else:
                self.raise_exc("TypeError", f"{ci.name}: missing field {n}")
        for k in kwargs:
            if k not in names:
                self.raise_exc("TypeError", f"{ci.name}: unexpected field {k}")
        post = self.src.find_method(ci.name, "__post_init__")
        if post is not None:
            self.run_body(post, [o], {}, node)
        if any("frozen=True" in d for d in ci.decorators):
            o.frozen = True
