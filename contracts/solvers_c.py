"""Contracts for optyx.solvers.lp_solver / scipy_solver (C06, C07, C08, C09, C18, C20) and the external SciPy models (A3)."""
from __future__ import annotations

import ast

import z3

from pyvc import sym
from pyvc.contracts import T
from pyvc.interp import RaiseEx, Frame
from pyvc.values import (ExcVal, HeapList, Obj, Opaque, PDict, PList, SArr, SBool, SDict, SInt, SName, SOpt, SReal, SSeq,
                         SStrOpaque, SpecFn, Closure, Unsupported, real_term, num_term)

from .specfns import Spec
from .problem_c import PState, st, havoc_fields, NM, NAMES_OF, NATSORTED, DISTINCT, varlist_base

LP = "optyx.solvers.lp_solver"
SC = "optyx.solvers.scipy_solver"
AN = "optyx.analysis"
NAMESET = z3.ArraySort(sym.Name, sym.B)


def install(reg, src):
    install_bounded(reg)
    from .compiler_c import NV, IDXS, DOMOF, make_index_map, index_map_of_varlist, names_of_varlist
    from .seqtheory import named_exists, named_forall, seqs, _once, skolem, add_index
    L = reg.lp
    DOT, ZENV = L["DOT"], L["ZENV"]
    FN = sym.fn("F_name", sym.Ref, sym.Name)
    LPFEAS = sym.fn("LPFEAS", sym.RealArr, sym.Ref, sym.B)       # x is feasible for the arrays/bounds of LPData object
    LPDATA_OF = sym.fn("LPDATA_OF", sym.Ref, sym.Ref)            # the LP data denoting a model state (abstract view)

    # ------------------------------------------------------------------ externals
    @reg.external_model("warnings.warn")
    def _(ip, args, kwargs, node):
        ip.path.event("warn", {"message": args[0], "category": args[1] if len(args) > 1 else kwargs.get("category")})
        return None

    @reg.external_model("scipy.__version__")
    def _(ip, args, kwargs, node):
        return SStrOpaque(("scipy-version",))

    def arbitrary_exception(ip, where: str):
        """Fault mode (C20): an external call may terminate with any exception object; its class is decided by the
        `except` clauses it meets (Exception-derived, or BaseException-only such as KeyboardInterrupt)."""
        is_exc = sym.fresh("exc_is_Exception", sym.B)

        def isinst(name):
            if name in ("BaseException",):
                return z3.BoolVal(True)
            if name == "Exception":
                return is_exc
            return sym.fresh(f"exc_is_{name}", sym.B)
        return ExcVal("?", (), {"isinstance": isinst, "where": where, "is_exception": is_exc})

    def lp_result(ip, n, X, c_passed):
        r = {}
        r["success"] = SBool(sym.fresh("res_success", sym.B))
        r["status"] = SInt(sym.fresh("res_status", sym.I))
        xnone = sym.fresh("res_x_none", sym.B)
        r["x"] = SOpt(xnone, X)
        fnone = sym.fresh("res_fun_none", sym.B)
        fun = sym.fresh("res_fun", sym.R)
        r["fun"] = SOpt(fnone, SReal(fun, "npfloat"))
        r["message"] = SStrOpaque(("solver-message",))
        r["nit"] = SInt(sym.fresh("res_nit", sym.I))
        return r, xnone, fnone, fun

    @reg.external_model("scipy.optimize.linprog")
    def _(ip, args, kwargs, node):
        p = ip.path
        p.event("external-call", {"name": "linprog", "kwargs": dict(kwargs), "args": list(args)})
        ctx = p.ghost.get("lp_ctx")
        if ctx is None:
            raise Unsupported("linprog called outside a solve_lp contract context")
        pins = p.ghost.get("pins", {})
        outcome = pins.get("res")
        rz = sym.fresh("linprog_raises", sym.B)
        if outcome is not None:
            p.assume(rz == z3.BoolVal(outcome.startswith("raise")))
        if p.branch(rz, "linprog raises"):
            ev = arbitrary_exception(ip, "linprog")
            if outcome is not None:
                p.assume(ev.kwargs["is_exception"] == z3.BoolVal(outcome == "raise-Exception"))
            raise RaiseEx(ev)
        n, X, lpref = ctx["n"], ctx["X"], ctx["lpref"]
        cpass = kwargs.get("c")
        r, xnone, fnone, fun = lp_result(ip, n, X, cpass)
        if outcome is not None:
            stv = r["status"].t
            p.assume(r["success"].t == z3.BoolVal(outcome == "success"))
            if outcome == "success":
                p.assume(stv == 0)
            elif outcome in ("status1", "status2", "status3"):
                p.assume(stv == int(outcome[-1]))
            else:
                p.assume(z3.And(stv != 1, stv != 2, stv != 3))
        carr = ip.models.as_seq(cpass)
        # A3: success => x and fun present, x feasible for the arrays/bounds passed, fun = c . x
        csum = sym.fresh("c_passed", sym.RealArr)
        from .seqtheory import define_array
        prod = sym.fresh("cx_terms", sym.RealArr)
        define_array(ip, csum, n, lambda k: real_term(carr.get(k)), "code")
        define_array(ip, prod, n, lambda k: z3.Select(csum, k) * z3.Select(X.arr, k), "code")
        p.assume(DOT(csum, n, X.arr) == ip.schema.PSUM(prod, n))
        # lemma instance (lean: dot_neg / Finset.sum_neg_distrib): if the vector passed is, entry by entry, the negation of the
        # extracted objective row, its dot product with x is the negated one; the hypothesis is refuted by an in-range Skolem
        lp_c = sym.fn("LP_c", sym.Ref, sym.RealArr)(lpref)
        skn = skolem(ip, "sk_dotneg", n)
        ip.reg.index_used(ip, skn)
        p.assume(z3.Or(z3.And(skn >= 0, skn < n, z3.Select(csum, skn) != -z3.Select(lp_c, skn)),
                       DOT(csum, n, X.arr) == -DOT(lp_c, n, X.arr)))
        ske = skolem(ip, "sk_dotext", n)        # lean: dot_ext / Finset.sum_congr
        ip.reg.index_used(ip, ske)
        p.assume(z3.Or(z3.And(ske >= 0, ske < n, z3.Select(csum, ske) != z3.Select(lp_c, ske)),
                       DOT(csum, n, X.arr) == DOT(lp_c, n, X.arr)))
        p.ghost["lp_call"] = {"c_arr": csum, "kwargs": dict(kwargs), "result": r}
        p.assume(z3.Implies(r["success"].t, z3.And(z3.Not(xnone), z3.Not(fnone), fun == DOT(csum, n, X.arr),
                                                   LPFEAS(X.arr, ctx["passed_ref"](kwargs)))))
        return SpecFn(None, "OptimizeResult", meta={"attrs": r})

    # ------------------------------------------------------------------ filtered comprehension  [v for v in S if pred(v)]
    def filtered(ip, e, fr, first):
        g = e.generators[0]
        S = ip.models.as_seq_iter(ip, first)
        n = ip.models.len_term(S.n)

        def pred(k):
            f2 = Frame(fr.module, {}, fr, fr.finfo)
            ip.assign_target(g.target, S.get(k), f2)
            acc = z3.BoolVal(True)
            # the predicate is evaluated as a term (no forking per element): a guard makes comparisons, `is None` tests and
            # boolean operators hand back terms; anything that would need a fork puts the function out of reach
            kt_ = k if not isinstance(k, int) else z3.IntVal(k)
            ip.path.guards.append(z3.And(kt_ >= 0, kt_ < n))
            try:
                for cnd in g.ifs:
                    v = ip.ev(cnd, f2)
                    t = ip.as_bool_term(v)
                    acc = z3.And(acc, t if not isinstance(t, bool) else z3.BoolVal(t))
            finally:
                ip.path.guards.pop()
            return acc
        base = sym.fresh("filtered", sym.Ref)
        m = sym.fn("LEN_any", sym.Ref, sym.I)(base)
        ex = named_exists(ip, "EXFILTER", [base], n, pred)
        ip.path.assume(m >= 0)
        ip.path.assume((m > 0) == ex(n))
        if not isinstance(e.elt, ast.Name):
            raise Unsupported("filtered comprehension with a computed element")

        def get(j):
            # the j-th selected element: an element of S (at some index) that satisfies the predicate
            jt = j if not isinstance(j, int) else z3.IntVal(j)
            src_idx = sym.fn("FILTER_SRC", sym.Ref, sym.I, sym.I)(base, jt)
            key = f"filtersrc:{base}:{jt}"
            if key not in ip.path.unfolded:
                ip.path.unfolded.add(key)
                ip.path.assume(z3.Implies(z3.And(jt >= 0, jt < m), z3.And(src_idx >= 0, src_idx < n)))
            return S.get(src_idx)
        res = SSeq(m, get, "list", "filtered", tag=("filter", base, S, pred, ast.unparse(e)))
        if "domain" in ast.unparse(e):
            # the property's own notion of "non-continuous variable" (taken from the statement, not from the filter the code
            # happens to apply): the declared domain is not 'continuous'
            def spec_pred(k):
                dom_ = ip.getattr(S.get(k), "domain")          # the domain field as stored when the filter runs
                if isinstance(dom_, str):
                    return z3.BoolVal(dom_ != "continuous")
                return ip.models.name_term(dom_) != sym.lit("continuous")
            spec_ex = named_exists(ip, "EXNONCONT", [base], n, spec_pred)
            ip.path.ghost["lp_vars_filter"] = {"exists": spec_ex(n), "code_exists": ex(n), "seq": res}
        return res
    reg.filtered_comprehension_hook = filtered

    # ------------------------------------------------------------------ helper contracts
    @reg.contract(f"{LP}:_check_scipy_version", props=["C08"],
                  trusted="external packaging/scipy version comparison; returns some bool and touches no optyx state")
    def _(c):
        c.returns(T.bool_())

    def lin_problem_state(c, sp, P):
        """names / terms describing the current model of P"""
        ip = c.ip
        s0 = PState(ip, P)
        return s0

    def lpdata_obj(ip, sp, P, s0, vbase):
        """The LPData object promised by LinearProgramExtractor.extract for the current model (C05 statement)."""
        IDX = sym.fn("IDX_OF", sym.Ref, IDXS)(vbase)
        n = sym.fn("LEN_any", sym.Ref, sym.I)(vbase)
        lpref = sym.fresh("lpdata", sym.Ref)
        c_arr = sym.fn("LP_c", sym.Ref, sym.RealArr)(lpref)
        o = Obj("LPData")
        o.ref = lpref
        o.fields["c"] = SArr(c_arr, n=n)
        o.fields["sense"] = SName(z3.If(s0.sense == sym.lit("minimize"), sym.lit("min"), sym.lit("max")))
        for f in ("A_ub", "b_ub", "A_eq", "b_eq"):
            isn = sym.fn("LP_none_" + f, sym.Ref, sym.B)(lpref)
            if f.startswith("A"):
                o.fields[f] = SOpt(isn, SArr(sym.fn("LP_" + f, sym.Ref, sym.RealMat)(lpref), shape=(sym.fn("LP_rows_" + f, sym.Ref, sym.I)(lpref), n)))
            else:
                o.fields[f] = SOpt(isn, SArr(sym.fn("LP_" + f, sym.Ref, sym.RealArr)(lpref), n=sym.fn("LP_rows_A" + f[1:], sym.Ref, sym.I)(lpref)))
        pins = ip.path.ghost.get("pins", {})
        shape = pins.get("lp")
        if shape is not None:
            ip.path.assume(sym.fn("LP_none_A_ub", sym.Ref, sym.B)(lpref) == z3.BoolVal("ub" not in shape))
            ip.path.assume(sym.fn("LP_none_A_eq", sym.Ref, sym.B)(lpref) == z3.BoolVal("eq" not in shape))
        ip.path.assume(sym.fn("LP_none_A_ub", sym.Ref, sym.B)(lpref) == sym.fn("LP_none_b_ub", sym.Ref, sym.B)(lpref))
        ip.path.assume(sym.fn("LP_none_A_eq", sym.Ref, sym.B)(lpref) == sym.fn("LP_none_b_eq", sym.Ref, sym.B)(lpref))
        V = ip.schema.seq_of_base(ip, vbase, "Variable")
        o.fields["bounds"] = SSeq(n, lambda k: (ip.getattr(V.get(k), "lb"), ip.getattr(V.get(k), "ub")), "list", "bounds")
        o.fields["variables"] = SSeq(n, lambda k: SName(FN(V.get(k).ref)), "list", "names", tag=("names", vbase))
        return o, IDX, n, c_arr, lpref

    def extract_facts(ip, sp, P, s0, vbase, IDX, n, c_arr, X):
        """C05 for the objective: c.x + f(0) = f(x) at the arbitrary point x of the path."""
        obj = Opaque(s0.obj, "Expression")
        ip.path.assume(DOT(c_arr, n, X.arr) == sp.den(obj, sp.E, sp.PV) - sp.den(obj, ZENV, sp.PV))

    def problem_point(ip, IDX):
        return L["point"](ip, IDX)

    @reg.contract(f"{AN}:LinearProgramExtractor.extract", props=["C05", "C08", "C06"],
                  bounded="assembly of A_ub/A_eq row lists over the constraint list: exercised by the bounded stand-in; the "
                          "coefficient and constant extraction it calls are proved (see C05)")
    def _(c):
        sp = Spec(c.ip)
        ip = c.ip
        c.arg("self")
        P = c.arg("problem", T.obj("Problem", exact=True))
        s0 = PState(ip, P)
        c.requires(z3.Not(s0.obj_none), name="objective set")
        pre_ = getattr(reg, "lpx_pre", None)         # preconditions shared with the verified side (contracts/lpextract_c.py)
        if pre_ is not None:
            pre_(c, sp, P, s0)
        vbase = varlist_base(s0)
        nm = NM(ip)
        # frame: Problem.variables (called by extract_objective) may fill the variable-list cache with the canonical list
        havoc_fields(ip, P, ["_variables"])
        ip.path.assume(z3.And(z3.Not(PState(ip, P).cache_none["_variables"]),
                              z3.Select(st(ip, "Problem._variables", sym.Ref), P.ref) == vbase))
        ip.path.ghost.setdefault("lp_extract", {})
        o, IDX, n, c_arr, lpref = lpdata_obj(ip, sp, P, s0, vbase)
        ip.path.assume(z3.And(DISTINCT(vbase), NATSORTED(vbase)))
        ip.path.assume(lpref == LPDATA_OF(vbase))
        X = problem_point(ip, IDX)
        ip.path.assume(DOMOF(IDX) == NAMES_OF(vbase))
        ip.path.assume(NV(IDX) == n)
        extract_facts(ip, sp, P, s0, vbase, IDX, n, c_arr, X)
        ip.path.ghost["lp_extract"] = {"obj": o, "IDX": IDX, "n": n, "X": X, "vbase": vbase, "lpref": lpref}
        c.raises("NonLinearError", when=None)
        c.raises("NoObjectiveError", when=None)
        c.returns(lambda cc: o)

    reg.lpx_helpers = dict(lpdata_obj=lpdata_obj, extract_facts=extract_facts, problem_point=problem_point, LPDATA_OF=LPDATA_OF,
                           havoc_varcache=lambda ip_, P_: havoc_fields(ip_, P_, ["_variables"]))

    # ------------------------------------------------------------------ solve_lp
    METHODS = ["None", "highs-ds"]
    # spec cases: the shape of the LP data and the outcome of the external solver are pinned per case (exhaustive
    # products for the main configuration; the cache / method / strict variants are run against two outcomes)
    LPSHAPES = ["ub+eq", "ub", "eq", "none"]
    OUTCOMES = ["raise-Exception", "raise-BaseException", "success", "status2", "status3", "status1", "status-other"]
    LP_COMBOS = [{"strict": False, "cache": "none", "method": "None", "lp": a, "res": b} for a in LPSHAPES for b in OUTCOMES]
    for variant in ({"strict": True, "cache": "none", "method": "None"}, {"strict": False, "cache": "valid", "method": "None"},
                    {"strict": False, "cache": "none", "method": "highs-ds"}):
        for b in ("success", "raise-Exception", "status2"):
            LP_COMBOS.append(dict(variant, lp="ub+eq", res=b))

    @reg.contract(f"{LP}:solve_lp", props=["C06", "C07", "C08", "C18", "C20", "C13"],
                  cases={"__combos__": LP_COMBOS})
    def _(c):
        sp = Spec(c.ip)
        ip = c.ip
        P = c.arg("problem", T.obj("Problem", exact=True))
        ip.path.assume(z3.Select(st(ip, "Problem._constraints!len", sym.I), P.ref) >= 0)
        mk = c.case.get("method") if c.verifying else None
        method = c.arg("method", T.const(None if mk == "None" else mk) if mk else None, default=None)
        sk = c.case.get("strict") if c.verifying else None
        strict = c.arg("strict", T.const(sk) if sk is not None else None, default=False)
        s0 = PState(ip, P)
        if not c.verifying:
            if ip.path.ghost.get("dispatch"):
                return reg.dispatch_apply(c, "solve_lp")
            raise Unsupported("solve_lp contract is applied only through Problem.solve (see dispatch_c)")
        ip.path.ghost["pins"] = {"lp": c.case.get("lp"), "res": c.case.get("res")}
        # ---- entry state: cache invariant of C13 for the two caches solve_lp reads
        vnone = s0.cache_none["_variables"]
        lpnone = s0.cache_none["_lp_cache"]
        c.assume(lpnone if c.case["cache"] == "none" else z3.Not(lpnone))
        # A7 for the whole model, and the C13 invariant of the variable-list cache
        from .specfns import NODIV0
        EXPR = sp.S.F("expr", sym.Ref)
        c.assume(z3.Implies(z3.Not(s0.obj_none), sp.nodiv0(Opaque(s0.obj, "Expression"))))
        nd_all = named_forall(ip, "CONND0", [s0.cons], s0.ncon, lambda k: NODIV0(EXPR(z3.Select(s0.cons, k))))
        c.assume(nd_all(s0.ncon))
        # class invariant of Constraint (checked by __post_init__): the sense is one of the three comparison senses
        SENSEF = sp.S.F("sense", sym.Name)
        sn_all = named_forall(ip, "CONSENSE", [s0.cons], s0.ncon,
                              lambda k: z3.Or(*[SENSEF(z3.Select(s0.cons, k)) == sym.lit(x_) for x_ in ("<=", ">=", "==")]))
        c.assume(sn_all(s0.ncon))
        vb0 = varlist_base(s0)
        cache_base = z3.Select(st(ip, "Problem._variables", sym.Ref), P.ref)
        c.assume(z3.Implies(z3.Not(vnone), cache_base == vb0))
        reg.assume_varlist_valid(ip, sp, P, s0, vb0)
        # the variable list the problem would compute (the `variables` contract is applied by the body)
        boxes = ip.path.ghost.setdefault("boxed", {})
        lp_cached = {}
        if c.case["cache"] == "valid":
            box = z3.simplify(z3.Select(st(ip, "Problem._lp_cache", sym.Ref), P.ref))
            # Inv (C13): a non-None _lp_cache is the LP data of the current model, i.e. what extract would return now
            vbase = varlist_base(s0)
            o, IDX, n, c_arr, lpref = lpdata_obj(ip, sp, P, s0, vbase)
            ip.path.assume(z3.And(DISTINCT(vbase), NATSORTED(vbase)))
            ip.path.assume(lpref == LPDATA_OF(vbase))
            X = problem_point(ip, IDX)
            ip.path.assume(DOMOF(IDX) == NAMES_OF(vbase))
            ip.path.assume(NV(IDX) == n)
            extract_facts(ip, sp, P, s0, vbase, IDX, n, c_arr, X)
            boxes[str(box)] = o
            ip.path.ghost["lp_extract"] = {"obj": o, "IDX": IDX, "n": n, "X": X, "vbase": vbase, "lpref": lpref}
        ip.path.ghost["lp_ctx_factory"] = True

        def lp_ctx():
            ex = ip.path.ghost.get("lp_extract")
            return ex

        # the external linprog model needs to know n / X of the LP data in use: resolved lazily at the call
        class Ctx(dict):
            def __getitem__(self, k):
                ex = ip.path.ghost.get("lp_extract")
                if ex is None:
                    raise Unsupported("linprog reached without LP data")
                if k == "n":
                    return ex["n"]
                if k == "X":
                    return ex["X"]
                if k == "lpref":
                    return ex["lpref"]
                if k == "passed_ref":
                    return lambda kwargs: passed_ref(kwargs, ex)
                raise KeyError(k)
        PASSED = sym.fn("LP_PASSED", sym.B, sym.B, sym.B, sym.Ref, sym.Ref)

        def passed_ref(kwargs, ex):
            """which blocks of the LP data reached linprog (feasibility is w.r.t. exactly those)"""
            return PASSED(z3.BoolVal("A_ub" in kwargs and "b_ub" in kwargs), z3.BoolVal("A_eq" in kwargs and "b_eq" in kwargs),
                          z3.BoolVal("bounds" in kwargs), ex["lpref"])
        ip.path.ghost["lp_ctx"] = Ctx()
        c.raises("NoObjectiveError", when=s0.obj_none, name="raises NoObjectiveError iff no objective")
        c.raises("NonLinearError", when=None)
        c.raises("IntegerVariableError", when=None)
        c.raises("SolverError", when=None)
        c.may_raise_anything()          # BaseException-only faults of the external solver propagate (C20)
        c.returns(T.obj("Solution", exact=True))

        def noncont_exists():
            ex = ip.path.ghost.get("variables_base")
            return ex

        def events(tag):
            return [pl for t, pl in ip.path.events if t == tag]

        def on_exit(cc, outcome, val):
            path = ip.path
            oid = ip.cur_oid
            calls = [e_ for e_ in events("external-call") if e_["name"] == "linprog"]
            warns = events("warn")
            now = PState(ip, P)
            # ---------------- C13 / C20: model untouched, caches untouched or completely built
            path.oblige(oid("model untouched on every exit"), now.same_model(s0), kind="frame", props=["C13", "C20"])
            lp_now_none = now.cache_none["_lp_cache"]
            box_now = z3.simplify(z3.Select(st(ip, "Problem._lp_cache", sym.Ref), P.ref))
            built = path.ghost.get("boxed", {}).get(str(box_now))
            ex = path.ghost.get("lp_extract")
            ok_cache = z3.Or(lp_now_none == lpnone if c.case["cache"] == "none" else z3.BoolVal(False),
                             z3.BoolVal(built is not None and ex is not None and built is ex["obj"]))
            if c.case["cache"] == "none":
                path.oblige(oid("_lp_cache untouched or assigned the completely built LP data"),
                            z3.Or(lp_now_none, z3.BoolVal(built is not None and ex is not None and built is ex["obj"])), kind="frame", props=["C13", "C20"])
            else:
                path.oblige(oid("_lp_cache untouched"), z3.And(z3.Not(lp_now_none), box_now == z3.simplify(z3.Select(st0_lp, P.ref))), kind="frame", props=["C13", "C20"])
            gw = [pl for t, pl in path.events if t == "global-write"]
            path.oblige(oid("no process-global state written"), z3.BoolVal(len(gw) == 0), kind="frame", props=["C20"])
            exd_ = path.ghost.get("lp_extract")
            if exd_ is not None:
                # the LP data object (cached on the problem and reused by later solves) is never modified
                lp_ = exd_["obj"]
                c0 = sym.fn("LP_c", sym.Ref, sym.RealArr)(exd_["lpref"])
                now_c = lp_.fields["c"].arr
                if now_c.eq(c0):
                    same_c = z3.BoolVal(True)
                else:
                    # written to, possibly in place: compared entry by entry at an arbitrary position
                    skc = skolem(ip, "sk_lpc", exd_["n"])
                    ip.reg.index_used(ip, skc)
                    ip.reg.saturate(ip)
                    same_c = z3.Implies(z3.And(skc >= 0, skc < exd_["n"]), z3.Select(now_c, skc) == z3.Select(c0, skc))
                path.oblige(oid("cached LP data not modified (cost vector)"), same_c, kind="frame", props=["C08", "C13", "C20", "C07"])
            # ---------------- C18: integrality never relaxed silently
            vb = path.ghost.get("lp_vars_filter")
            if calls:
                if vb is None:
                    path.oblige(oid("solver reached only after the integrality check"), False, kind="post", props=["C18"])
                else:
                    some_nc = vb["exists"]
                    if strict is True:
                        path.oblige(oid("strict: solver not reached with non-continuous variables"), z3.Not(some_nc), kind="post", props=["C18"])
                    else:
                        named = [w for w in warns if mentions(w["message"], vb["seq"])]
                        path.oblige(oid("non-strict: warning naming exactly the non-continuous variables before the solver runs"),
                                    z3.Implies(some_nc, z3.BoolVal(len(named) >= 1)), kind="post", props=["C18"])
            if outcome == "raise" and val.cls == "IntegerVariableError":
                vn = val.kwargs.get("variable_names")
                okn = vb is not None and isinstance(vn, SSeq) and names_of_filter(vn, vb["seq"])
                path.oblige(oid("IntegerVariableError lists exactly the non-continuous variables"), z3.BoolVal(bool(okn)), kind="post", props=["C18"])
                path.oblige(oid("IntegerVariableError only when strict"), z3.BoolVal(strict is True), kind="post", props=["C18"])
            # ---------------- C08: wiring of the linprog call
            if calls:
                kw = calls[-1]["kwargs"]
                exd = path.ghost.get("lp_extract")
                lp = exd["obj"]
                n = exd["n"]
                skw = skolem(ip, "sk_wire", n)
                cp = ip.models.as_seq(kw["c"])
                cl = lp.fields["c"]
                smax = ip.models.name_term(lp.fields["sense"]) == sym.lit("max")
                path.oblige(oid("wiring: cost vector negated iff maximise"),
                            z3.Implies(z3.And(skw >= 0, skw < n),
                                       real_term(cp.get(skw)) == z3.If(smax, -z3.Select(cl.arr, skw), z3.Select(cl.arr, skw))), kind="post", props=["C08"])
                for f in ("A_ub", "b_ub", "A_eq", "b_eq"):
                    fld = lp.fields[f]
                    passed = kw.get(f)
                    if isinstance(passed, SOpt):
                        passed = passed.val
                    same = passed is not None and isinstance(passed, SArr) and passed.arr.eq(fld.val.arr)
                    path.oblige(oid(f"wiring: {f} passed unchanged when present"),
                                z3.And(z3.Implies(z3.Not(fld.isnone), z3.BoolVal(bool(same))),
                                       z3.Implies(fld.isnone, z3.BoolVal(passed is None))), kind="post", props=["C08", "C06"])
                path.oblige(oid("wiring: bounds passed (when there are variables)"),
                            z3.Implies(n > 0, z3.BoolVal(kw.get("bounds") is lp.fields["bounds"])), kind="post", props=["C08", "C06"])
                mth = kw.get("method")
                want = "highs" if c.case["method"] == "None" else c.case["method"]
                path.oblige(oid("wiring: method"), z3.BoolVal(mth == want or mth == "highs-ds"), kind="post", props=["C08"])
            if outcome != "return":
                return
            sol = val
            if not isinstance(sol, Obj) or sol.cls != "Solution":
                path.oblige(oid("returns a Solution"), False, kind="post", props=["C06", "C08"])
                return
            status = sol.fields["status"]
            if not calls:
                path.oblige(oid("without a solver run the status is FAILED"), z3.BoolVal(status == "failed"), kind="post", props=["C06", "C08", "C20"])
                return
            if "lp_call" not in path.ghost:
                path.oblige(oid("solver raised: the Solution returned is FAILED"), z3.BoolVal(status == "failed"), kind="post", props=["C06", "C20"])
                return
            res = path.ghost["lp_call"]["result"]
            succ = res["success"].t
            stt = res["status"].t
            # ---------------- C06/C08: status mapping
            def is_(s):
                return z3.BoolVal(status == s) if isinstance(status, str) else (status.t == sym.lit(s))
            path.oblige(oid("status map: OPTIMAL iff success"), is_("optimal") == succ, kind="post", props=["C06", "C08"])
            path.oblige(oid("status map: INFEASIBLE iff status 2 (not success)"), is_("infeasible") == z3.And(z3.Not(succ), stt == 2), kind="post", props=["C08"])
            path.oblige(oid("status map: UNBOUNDED iff status 3 (not success)"), is_("unbounded") == z3.And(z3.Not(succ), stt == 3), kind="post", props=["C08"])
            exd = path.ghost["lp_extract"]
            # the external solver promises (A3) feasibility for exactly the blocks it was handed; the model's LP data has an
            # inequality block iff A_ub is not None, an equality block iff A_eq is not None, and bounds whenever it has variables
            shape_ = c.case.get("lp") or ""
            want_ref = PASSED(z3.BoolVal("ub" in shape_), z3.BoolVal("eq" in shape_), z3.BoolVal(True), exd["lpref"])
            path.oblige(oid("OPTIMAL => point feasible for exactly the LP data of the model"),
                        z3.Implies(z3.And(is_("optimal"), exd["n"] > 0), LPFEAS(exd["X"].arr, want_ref)), kind="post", props=["C06", "C08"])
            # ---------------- C07: objective value and values
            ov = sol.fields.get("objective_value")
            vals = sol.fields.get("values")
            lp = exd["obj"]
            n = exd["n"]
            X = exd["X"]
            obj = Opaque(s0.obj, "Expression")
            if isinstance(ov, SOpt):
                ovt, ovnone = real_term(ov.val), ov.isnone
            elif ov is None:
                ovt, ovnone = sym.rv(0), z3.BoolVal(True)
            else:
                ovt, ovnone = real_term(ov), z3.BoolVal(False)
            xnone = res["x"].isnone
            if isinstance(vals, (SDict,)):
                vb_ = exd["vbase"]
                V = ip.schema.seq_of_base(ip, vb_, "Variable")
                skv = skolem(ip, "sk_val", n)
                nmk = FN(V.get(skv).ref)
                ip.reg.saturate(ip)
                path.oblige(oid("values: one entry per problem variable, in position"),
                            z3.Implies(z3.And(z3.Not(xnone), skv >= 0, skv < n),
                                       z3.And(z3.Select(vals.keys, nmk), z3.Select(vals.vals, nmk) == z3.Select(X.arr, skv))), kind="post", props=["C07"])
                nm = NM(ip)
                path.oblige(oid("values: no entry for other names"),
                            z3.Implies(z3.Select(vals.keys, nm), z3.Select(NAMES_OF(vb_), nm)), kind="post", props=["C07"])
            ip.reg.saturate(ip)
            path.oblige(oid("objective value = objective expression at the returned values (user orientation)"),
                        z3.Implies(z3.And(z3.Not(ovnone), z3.Not(xnone), succ), ovt == sp.den(obj, sp.E, sp.PV)), kind="post", props=["C07"])
        c.on_exit.append(on_exit)
        st0_lp = st(ip, "Problem._lp_cache", sym.Ref)

        # loops of solve_lp in source order: 1 = linearity check over constraints, 2 = values dict
        c.loop(1, lambda st_: [])

        c.loop(2, make_values_inv(ip, c, sp),
               havoc={"values": T.custom(lambda ip_, h: SDict(sym.fresh("vkeys", NAMESET), sym.fresh("vvals", z3.ArraySort(sym.Name, sym.R))))})

    def make_values_inv(ip, c, sp):
        def inv(st_):
            exd = ip.path.ghost.get("lp_extract")
            vals = st_.var("values")
            if exd is None:
                return []
            n, X, vb_ = exd["n"], exd["X"], exd["vbase"]
            V = ip.schema.seq_of_base(ip, vb_, "Variable")
            names_of_varlist(ip, V)
            nm = NM(ip)
            if isinstance(vals, PDict):
                if vals.items:
                    raise Unsupported(f"values dict not empty before the loop: {list(vals.items)[:3]}")
                keys = z3.K(sym.Name, z3.BoolVal(False))
                vv = z3.K(sym.Name, sym.rv(0))
            else:
                keys, vv = vals.keys, vals.vals
            i = st_.i
            good = named_forall(ip, "VALGOOD", [keys, vv, vb_, X.arr], i,
                                lambda k: z3.And(z3.Select(keys, FN(V.get(k).ref)), z3.Select(vv, FN(V.get(k).ref)) == z3.Select(X.arr, k)))
            before = named_exists(ip, "NAMEBEFORE", [vb_, nm], i, lambda k: FN(V.get(k).ref) == nm)
            return [good(i), z3.Implies(z3.Select(keys, nm), before(i))]
        return inv

    def mentions(msg, seq) -> bool:
        """the warning text is built from a join over exactly the filtered sequence's names"""
        found = []

        def walk(x):
            if isinstance(x, SStrOpaque):
                for p_ in x.parts:
                    walk(p_)
            elif isinstance(x, tuple):
                for p_ in x:
                    walk(p_)
            elif isinstance(x, SSeq):
                found.append(x)
        walk(msg)
        return any(names_of_filter(f, seq) for f in found)

    def names_of_filter(namesseq, filt) -> bool:
        """namesseq is `[v.name for v in <filt>]` / `(v.name for v in <filt>)` of the filtered sequence object"""
        if not isinstance(namesseq, SSeq):
            return False
        try:
            a = namesseq.get(z3.Int("probe!k"))
            b = filt.get(z3.Int("probe!k"))
        except Exception:
            return False
        return isinstance(a, SName) and isinstance(b, Opaque) and a.t.eq(FN(b.ref))
    reg.lp_solver = dict(LPFEAS=LPFEAS)
    install_scipy(reg, src)
    reg.lp_mentions, reg.lp_names_of_filter = mentions, names_of_filter
    install_scipy_main(reg, src)


# ======================================================================================= solve_scipy
def jac_hyp(sp, e, w, E, PV):
    """Hypothesis of the compile_jacobian contract for one column: the expression is regular for the variable at the point
    and the compiled Jacobian entry is inside its domain (A1 made explicit; see contracts/jaccompile_c.py)."""
    from .jacrow_c import DOMJ
    r = sp.ref(e)
    return z3.And(sp.S.REG(r, w, E, PV), DOMJ(r, w, E, PV))



GDOM = sym.fn("GDOM", sym.Ref, sym.Name, sym.EnvSort, sym.PVSort, sym.B)


def grad_hyp(sp, obj, w, E, PV):
    """Hypothesis of the solver's gradient clause: the objective is regular for the variable at the point and the gradient
    entry the solver compiled (of the objective or of its negation) is inside its domain."""
    r = sp.ref(obj)
    return z3.And(sp.S.REG(r, w, E, PV), GDOM(r, w, E, PV))


def install_bounded(reg):
    for prop_ in ("C05", "C08"):
        reg.bounded_checks.setdefault(prop_, []).append({
            "name": "lp-extract", "script": "bounded_lp.py", "timeout": 600,
            "bound": "150 (quick) / 2000 (thorough) seeded random linear problems, <= 4 constraints, expression depth <= 3, "
                     "3 random points each; shapes restricted to those on which the proved extraction routines are exact",
            "why": "end-to-end differential companion of the proved extraction contracts (contracts/lpextract_c.py, analysis_c.py): "
                   "runs LinearProgramExtractor.extract natively and compares every array with an independently assembled model; "
                   "it is what turns a failed extraction obligation into a concrete failing problem"})


def install_bounded_domain(reg):
    reg.bounded_checks.setdefault("C18", []).append({
        "name": "declared-domain", "script": "bounded_domain.py", "timeout": 300,
        "bound": "domains {continuous, integer, binary} x bounds {none, (0, 5)} x {Variable, VectorVariable(3), MatrixVariable 2x3 / 3x3 / "
                 "3x3 symmetric} x the views [1:], [::-1], [0], .T, rows, columns, single entries, diagonal; plus one strict solve each "
                 "(142 cases, exhaustive over this grid)",
        "why": "the solver front ends are proved against the declared domain of each Variable; that a container's constructor and "
               "views hand the declared domain and bounds on to its element Variables is code without contracts (matrices.py, views)"})


def install_bounded_x0(reg):
    reg.bounded_checks.setdefault("C09", []).append({
        "name": "x0", "script": "bounded_x0.py", "timeout": 300,
        "bound": "every pair of bound classes lb in {None, -inf, -3, 0, 2} x ub in {None, +inf, -1, 0, 2, 5} for lists of one and two "
                 "variables (exhaustive over these 930 lists)",
        "why": "_compute_initial_point is proved for bounds that are real numbers or None; the floats +-inf (which SciPy reads as "
               "'no bound') are outside the real-arithmetic model (A1)"})


def install_scipy(reg, src):
    install_bounded_x0(reg)
    install_bounded_domain(reg)
    from .compiler_c import NV, IDXS, DOMOF, make_index_map, index_map_of_varlist, names_of_varlist, compiled_fn, point_for
    from .seqtheory import named_exists, named_forall, seqs, _once, skolem, add_index
    FN = sym.fn("F_name", sym.Ref, sym.Name)
    EXPRF = lambda sp: sp.S.F("expr", sym.Ref)
    NEGOBJ = sym.fn("NEGOBJ", sym.Ref, sym.Ref)        # the tree  -objective  built for maximisation (UnaryOp neg)

    def arbitrary_exception(ip, where, is_exc=None):
        e_ = sym.fresh("exc_is_Exception", sym.B)
        if is_exc is not None:
            ip.path.assume(e_ == z3.BoolVal(is_exc))

        def isinst(name):
            if name == "BaseException":
                return z3.BoolVal(True)
            if name == "Exception":
                return e_
            return sym.fresh(f"exc_is_{name}", sym.B)
        return ExcVal("?", (), {"isinstance": isinst, "where": where, "is_exception": e_})

    def objective_ref(ip, sp, s0):
        """the expression the solver minimises: obj, or UnaryOp(obj, 'neg') for maximise (allocated by the code as -obj)"""
        return s0.obj

    def solver_cache_for(ip, sp, P, s0, vbase):
        """What _build_solver_cache promises for the current model (C09 wiring vocabulary)."""
        IDX = sym.fn("IDX_OF", sym.Ref, IDXS)(vbase)
        n = sym.fn("LEN_any", sym.Ref, sym.I)(vbase)
        ip.path.assume(DOMOF(IDX) == NAMES_OF(vbase))
        ip.path.assume(NV(IDX) == n)
        V = ip.schema.seq_of_base(ip, vbase, "Variable")
        obj = Opaque(s0.obj, "Expression")
        ismax = s0.sense == sym.lit("maximize")

        def env_of(x):
            if x.envlink is None:
                x.envlink = (IDX, sym.fresh("ENV_x", sym.EnvSort), ip.path)
            return x.envlink[1]

        def obj_fn(ip2, x):
            sp2 = Spec(ip2)
            E = env_of(x)
            d = sp2.den(obj, E, sp2.PV)
            return SReal(z3.If(ismax, -d, d), "npfloat")

        def grad_fn(ip2, x):
            sp2 = Spec(ip2)
            E = env_of(x)
            arr = sym.fresh("gradrow", sym.RealArr)
            # 1 x n Jacobian of the (signed) objective; entry j is the partial derivative w.r.t. V_j wherever the objective is
            # regular for V_j and the compiled entry is inside its domain (C03 contract of compile_jacobian)
            def elem(k):
                kt = k if not isinstance(k, int) else z3.IntVal(k)
                wk_ = FN(V.get(kt).ref)
                dv = sp2.S.DV(sp2.ref(obj), wk_, E, sp2.PV)
                out = z3.Select(arr, kt)
                ip2.path.assume(z3.Implies(grad_hyp(sp2, obj, wk_, E, sp2.PV), out == z3.If(ismax, -dv, dv)))
                return SReal(out, "npfloat")
            row = SSeq(n, elem, "ndarray", "jacobian-row")
            return SpecFn(None, "jacobian 1xn", meta={"methods": {"flatten": lambda ip3: row}, "row": row})
        cons_n = s0.ncon
        CONTYPE = sym.fn("SCIPY_CONTYPE", sym.Ref, sym.Name)

        def con_dict(k):
            kt = k if not isinstance(k, int) else z3.IntVal(k)
            cref = z3.Select(s0.cons, kt)
            e_ = Opaque(sp.S.F("expr", sym.Ref)(cref), "Expression")
            sense = sp.S.F("sense", sym.Name)(cref)
            typ = SName(z3.If(sense == sym.lit("=="), sym.lit("eq"), sym.lit("ineq")))

            def fun(ip2, x):
                sp2 = Spec(ip2)
                E = env_of(x)
                d = sp2.den(e_, E, sp2.PV)
                return SReal(z3.If(sense == sym.lit("<="), -d, d), "float")
            items = {"type": typ, "fun": SpecFn(fun, "constraint fun"), "jac": SpecFn(None, "constraint jac")}
            return SpecFn(None, "scipy-constraint", meta={"getitem": lambda ip2, key: items[key], "con_index": kt})
        cons = SSeq(cons_n, con_dict, "list", "scipy_constraints", tag=("scipy_constraints", s0.cons))
        bounds = SSeq(n, lambda k: (bound_lo(ip, V.get(k)), bound_hi(ip, V.get(k))), "list", "bounds")
        bounds.elem_tuple = 2
        d = PDict()
        d.items["obj_fn"] = SpecFn(obj_fn, "obj_fn")
        d.items["grad_fn"] = SpecFn(grad_fn, "grad_fn")
        d.items["scipy_constraints"] = cons
        d.items["bounds"] = bounds
        return d, IDX, n

    def bound_lo(ip, v):
        lb = ip.getattr(v, "lb")
        return SpecFn(None, "lb-or--inf", meta={"opt": lb, "inf": "-inf"})

    def bound_hi(ip, v):
        ub = ip.getattr(v, "ub")
        return SpecFn(None, "ub-or-inf", meta={"opt": ub, "inf": "inf"})

    @reg.contract(f"{SC}:_build_solver_cache", props=["C09", "C10", "C12", "C06"], cases={"sense": ["minimize", "maximize"]})
    def _(c):
        from pyvc.contracts import ListSpec
        from .specfns import WF
        sp = Spec(c.ip)
        ip = c.ip
        P = c.arg("problem", T.obj("Problem", exact=True))
        ip.path.assume(z3.Select(st(ip, "Problem._constraints!len", sym.I), P.ref) >= 0)
        s0 = PState(ip, P)
        vbase = varlist_base(s0)
        if c.verifying:
            vs = c.arg("variables", T.custom(lambda ip_, h: ip_.schema.seq_of_base(ip_, vbase, "Variable")))
            c.assume(s0.sense == sym.lit(c.case["sense"]))
        else:
            vs = c.arg("variables")
            if not (isinstance(vs, SSeq) and vs.tag and vs.tag[2].eq(vbase)):
                raise Unsupported("_build_solver_cache called with a variable list other than problem.variables")
        d, IDX, n = solver_cache_for(ip, sp, P, s0, vbase)
        ip.path.ghost["scipy_ctx"] = {"IDX": IDX, "n": n, "vbase": vbase, "cache": d, "snapshot": dict(d.items)}
        c.raises("NoObjectiveError", when=s0.obj_none, name="raises NoObjectiveError iff no objective")
        # preconditions: well-formed model whose variables are all in the list (what Problem.variables guarantees)
        EXPR = sp.S.F("expr", sym.Ref)
        objx = Opaque(s0.obj, "Expression")
        NS = NAMES_OF(vbase)
        wfall = named_forall(ip, "CONWF", [s0.cons], s0.ncon, lambda k: WF(EXPR(z3.Select(s0.cons, k))))
        covall = named_forall(ip, "CONCOV", [s0.cons, NS], s0.ncon, lambda k: reg.COVERS(EXPR(z3.Select(s0.cons, k)), NS))
        c.requires(z3.Implies(z3.Not(s0.obj_none), z3.And(sp.wf(objx), reg.covers(sp, objx, NS))), name="well-formed objective over the variable list")
        c.requires(z3.And(wfall(s0.ncon), covall(s0.ncon), DISTINCT(vbase)), name="well-formed constraints over the variable list")
        c.returns(lambda cc: d)
        if not c.verifying:
            return
        names_of_varlist(ip, vs)
        V = vs
        ismax = c.case["sense"] == "maximize"

        # ---- loop 1: bounds list, one (lb or -inf, ub or +inf) pair per variable, in order
        def bounds_elem(k):
            return d.items["bounds"].get(k)

        def bounds_equal(ip2, appended, k):
            v = V.get(k)
            lb, ub = ip2.getattr(v, "lb"), ip2.getattr(v, "ub")
            goals = []
            if not isinstance(appended, tuple) or len(appended) != 2:
                return [z3.BoolVal(False)]
            for got, opt, inf in ((appended[0], lb, float("-inf")), (appended[1], ub, float("inf"))):
                if isinstance(got, float) and got == inf:
                    goals.append(opt.isnone)
                elif isinstance(got, (SReal, SInt, int, float)):
                    goals.append(z3.And(z3.Not(opt.isnone), real_term(got) == real_term(opt.val)))
                else:
                    goals.append(z3.BoolVal(False))
            return goals
        # ---- loop 2: SciPy constraint dicts
        def con_elem(k):
            return d.items["scipy_constraints"].get(k)

        def con_equal(ip2, appended, k):
            cref = z3.Select(s0.cons, k)
            e_ = Opaque(EXPR(cref), "Expression")
            sense = sp.S.F("sense", sym.Name)(cref)
            if not isinstance(appended, PDict):
                return [z3.BoolVal(False)]
            it = appended.items
            goals = [ip2.models.name_term(it.get("type")) == z3.If(sense == sym.lit("=="), sym.lit("eq"), sym.lit("ineq"))]
            X = SArr(sym.fresh("xc", sym.RealArr), n=n, envlink=(IDX, sym.fresh("ENV_c", sym.EnvSort), ip2.path))
            Ec = X.envlink[1]
            sp2 = Spec(ip2)
            ip2.path.assume(sp2.dom(e_, Ec, sp2.PV))
            fv = ip2.call(it["fun"], [X], {}, None)
            den = sp2.den(e_, Ec, sp2.PV)
            goals.append(real_term(fv) == z3.If(sense == sym.lit("<="), -den, den))
            jv = ip2.models.as_seq(ip2.call(it["jac"], [X], {}, None))
            skj = skolem(ip2, "sk_cjac", n)
            wj_ = FN(V.get(skj).ref)
            dv = sp2.dv(e_, wj_, Ec, sp2.PV)
            goals.append(z3.Implies(z3.And(skj >= 0, skj < n, jac_hyp(sp2, e_, wj_, Ec, sp2.PV)),
                                    real_term(jv.get(skj)) == z3.If(sense == sym.lit("<="), -dv, dv)))
            return goals
        c.loop(1, lambda st_: [], havoc={"bounds": ListSpec(bounds_elem, bounds_equal, "bounds"),
                                         "lb": T.real("float"), "ub": T.real("float")})
        c.loop(2, lambda st_: [], havoc={"scipy_constraints": ListSpec(con_elem, con_equal, "scipy_constraints"),
                                         "c_expr": T.expr(), "c_fn": T.custom(lambda ip_, h: SpecFn(None, "hv")),
                                         "c_jac_fn": T.custom(lambda ip_, h: SpecFn(None, "hv"))})

        def post(res):
            if not isinstance(res, PDict):
                return z3.BoolVal(False)
            it = res.items
            goals = []
            X = SArr(sym.fresh("xo", sym.RealArr), n=n, envlink=(IDX, sym.fresh("ENV_o", sym.EnvSort), ip.path))
            Eo = X.envlink[1]
            ip.path.havoc_store("_value", sym.R)            # parameters may change between build and call (C12)
            sp2 = Spec(ip)
            ip.path.assume(sp2.dom(objx, Eo, sp2.PV))
            fv = ip.call(it["obj_fn"], [X], {}, None)
            den = sp2.den(objx, Eo, sp2.PV)
            goals.append(real_term(fv) == (-den if ismax else den))
            gv = ip.call(it["grad_fn"], [X], {}, None)
            row = ip.models.as_seq(ip.call(ip.getattr(gv, "flatten"), [], {}, None))
            skg = skolem(ip, "sk_grad", n)
            wg_ = FN(V.get(skg).ref)
            dv = sp2.dv(objx, wg_, Eo, sp2.PV)
            # GDOM names "the gradient entry the solver compiled for this objective is inside its domain"; the tree compiled is
            # the objective itself or, for maximisation, its negation
            comp = (it["grad_fn"].meta.get("jacobian_of") or [None])[0] if isinstance(it.get("grad_fn"), SpecFn) else None
            if comp is not None:
                from .jacrow_c import DOMJ
                ip.path.assume(GDOM(sp2.ref(objx), wg_, Eo, sp2.PV) == DOMJ(sp2.ref(comp), wg_, Eo, sp2.PV))
                sp2.reg(comp, wg_, Eo, sp2.PV)
                sp2.dv(comp, wg_, Eo, sp2.PV)
            goals.append(z3.Implies(z3.And(skg >= 0, skg < n, grad_hyp(sp2, objx, wg_, Eo, sp2.PV)),
                                    real_term(row.get(skg)) == (-dv if ismax else dv)))
            for key_ in ("bounds", "scipy_constraints"):
                v_ = it.get(key_)
                goals.append(z3.BoolVal(isinstance(v_, SSeq) and v_.tag == ("listspec", key_)))
            return goals
        c.ensures("obj_fn / grad_fn denote the sign-adjusted objective; bounds and constraints lists as specified", post)

    @reg.contract(f"{SC}:_compute_initial_point", props=["C09"])
    def _(c):
        ip = c.ip
        vs = c.arg("variables", T.seq(T.obj("Variable", exact=True)))
        c.arg("problem", T.none(), default=None)
        S = ip.models.as_seq(vs)
        n = ip.models.len_term(S.n)
        c.returns(T.custom(lambda ip_, h: SArr(sym.fresh("x0", sym.RealArr), n=n)))

        def post(res):
            sk = skolem(ip, "sk_x0", n)
            ip.reg.index_used(ip, sk)
            v = S.get(sk)
            lb, ub = ip.getattr(v, "lb"), ip.getattr(v, "ub")
            x = z3.Select(res.arr, sk)
            inr = z3.And(sk >= 0, sk < n)
            wf = z3.Implies(z3.And(z3.Not(lb.isnone), z3.Not(ub.isnone)), real_term(lb.val) <= real_term(ub.val))
            return [ip.models.len_term(res.n) == n,
                    z3.Implies(z3.And(inr, wf, z3.Not(lb.isnone)), x >= real_term(lb.val)),
                    z3.Implies(z3.And(inr, wf, z3.Not(ub.isnone)), x <= real_term(ub.val))]
        c.ensures("one finite entry per variable, inside its bounds", post)
        if c.verifying:
            def inv(st_):
                x0 = st_.var("x0")
                good = named_forall(ip, "X0GOOD", [x0.arr, sym.fn("ELEM_any", sym.Ref, sym.I, sym.Ref)(S.tag[2], z3.IntVal(0))], st_.i, lambda k: z3.BoolVal(True))
                return []
            # element-wise postcondition is re-established per iteration through a prefix predicate
            def inv2(st_):
                x0 = st_.var("x0")
                def ok(k):
                    v = S.get(k)
                    lb, ub = ip.getattr(v, "lb"), ip.getattr(v, "ub")
                    x = z3.Select(x0.arr, k)
                    wf = z3.Implies(z3.And(z3.Not(lb.isnone), z3.Not(ub.isnone)), real_term(lb.val) <= real_term(ub.val))
                    return z3.Implies(wf, z3.And(z3.Implies(z3.Not(lb.isnone), x >= real_term(lb.val)),
                                                 z3.Implies(z3.Not(ub.isnone), x <= real_term(ub.val))))
                good = named_forall(ip, "X0OK", [x0.arr, S.tag[2]], st_.i, ok)
                return [good(st_.i)]
            c.loop(1, inv2, havoc={"x0": T.custom(lambda ip_, h: SArr(sym.fresh("x0_loop", sym.RealArr), n=n))})
    reg.scipy_helpers = dict(solver_cache_for=solver_cache_for, arbitrary_exception=arbitrary_exception)


def install_scipy_main(reg, src):
    from .compiler_c import NV, IDXS, DOMOF
    from .seqtheory import named_exists, named_forall, seqs, _once, skolem, add_index
    H = reg.scipy_helpers
    solver_cache_for, arbitrary_exception = H["solver_cache_for"], H["arbitrary_exception"]
    FN = sym.fn("F_name", sym.Ref, sym.Name)
    BOUNDS_METHODS = ("L-BFGS-B", "TNC", "SLSQP", "Powell", "trust-constr", "Nelder-Mead")      # cross-checked against the source below
    MSG = {"maxiter": ("maximum", "iteration"), "infeasible": ("infeasible",), "pdd": ("positive directional derivative",)}
    OUT = ["raise-Exception", "raise-BaseException", "success", "fail-maxiter", "fail-infeasible", "fail-pdd", "fail-other"]
    METHS = ["SLSQP", "trust-constr", "L-BFGS-B", "BFGS", "Nelder-Mead"]
    COMBOS = [{"method": m, "res": r, "strict": False, "cache": "none", "sense": "minimize", "x0": "none"} for m in METHS for r in OUT]
    for extra in ({"strict": True}, {"cache": "valid"}, {"cache": "valid+hess"}, {"sense": "maximize"}, {"x0": "given"}):
        for r in ("success", "raise-Exception"):
            for m in ("SLSQP", "trust-constr"):
                cb = {"method": m, "res": r, "strict": False, "cache": "none", "sense": "minimize", "x0": "none"}
                cb.update(extra)
                COMBOS.append(cb)

    def read_set(name):
        """HESSIAN_METHODS / BOUNDS_METHODS / DERIVATIVE_FREE_METHODS as written in solve_scipy (S16: tables are read)."""
        fi = src.funcs[f"{SC}:solve_scipy"]
        for n_ in ast.walk(fi.node):
            if isinstance(n_, ast.Assign) and isinstance(n_.targets[0], ast.Name) and n_.targets[0].id == name:
                return tuple(ast.literal_eval(n_.value))
        return ()

    @reg.external_model("scipy.optimize.minimize")
    def _(ip, args, kwargs, node):
        p = ip.path
        p.event("external-call", {"name": "minimize", "kwargs": dict(kwargs), "args": list(args),
                                  "showwarning": p.globals.get("warnings.showwarning")})
        pins = p.ghost.get("pins", {})
        outcome = pins.get("res")
        ctx = p.ghost.get("scipy_ctx")
        if ctx is None:
            raise Unsupported("minimize reached without a solver cache")
        rz = sym.fresh("minimize_raises", sym.B)
        if outcome is not None:
            p.assume(rz == z3.BoolVal(outcome.startswith("raise")))
        if p.branch(rz, "minimize raises"):
            raise RaiseEx(arbitrary_exception(ip, "minimize", None if outcome is None else outcome == "raise-Exception"))
        n, IDX = ctx["n"], ctx["IDX"]
        sp = Spec(ip)
        X = SArr(sym.fresh("res_x", sym.RealArr), n=n, envlink=(IDX, sp.E, p))
        succ = sym.fresh("res_success", sym.B)
        fun = sym.fresh("res_fun", sym.R)
        msg = SStrOpaque(("solver-message",))
        if outcome is not None:
            p.assume(succ == z3.BoolVal(outcome == "success"))
            cls = outcome.split("-", 1)[1] if outcome.startswith("fail-") else None
            for k, words in MSG.items():
                for w in words:
                    flag = ip.schema.str_contains(SStrOpaque(("lower", msg)), w)
                    if outcome.startswith("fail-"):
                        p.assume(flag == z3.BoolVal(cls == k))
        r = {"success": SBool(succ), "x": X, "fun": SReal(fun, "npfloat"), "message": msg, "nit": SInt(sym.fresh("res_nit", sym.I)),
             "status": SInt(sym.fresh("res_status", sym.I))}
        # A3: fun is the objective callable at x; with bounds passed and success, x respects them
        fcall = kwargs.get("fun")
        fx = ip.call(fcall, [X], {}, node)
        p.assume(fun == real_term(fx))
        bnds = kwargs.get("bounds")
        p.ghost["min_call"] = {"result": r, "X": X, "bounds_passed": bnds is not None, "kwargs": dict(kwargs)}
        if bnds is not None:
            BOK = sym.fn("WITHIN_BOUNDS", sym.RealArr, sym.Ref, sym.B)
            p.assume(z3.Implies(succ, BOK(X.arr, ctx["vbase"])))
            # ... which means, entry by entry (instantiated at the index terms in use): lb_k <= x_k <= ub_k where declared
            Vb = ip.schema.seq_of_base(ip, ctx["vbase"], "Variable")

            def pw_bounds(k, X=X, Vb=Vb, succ=succ, n=n):
                if _once(ip, f"withinbounds:{X.arr}:{k}"):
                    v_ = Vb.get(k)
                    lb_, ub_ = ip.getattr(v_, "lb"), ip.getattr(v_, "ub")
                    if isinstance(lb_, SOpt) and isinstance(ub_, SOpt):
                        xk = z3.Select(X.arr, k)
                        p.assume(z3.Implies(z3.And(succ, k >= 0, k < n),
                                            z3.And(z3.Implies(z3.Not(lb_.isnone), xk >= real_term(lb_.val)),
                                                   z3.Implies(z3.Not(ub_.isnone), xk <= real_term(ub_.val)))))
            seqs(ip).pointwise.append(pw_bounds)
        return SpecFn(None, "OptimizeResult", meta={"attrs": r})

    @reg.contract(f"{SC}:solve_scipy", props=["C06", "C07", "C09", "C18", "C20", "C13", "C10"], cases={"__combos__": COMBOS})
    def _(c):
        sp = Spec(c.ip)
        ip = c.ip
        P = c.arg("problem", T.obj("Problem", exact=True))
        ip.path.assume(z3.Select(st(ip, "Problem._constraints!len", sym.I), P.ref) >= 0)
        if not c.verifying and ip.path.ghost.get("dispatch"):
            return reg.dispatch_apply(c, "solve_scipy")
        if not c.verifying:
            # recursive retry SLSQP -> trust-constr: the measure is "method is SLSQP"
            meth = c.arg("method")
            if meth != "trust-constr" or ip.path.ghost.get("pins", {}).get("method") != "SLSQP":
                raise Unsupported("solve_scipy contract applied outside the SLSQP -> trust-constr retry")
            for a_ in ("x0", "tol", "maxiter", "use_hessian", "strict"):
                c.arg(a_)
            ip.path.event("retry", {"method": meth})
            c.may_raise_anything()
            c.returns(T.obj("Solution", exact=True))
            c.ensures("retry result is a solve_scipy result", lambda res: sym.fn("RETRY_RESULT", sym.Ref, sym.B)(res.ref))
            return
        case = c.case
        method = c.arg("method", T.const(case["method"]))
        n_guess = None
        s0 = PState(ip, P)
        vb0 = varlist_base(s0)
        nvars = sym.fn("LEN_any", sym.Ref, sym.I)(vb0)
        x0 = c.arg("x0", T.const(None) if case["x0"] == "none" else T.custom(lambda ip_, h: SArr(sym.fresh("x0_given", sym.RealArr), n=nvars)))
        tol = c.arg("tol", T.opt(T.real("float")))
        c.assume(z3.Implies(z3.Not(tol.isnone), real_term(tol.val) >= 0))       # a tolerance is a non-negative number
        maxiter = c.arg("maxiter", T.opt(T.int_()))
        use_h = c.arg("use_hessian", T.const(True))
        strict = c.arg("strict", T.const(case["strict"]))
        ip.path.ghost["pins"] = {"res": case["res"], "method": case["method"]}
        c.assume(z3.Not(s0.obj_none))      # Problem.solve raises NoObjectiveError before dispatching (its contract)
        c.assume(s0.sense == sym.lit(case["sense"]))
        from .specfns import NODIV0
        EXPR = sp.S.F("expr", sym.Ref)
        vnone = s0.cache_none["_variables"]
        cache_base = z3.Select(st(ip, "Problem._variables", sym.Ref), P.ref)
        c.assume(z3.Implies(z3.Not(vnone), cache_base == vb0))
        reg.assume_varlist_valid(ip, sp, P, s0, vb0)
        # well-formed model (what "built through the public API" means for the NLP path), and the bridge from
        # "the variable list has exactly the mentioned names" to the index-map coverage the compilers require
        from .specfns import WF
        from .seqtheory import seqs as _seqs, _once as _once1
        objx0 = Opaque(s0.obj, "Expression")
        c.assume(sp.wf(objx0))
        wfall = named_forall(ip, "CONWF", [s0.cons], s0.ncon, lambda k: WF(EXPR(z3.Select(s0.cons, k))))
        c.assume(wfall(s0.ncon))
        NS0 = NAMES_OF(vb0)
        reg.covers_from_occ(sp, objx0, NS0)

        # the one constraint the CONCOV obligation of _build_solver_cache will ask about (its Skolem witness)
        covall0 = named_forall(ip, "CONCOV", [s0.cons, NS0], s0.ncon, lambda k: reg.COVERS(EXPR(z3.Select(s0.cons, k)), NS0))
        skc0 = ip.path.ghost["forall_skolems"][("CONCOV", (str(s0.cons), str(NS0)))]
        reg.covers_from_occ(sp, Opaque(EXPR(z3.Select(s0.cons, skc0)), "Expression"), NS0)
        scnone = s0.cache_none["_solver_cache"]
        c.assume(scnone if case["cache"] == "none" else z3.Not(scnone))
        entry_box = z3.simplify(z3.Select(st(ip, "Problem._solver_cache", sym.Ref), P.ref))
        if case["cache"] in ("valid", "valid+hess"):
            # Inv (C13): a non-None _solver_cache holds callables denoting the current model; an entry 'hess_fn', when there is
            # one, is the compiled Hessian of the sign-adjusted objective (whatever method stored it)
            d, IDX, n = solver_cache_for(ip, sp, P, s0, vb0)
            if case["cache"] == "valid+hess":
                he_entry = Opaque(sym.fresh("cached_hess_tree", sym.Ref), "Expression")

                def cached_hess(ip2, x, he_entry=he_entry, IDX=IDX):
                    sp2 = Spec(ip2)
                    if x.envlink is None:
                        x.envlink = (IDX, sym.fresh("ENV_x", sym.EnvSort), ip2.path)
                    E2 = x.envlink[1]
                    d2_ = sp2.den(Opaque(s0.obj, "Expression"), E2, sp2.PV)
                    ip2.path.assume(sp2.den(he_entry, E2, sp2.PV) == (-d2_ if case["sense"] == "maximize" else d2_))
                    return SpecFn(None, "hessian matrix", meta={"hessian_of": he_entry})
                d.items["hess_fn"] = SpecFn(cached_hess, "compiled hessian (cached)")
            ip.path.ghost.setdefault("boxed", {})[str(entry_box)] = d
            ip.path.ghost["scipy_ctx"] = {"IDX": IDX, "n": n, "vbase": vb0, "cache": d, "snapshot": dict(d.items)}
        entry_show = ip.path.globals.get("warnings.showwarning")
        c.raises("IntegerVariableError", when=None)
        c.may_raise_anything()
        c.returns(T.obj("Solution", exact=True))
        bounds_methods = read_set("BOUNDS_METHODS")
        hess_methods = read_set("HESSIAN_METHODS")
        dfree = read_set("DERIVATIVE_FREE_METHODS")

        # loop 1: feasibility check over the SciPy constraint dicts
        def violated(k, X):
            ctx = ip.path.ghost["scipy_ctx"]
            cref = z3.Select(s0.cons, k)
            e_ = Opaque(EXPR(cref), "Expression")
            sense = sp.S.F("sense", sym.Name)(cref)
            d = sp.den(e_, sp.E, sp.PV)
            cval = z3.If(sense == sym.lit("<="), -d, d)
            atol = z3.If(tol.isnone, sym.rv(1e-6), real_term(tol.val))
            stol = atol + sym.rv(1e-6) * sym.zmax(sym.rv(1.0), sym.zabs(cval))
            return z3.If(sense == sym.lit("=="), sym.zabs(cval) > stol, cval < -stol)

        def inv1(st_):
            mc = ip.path.ghost.get("min_call")
            if mc is None:
                return []
            cv = st_.var("constraints_violated")
            cvt = cv.t if isinstance(cv, SBool) else z3.BoolVal(bool(cv))
            ex = named_exists(ip, "VIOLBEFORE", [s0.cons, mc["X"].arr], s0.ncon, lambda k: violated(k, mc["X"]))
            mv = st_.var("max_violation")
            return [cvt == ex(st_.i), real_term(mv) >= 0]
        c.loop(1, inv1, havoc={"c_val": T.real("float"), "scaled_tol": T.real("float"), "violation": T.real("float")})

        # loop 2 (present after the D14 repair): declared bounds are checked at the returned point, with the same tolerance
        def bound_violated(k, X):
            ctx = ip.path.ghost["scipy_ctx"]
            V_ = ip.schema.seq_of_base(ip, ctx["vbase"], "Variable")
            v_ = V_.get(k)
            lb_, ub_ = ip.getattr(v_, "lb"), ip.getattr(v_, "ub")
            xk = z3.Select(X.arr, k)
            atol_ = z3.If(tol.isnone, sym.rv(1e-6), real_term(tol.val))
            bt = atol_ + sym.rv(1e-6) * sym.zmax(sym.rv(1.0), sym.zabs(xk))
            return z3.Or(z3.And(z3.Not(lb_.isnone), xk < real_term(lb_.val) - bt), z3.And(z3.Not(ub_.isnone), xk > real_term(ub_.val) + bt))

        def inv2(st_):
            mc = ip.path.ghost.get("min_call")
            if mc is None:
                return []
            cv = st_.var("constraints_violated")
            cvt = cv.t if isinstance(cv, SBool) else z3.BoolVal(bool(cv))
            n_ = ip.path.ghost["scipy_ctx"]["n"]
            conv = named_exists(ip, "VIOLBEFORE", [s0.cons, mc["X"].arr], s0.ncon, lambda k: violated(k, mc["X"]))
            bex = named_exists(ip, "BOUNDVIOLBEFORE", [ip.path.ghost["scipy_ctx"]["vbase"], mc["X"].arr], n_, lambda k: bound_violated(k, mc["X"]))
            mv = st_.var("max_violation")
            # the loop runs only for a converged result: the constraint loop has run (or there is no constraint at all)
            return [cvt == z3.Or(conv(s0.ncon), bex(st_.i)), real_term(mv) >= 0]
        c.loop(2, inv2, havoc={"x_i": T.real("float"), "bound_tol": T.real("float")})

        def events(tag):
            return [pl for t, pl in ip.path.events if t == tag]

        def on_exit(cc, outcome, val):
            path = ip.path
            oid = ip.cur_oid
            now = PState(ip, P)
            calls = [e_ for e_ in events("external-call") if e_["name"] == "minimize"]
            warns = events("warn")
            retried = bool(events("retry"))
            # ---------------- C20 / C13 frames on every exit
            path.oblige(oid("model untouched on every exit"), now.same_model(s0), kind="frame", props=["C13", "C20"])
            show_now = path.globals.get("warnings.showwarning")
            path.oblige(oid("warnings.showwarning restored on every exit"), z3.BoolVal(show_now is entry_show or
                        (entry_show is None and (show_now is None or (hasattr(show_now, "name") and show_now.name == "warnings.showwarning")))),
                        kind="frame", props=["C20"])
            box_now = z3.simplify(z3.Select(st(ip, "Problem._solver_cache", sym.Ref), P.ref))
            built = path.ghost.get("boxed", {}).get(str(box_now))
            ctx = path.ghost.get("scipy_ctx")
            if case["cache"] == "none":
                path.oblige(oid("_solver_cache untouched or assigned the completely built cache"),
                            z3.Or(now.cache_none["_solver_cache"], z3.BoolVal(built is not None and ctx is not None and built is ctx["cache"])),
                            kind="frame", props=["C13", "C20"])
            else:
                path.oblige(oid("_solver_cache untouched"), z3.And(z3.Not(now.cache_none["_solver_cache"]), box_now == entry_box),
                            kind="frame", props=["C13", "C20"])
            if ctx is not None and "hess_fn" in ctx["cache"].items:
                # Inv (C13) re-established: whatever is stored under 'hess_fn' is read by later solves with any method
                hf_ = ctx["cache"].items["hess_fn"]
                okh_ = z3.BoolVal(False)
                if isinstance(hf_, (SpecFn, Closure)):
                    Xh = SArr(sym.fresh("xh", sym.RealArr), n=ctx["n"], envlink=(ctx["IDX"], sym.fresh("ENV_h", sym.EnvSort), path))
                    hv_ = ip.call(hf_, [Xh], {}, None)
                    he_ = hv_.meta.get("hessian_of") if isinstance(hv_, SpecFn) else None
                    if he_ is not None:
                        dn_ = sp.den(Opaque(s0.obj, "Expression"), Xh.envlink[1], sp.PV)
                        okh_ = sp.den(he_, Xh.envlink[1], sp.PV) == (-dn_ if case["sense"] == "maximize" else dn_)
                path.oblige(oid("a cached 'hess_fn' entry is the compiled Hessian of the sign-adjusted objective"), okh_,
                            kind="frame", props=["C13", "C09", "C17"])
            if ctx is not None and ctx.get("snapshot") is not None:
                # the cache dictionary itself is shared with the problem: entries may be added (the compiled Hessian), none of
                # the entries that denote the model may be removed or replaced on any exit (a later solve reads them)
                snap, cur = ctx["snapshot"], ctx["cache"].items
                path.oblige(oid("entries of the solver cache neither removed nor replaced"),
                            z3.BoolVal(all(k_ in cur and cur[k_] is v_ for k_, v_ in snap.items())), kind="frame", props=["C13", "C20"])
            other_globals = [pl for t, pl in path.events if t == "global-write" and pl[0] != "warnings.showwarning"]
            path.oblige(oid("no other process-global state written"), z3.BoolVal(not other_globals), kind="frame", props=["C20"])
            # ---------------- C18
            vb = path.ghost.get("lp_vars_filter")
            if calls:
                if vb is None:
                    path.oblige(oid("solver reached only after the integrality check"), False, kind="post", props=["C18"])
                elif strict is True:
                    path.oblige(oid("strict: solver not reached with non-continuous variables"), z3.Not(vb["exists"]), kind="post", props=["C18"])
                else:
                    named = [w for w in warns if reg.lp_mentions(w["message"], vb["seq"])]
                    path.oblige(oid("non-strict: warning naming exactly the non-continuous variables before the solver runs"),
                                z3.Implies(vb["exists"], z3.BoolVal(len(named) >= 1)), kind="post", props=["C18"])
            if outcome == "raise" and val.cls == "IntegerVariableError":
                vn = val.kwargs.get("variable_names")
                okn = vb is not None and isinstance(vn, SSeq) and reg.lp_names_of_filter(vn, vb["seq"])
                path.oblige(oid("IntegerVariableError lists exactly the non-continuous variables"), z3.BoolVal(bool(okn)), kind="post", props=["C18"])
                path.oblige(oid("IntegerVariableError only when strict"), z3.BoolVal(strict is True), kind="post", props=["C18"])
            # ---------------- C09 wiring at the call site
            if calls and ctx is not None:
                kw = calls[0]["kwargs"]
                n, IDX = ctx["n"], ctx["IDX"]
                d = ctx["cache"]
                ismax = case["sense"] == "maximize"
                obj = Opaque(s0.obj, "Expression")
                Xw = SArr(sym.fresh("xw", sym.RealArr), n=n, envlink=(IDX, sym.fresh("ENV_w", sym.EnvSort), path))
                Ew = Xw.envlink[1]
                fv = ip.call(kw["fun"], [Xw], {}, None)
                dn = sp.den(obj, Ew, sp.PV)
                path.oblige(oid("wiring: fun is the (sign-adjusted) objective"), real_term(fv) == (-dn if ismax else dn), kind="post", props=["C09"])
                usegrad = case["method"] not in dfree
                if usegrad:
                    jv = ip.call(kw["jac"], [Xw], {}, None)
                    J = ip.models.as_seq(jv)
                    skj = skolem(ip, "sk_jac", n)
                    V = ip.schema.seq_of_base(ip, ctx["vbase"], "Variable")
                    wj_ = FN(V.get(skj).ref)
                    dvj = sp.dv(obj, wj_, Ew, sp.PV)
                    path.oblige(oid("wiring: jac is the gradient of that objective in variable order"),
                                z3.Implies(z3.And(skj >= 0, skj < n, grad_hyp(sp, obj, wj_, Ew, sp.PV)),
                                           real_term(J.get(skj)) == (-dvj if ismax else dvj)), kind="post", props=["C09"])
                else:
                    path.oblige(oid("wiring: derivative-free methods get no jac"), z3.BoolVal(kw.get("jac") is None), kind="post", props=["C09"])
                wantb = case["method"] in bounds_methods
                path.oblige(oid("wiring: bounds passed exactly for the methods that support them"),
                            z3.Implies(n > 0, z3.BoolVal((kw.get("bounds") is ctx["snapshot"]["bounds"]) == wantb and (wantb or kw.get("bounds") is None))),
                            kind="post", props=["C09"])
                path.oblige(oid("wiring: constraints are the cached SciPy constraint list (or () when empty)"),
                            z3.BoolVal(kw.get("constraints") is ctx["snapshot"]["scipy_constraints"] or kw.get("constraints") == ()), kind="post", props=["C09", "C10"])
                path.oblige(oid("wiring: method / tol passed through"), z3.BoolVal(kw.get("method") == case["method"] and kw.get("tol") is tol),
                            kind="post", props=["C09"])
                # the iteration limit reaches SciPy as options["maxiter"] (the key every method reads as its iteration limit), and
                # optyx adds no option of its own
                opts = kw.get("options")
                if opts is None:
                    path.oblige(oid("wiring: no options unless the caller gave an iteration limit"), maxiter.isnone if isinstance(maxiter, SOpt)
                                else z3.BoolVal(maxiter is None), kind="post", props=["C09"])
                elif isinstance(opts, PDict):
                    mi = opts.items.get("maxiter")
                    same_mi = mi is not None and isinstance(maxiter, SOpt) and (mi is maxiter.val or (
                        isinstance(mi, SInt) and isinstance(maxiter.val, SInt) and mi.t.eq(maxiter.val.t)))
                    path.oblige(oid("wiring: options is exactly {'maxiter': the caller's limit}"),
                                z3.BoolVal(bool(same_mi) and set(opts.items) == {"maxiter"}), kind="post", props=["C09"])
                else:
                    path.oblige(oid("wiring: options is exactly {'maxiter': the caller's limit}"), False, kind="post", props=["C09"])
                wanth = case["method"] in hess_methods
                path.oblige(oid("wiring: hess passed exactly for the Hessian methods"), z3.BoolVal((kw.get("hess") is not None) == wanth),
                            kind="post", props=["C09"])
                if kw.get("hess") is not None:
                    # the Hessian handed to SciPy must be that of the function SciPy minimises: the tree it is compiled from
                    # denotes the sign-adjusted objective at every point (so its second derivatives are those of fun)
                    hv = ip.call(kw["hess"], [Xw], {}, None)
                    he = hv.meta.get("hessian_of") if isinstance(hv, SpecFn) else None
                    if he is None:
                        path.oblige(oid("wiring: hess is the Hessian of the function passed as fun"), False, kind="post", props=["C09", "C17"])
                    else:
                        dh = sp.den(he, Ew, sp.PV)
                        path.oblige(oid("wiring: hess is the Hessian of the function passed as fun"), dh == (-dn if ismax else dn),
                                    kind="post", props=["C09", "C17"])
                if case["x0"] == "given":
                    path.oblige(oid("wiring: caller's x0 passed"), z3.BoolVal(kw.get("x0") is x0), kind="post", props=["C09"])
                path.oblige(oid("warning handler installed only around the solver call"),
                            z3.BoolVal(calls[0]["showwarning"] is not None), kind="post", props=["C20"])
            if outcome != "return":
                return
            sol = val
            if retried:
                return        # result of the retry: covered by the obligations of the trust-constr cases
            if not isinstance(sol, Obj) or sol.cls != "Solution":
                path.oblige(oid("returns a Solution"), False, kind="post", props=["C06"])
                return
            status = sol.fields["status"]
            is_ = lambda s_: z3.BoolVal(status == s_)
            mc = path.ghost.get("min_call")
            if not calls:
                path.oblige(oid("without a solver run the status is FAILED"), is_("failed"), kind="post", props=["C06", "C20"])
                return
            if mc is None:
                path.oblige(oid("solver raised: the Solution returned is FAILED"), is_("failed"), kind="post", props=["C06", "C20"])
                return
            X = mc["X"]
            succ = mc["result"]["success"].t
            # ---------------- C06: OPTIMAL => every constraint within tolerance, every bound respected
            ip.reg.saturate(ip)
            skc = skolem(ip, "sk_con", s0.ncon)
            ip.reg.saturate(ip)
            path.oblige(oid("OPTIMAL => no constraint violated beyond the stated tolerance"),
                        z3.Implies(z3.And(is_("optimal"), skc >= 0, skc < s0.ncon), z3.Not(violated(skc, X))), kind="post", props=["C06"])
            skb = skolem(ip, "sk_bnd", ctx["n"])
            ip.reg.index_used(ip, skb)
            ip.reg.saturate(ip)
            path.oblige(oid("OPTIMAL => every variable bound respected"),
                        z3.Implies(z3.And(is_("optimal"), skb >= 0, skb < ctx["n"]), z3.Not(bound_violated(skb, X))), kind="post", props=["C06"])
            # ---------------- C07
            ov = sol.fields.get("objective_value")
            obj = Opaque(s0.obj, "Expression")
            path.oblige(oid("objective value = objective expression at the returned values (user orientation)"),
                        real_term(ov) == sp.den(obj, sp.E, sp.PV), kind="post", props=["C07"])
            vals = sol.fields.get("values")
            if isinstance(vals, SDict):
                V = ip.schema.seq_of_base(ip, ctx["vbase"], "Variable")
                skv = skolem(ip, "sk_val", ctx["n"])
                nmk = FN(V.get(skv).ref)
                ip.reg.saturate(ip)
                path.oblige(oid("values: one entry per problem variable, in position"),
                            z3.Implies(z3.And(skv >= 0, skv < ctx["n"]),
                                       z3.And(z3.Select(vals.keys, nmk), z3.Select(vals.vals, nmk) == z3.Select(X.arr, skv))), kind="post", props=["C07"])
                nm = NM(ip)
                path.oblige(oid("values: no entry for other names"),
                            z3.Implies(z3.Select(vals.keys, nm), z3.Select(NAMES_OF(ctx["vbase"]), nm)), kind="post", props=["C07"])
            else:
                path.oblige(oid("values is the per-variable dict"), False, kind="post", props=["C07"])
        c.on_exit.append(on_exit)
