"""Unfolding tables for the vector / matrix reduction kinds (DEN, DV/REG, OCC) in terms of finite sums."""
from __future__ import annotations

import z3

from pyvc import sym
from pyvc.sym import Ref, Name, R, I, B, EnvSort, PVSort, RealArr, fn
from pyvc.spec import VEC_UNARY_OPS

from .specfns import (Spec, rule, ufapp, powapp, unary_dv_rule, unary_regular, unary_domain, lit, guard_op, ops_of)
from .seqtheory import (register_vector, named_array, named_forall, DENV, DVV, REGV, OCCE, OCCV, REGALL, VLEN, psum)

FV = lambda sp, r, f="vector": sp.S.F(f, Ref)(r)
COEF = fn("ARR_coefficients", Ref, RealArr)
LENC = fn("LEN_coefficients", Ref, I)
FPOWER = fn("F_power", Ref, R)


def _vec_den(sp, r, E, PV, v, name, elem, wrap=None, extra=None):
    ip = sp.ip
    register_vector(sp, v, None, E, PV)
    n = VLEN(v)
    arr = named_array(ip, name, [r, E, PV], n, elem)
    total = psum(ip, arr, n)
    ip.path.assume(sp.S.DEN(r, E, PV) == (wrap(total) if wrap else total))
    return arr, n


@rule("den", "VectorSum")
def _(sp, r, E, PV):
    v = FV(sp, r)
    _vec_den(sp, r, E, PV, v, "A_vsum", lambda k: DENV(v, k, E, PV))


@rule("den", "VectorExpressionSum")
def _(sp, r, E, PV):
    v = FV(sp, r, "expression")
    _vec_den(sp, r, E, PV, v, "A_vesum", lambda k: DENV(v, k, E, PV))


@rule("den", "LinearCombination")
def _(sp, r, E, PV):
    v = FV(sp, r)
    sp.ip.path.assume(LENC(r) == VLEN(v))          # checked by LinearCombination.__init__
    _vec_den(sp, r, E, PV, v, "A_lc", lambda k: z3.Select(COEF(r), k) * DENV(v, k, E, PV))


@rule("den", "DotProduct")
def _(sp, r, E, PV):
    l, rr = FV(sp, r, "left"), FV(sp, r, "right")
    sp.ip.path.assume(VLEN(l) == VLEN(rr))         # checked by DotProduct.__init__
    register_vector(sp, rr, None, E, PV)
    _vec_den(sp, r, E, PV, l, "A_dot", lambda k: DENV(l, k, E, PV) * DENV(rr, k, E, PV))


@rule("den", "L2Norm")
def _(sp, r, E, PV):
    v = FV(sp, r)
    _vec_den(sp, r, E, PV, v, "A_sq", lambda k: DENV(v, k, E, PV) * DENV(v, k, E, PV),
             wrap=lambda t: ufapp(sp, "sqrt", t))


@rule("den", "L1Norm")
def _(sp, r, E, PV):
    v = FV(sp, r)
    _vec_den(sp, r, E, PV, v, "A_abs", lambda k: sym.zabs(DENV(v, k, E, PV)))


@rule("den", "VectorPowerSum")
def _(sp, r, E, PV):
    v = FV(sp, r)
    _vec_den(sp, r, E, PV, v, "A_pows", lambda k: powapp(sp, DENV(v, k, E, PV), FPOWER(r)))


@rule("den", "VectorUnarySum")
def _(sp, r, E, PV):
    v = FV(sp, r)
    ip = sp.ip
    register_vector(sp, v, None, E, PV)
    n = VLEN(v)
    for op in ops_of(sp, r, VEC_UNARY_OPS):
        arr = named_array(ip, "A_vus_" + op, [r, E, PV], n, lambda k, op=op: ufapp(sp, op, DENV(v, k, E, PV)))
        ip.path.assume(z3.Implies(guard_op(sp, r, op), sp.S.DEN(r, E, PV) == psum(ip, arr, n)))


# ------------------------------------------------------------------------------------------- DV / REG
def _vec_dv(sp, r, w, E, PV, vs, name, elem, scale=None, reg_extra=None):
    ip = sp.ip
    for v in vs:
        register_vector(sp, v, w, E, PV)
    n = VLEN(vs[0])
    arr = named_array(ip, name, [r, w, E, PV], n, elem)
    total = psum(ip, arr, n)
    reg = z3.And(*[REGALL(v, w, E, PV, n) for v in vs])
    if reg_extra is not None:
        reg = z3.And(reg, reg_extra)
    ip.path.assume(z3.And(sp.S.DV(r, w, E, PV) == (scale(total) if scale else total), sp.S.REG(r, w, E, PV) == reg))


@rule("dv", "VectorSum")
def _(sp, r, w, E, PV):       # lean: deriv_sum
    v = FV(sp, r)
    _vec_dv(sp, r, w, E, PV, [v], "D_vsum", lambda k: DVV(v, k, w, E, PV))


@rule("dv", "VectorExpressionSum")
def _(sp, r, w, E, PV):
    v = FV(sp, r, "expression")
    _vec_dv(sp, r, w, E, PV, [v], "D_vesum", lambda k: DVV(v, k, w, E, PV))


@rule("dv", "LinearCombination")
def _(sp, r, w, E, PV):       # lean: deriv_sum + deriv_const_mul
    v = FV(sp, r)
    _vec_dv(sp, r, w, E, PV, [v], "D_lc", lambda k: z3.Select(COEF(r), k) * DVV(v, k, w, E, PV))


@rule("dv", "DotProduct")
def _(sp, r, w, E, PV):       # lean: deriv_sum + deriv_mul
    l, rr = FV(sp, r, "left"), FV(sp, r, "right")
    _vec_dv(sp, r, w, E, PV, [l, rr], "D_dot",
            lambda k: DENV(l, k, E, PV) * DVV(rr, k, w, E, PV) + DENV(rr, k, E, PV) * DVV(l, k, w, E, PV))


@rule("dv", "L2Norm")
def _(sp, r, w, E, PV):       # lean: deriv_l2norm  (HasDerivAt.sqrt over the sum of squares)
    v = FV(sp, r)
    nrm = sp.S.DEN(r, E, PV)
    _vec_dv(sp, r, w, E, PV, [v], "D_l2", lambda k: DENV(v, k, E, PV) * DVV(v, k, w, E, PV),
            scale=lambda t: t / nrm, reg_extra=nrm != 0)


@rule("dv", "L1Norm")
def _(sp, r, w, E, PV):       # lean: deriv_l1norm  (hasDerivAt_abs on each term)
    v = FV(sp, r)
    n = VLEN(v)
    nz = named_forall(sp.ip, "NZALL", [v, E, PV], n, lambda k: DENV(v, k, E, PV) != 0)
    _vec_dv(sp, r, w, E, PV, [v], "D_l1",
            lambda k: (DENV(v, k, E, PV) / sym.zabs(DENV(v, k, E, PV))) * DVV(v, k, w, E, PV), reg_extra=nz(n))


@rule("dv", "VectorPowerSum")
def _(sp, r, w, E, PV):       # lean: deriv_sum + deriv_rpow_const
    v = FV(sp, r)
    n = VLEN(v)
    pw = FPOWER(r)
    ok = named_forall(sp.ip, "POWREG", [r, E, PV], n, lambda k: z3.Or(DENV(v, k, E, PV) != 0, pw >= 1))
    _vec_dv(sp, r, w, E, PV, [v], "D_pows",
            lambda k: z3.If(pw == 0, sym.rv(0), pw * powapp(sp, DENV(v, k, E, PV), pw - 1) * DVV(v, k, w, E, PV)),
            reg_extra=ok(n))


@rule("dv", "VectorUnarySum")
def _(sp, r, w, E, PV):
    v = FV(sp, r)
    ip = sp.ip
    register_vector(sp, v, w, E, PV)
    n = VLEN(v)
    for op in ops_of(sp, r, VEC_UNARY_OPS):
        arr = named_array(ip, "D_vus_" + op, [r, w, E, PV], n,
                          lambda k, op=op: unary_dv_rule(sp, op, DENV(v, k, E, PV), DVV(v, k, w, E, PV)))
        ok = named_forall(ip, "UREG_" + op, [r, E, PV], n, lambda k, op=op: unary_regular(sp, op, DENV(v, k, E, PV)))
        ip.path.assume(z3.Implies(guard_op(sp, r, op),
                                  z3.And(sp.S.DV(r, w, E, PV) == psum(ip, arr, n),
                                         sp.S.REG(r, w, E, PV) == z3.And(REGALL(v, w, E, PV, n), ok(n)))))


# ------------------------------------------------------------------------------------------- OCC
def _occ_vec(sp, r, w, vs):
    for v in vs:
        register_vector(sp, v, w)
    sp.ip.path.assume(sp.S.OCC(r, w) == z3.Or(*[OCCV(v, w, VLEN(v)) for v in vs]))


for _k in ("VectorSum", "LinearCombination", "L2Norm", "L1Norm", "VectorPowerSum", "VectorUnarySum"):
    @rule("occ", _k)
    def _(sp, r, w):
        _occ_vec(sp, r, w, [FV(sp, r)])


@rule("occ", "VectorExpressionSum")
def _(sp, r, w):
    _occ_vec(sp, r, w, [FV(sp, r, "expression")])


@rule("occ", "DotProduct")
def _(sp, r, w):
    _occ_vec(sp, r, w, [FV(sp, r, "left"), FV(sp, r, "right")])


# ------------------------------------------------------------------------------------------- WF of vector nodes
from .specfns import WF          # noqa: E402
from .seqtheory import ELEME     # noqa: E402


def vec_wf(sp, v):
    """Elements of a VectorExpression are well-formed scalar trees; a VectorVariable holds Variables."""
    n = VLEN(v)
    register_vector(sp, v)
    allwf = named_forall(sp.ip, "WFALL", [v], n, lambda k: WF(ELEME(v, k)))
    return z3.Or(sp.K.is_kind(v, "VectorVariable"), z3.And(sp.K.is_any(v, ["VectorExpression", "MatrixVectorProduct"]), allwf(n)))


for _k in ("VectorSum", "LinearCombination", "L2Norm", "L1Norm"):
    @rule("wf", _k)
    def _(sp, r):
        sp.ip.path.assume(WF(r) == vec_wf(sp, FV(sp, r)))

for _k in ("VectorPowerSum", "VectorUnarySum"):
    @rule("wf", _k)
    def _(sp, r):
        v = FV(sp, r)
        register_vector(sp, v)
        sp.ip.path.assume(WF(r) == sp.K.is_kind(v, "VectorVariable"))


@rule("wf", "VectorExpressionSum")
def _(sp, r):
    sp.ip.path.assume(WF(r) == vec_wf(sp, FV(sp, r, "expression")))


@rule("wf", "DotProduct")
def _(sp, r):
    l, rr = FV(sp, r, "left"), FV(sp, r, "right")
    sp.ip.path.assume(WF(r) == z3.And(vec_wf(sp, l), vec_wf(sp, rr), VLEN(l) == VLEN(rr)))


def dv_array(sp, name: str, r, w, E=None, PV=None):
    E = sp.E if E is None else E
    PV = sp.PV if PV is None else PV
    return fn(name, Ref, Name, EnvSort, PVSort, RealArr)(r, w, E, PV)


# ------------------------------------------------------------------------------------------- structural degree of vector nodes
from .seqtheory import named_maxfold, ELEMV      # noqa: E402

EPOLY = fn("EPOLY", Ref, I, B)
EDEG = fn("EDEG", Ref, I, I)


def vec_deg(sp, v):
    """(allpoly(i), maxdeg(i)) prefix folds over the elements of vector object v."""
    ip = sp.ip
    S, K, p = sp.S, sp.K, ip.path
    register_vector(sp, v)
    n = VLEN(v)
    isvar = K.is_kind(v, "VectorVariable")
    isexp = K.is_any(v, ["VectorExpression", "MatrixVectorProduct"])
    from .seqtheory import seqs, _once

    def pw(k):
        if _once(ip, f"edeg:{v}:{k}"):
            ee = ELEME(v, k)
            p.assume(z3.Implies(isvar, z3.And(EPOLY(v, k), EDEG(v, k) == 1)))
            p.assume(z3.Implies(isexp, z3.And(EPOLY(v, k) == S.ISPOLY(ee), z3.Implies(S.ISPOLY(ee), EDEG(v, k) == S.SDEG(ee)),
                                              z3.Implies(S.ISPOLY(ee), S.SDEG(ee) >= 0))))
    if _once(ip, f"edegreg:{v}"):
        seqs(ip).pointwise.append(pw)
    allp = named_forall(ip, "ALLPOLY", [v], n, lambda k: EPOLY(v, k))
    mx = named_maxfold(ip, "PMAXDEG", [v], n, lambda k: z3.If(EPOLY(v, k), EDEG(v, k), z3.IntVal(0)))
    return allp, mx


def _deg_sum_like(sp, r, v):
    allp, mx = vec_deg(sp, v)
    n = VLEN(v)
    sp.ip.path.assume(z3.And(sp.S.ISPOLY(r) == allp(n), z3.Implies(allp(n), sp.S.SDEG(r) == mx(n))))   # totalDegree_finset_sum_le


@rule("deg", "VectorSum")
def _(sp, r):
    _deg_sum_like(sp, r, FV(sp, r))


@rule("deg", "LinearCombination")
def _(sp, r):
    _deg_sum_like(sp, r, FV(sp, r))           # totalDegree_smul_le + totalDegree_finset_sum_le


@rule("deg", "VectorExpressionSum")
def _(sp, r):
    _deg_sum_like(sp, r, FV(sp, r, "expression"))


@rule("deg", "DotProduct")
def _(sp, r):
    l, rr = FV(sp, r, "left"), FV(sp, r, "right")
    al, ml = vec_deg(sp, l)
    ar, mr = vec_deg(sp, rr)
    n = VLEN(l)
    sp.ip.path.assume(VLEN(l) == VLEN(rr))         # checked by DotProduct.__init__
    both = z3.And(al(n), ar(n))
    # each term l_k * r_k has degree deg l_k + deg r_k <= max l + max r                     totalDegree_mul, _finset_sum_le
    sp.ip.path.assume(z3.And(sp.S.ISPOLY(r) == both, z3.Implies(both, sp.S.SDEG(r) == ml(n) + mr(n))))


@rule("deg", "QuadraticForm")
def _(sp, r):
    v = FV(sp, r)
    allp, mx = vec_deg(sp, v)
    n = VLEN(v)
    sp.ip.path.assume(z3.And(sp.S.ISPOLY(r) == allp(n), z3.Implies(allp(n), sp.S.SDEG(r) == 2 * mx(n))))


for _k in ("VectorPowerSum", "ElementwisePower"):
    @rule("deg", _k)
    def _(sp, r):
        pw = FPOWER(r)
        nat = z3.And(z3.IsInt(pw), pw >= 0)
        sp.ip.path.assume(z3.And(sp.S.ISPOLY(r) == nat, z3.Implies(nat, sym.to_real(sp.S.SDEG(r)) == pw)))   # totalDegree_pow, X

for _k in ("VectorUnarySum", "ElementwiseUnary", "L2Norm", "L1Norm", "MatrixSum", "FrobeniusNorm"):
    @rule("deg", _k)
    def _(sp, r):
        # not claimed polynomial by the spec (MatrixSum of affine entries would be; the code answers None for it, which is sound)
        pass


# ------------------------------------------------------------------------------------------- NODIV0 of vector nodes
from .specfns import NODIV0      # noqa: E402


def vec_nd0(sp, v):
    n = VLEN(v)
    register_vector(sp, v)
    allnd = named_forall(sp.ip, "ND0ALL", [v], n, lambda k: NODIV0(ELEME(v, k)))
    return z3.Or(sp.K.is_kind(v, "VectorVariable"), allnd(n))


for _k in ("VectorSum", "LinearCombination", "L2Norm", "L1Norm", "QuadraticForm"):
    @rule("nd0", _k)
    def _(sp, r):
        sp.ip.path.assume(NODIV0(r) == vec_nd0(sp, FV(sp, r)))


@rule("nd0", "VectorExpressionSum")
def _(sp, r):
    sp.ip.path.assume(NODIV0(r) == vec_nd0(sp, FV(sp, r, "expression")))


@rule("nd0", "DotProduct")
def _(sp, r):
    sp.ip.path.assume(NODIV0(r) == z3.And(vec_nd0(sp, FV(sp, r, "left")), vec_nd0(sp, FV(sp, r, "right"))))


def VECDOM(sp, v, E, PV):
    """forall-prefix: every element of the vector is in its domain at (E, PV)."""
    n = VLEN(v)
    return named_forall(sp.ip, "VDOMALL", [v, E, PV], n,
                        lambda k: z3.Or(sp.K.is_kind(v, "VectorVariable"), sp.S.DOM(ELEME(v, k), E, PV)))


def _dom_vec(sp, r, E, PV, vs, extra=None):
    for v in vs:
        register_vector(sp, v, None, E, PV)
    conj = [VECDOM(sp, v, E, PV)(VLEN(v)) for v in vs]
    if extra is not None:
        conj.append(extra)
    sp.ip.path.assume(sp.S.DOM(r, E, PV) == z3.And(*conj))


for _k in ("VectorSum", "LinearCombination", "L2Norm", "L1Norm"):
    @rule("dom", _k)
    def _(sp, r, E, PV):
        _dom_vec(sp, r, E, PV, [FV(sp, r)])


@rule("dom", "VectorExpressionSum")
def _(sp, r, E, PV):
    _dom_vec(sp, r, E, PV, [FV(sp, r, "expression")])


@rule("dom", "DotProduct")
def _(sp, r, E, PV):
    _dom_vec(sp, r, E, PV, [FV(sp, r, "left"), FV(sp, r, "right")])


@rule("dom", "VectorPowerSum")
def _(sp, r, E, PV):
    from .specfns import POWDOM
    v = FV(sp, r)
    ok = named_forall(sp.ip, "PWDOMALL", [r, E, PV], VLEN(v), lambda k: POWDOM(DENV(v, k, E, PV), FPOWER(r)))
    _dom_vec(sp, r, E, PV, [v], extra=ok(VLEN(v)))


@rule("dom", "VectorUnarySum")
def _(sp, r, E, PV):
    v = FV(sp, r)
    register_vector(sp, v, None, E, PV)
    n = VLEN(v)
    for op in ops_of(sp, r, VEC_UNARY_OPS):
        ok = named_forall(sp.ip, "UDOM_" + op, [r, E, PV], n, lambda k, op=op: unary_domain(sp, op, DENV(v, k, E, PV)))
        sp.ip.path.assume(z3.Implies(guard_op(sp, r, op), sp.S.DOM(r, E, PV) == ok(n)))


# ------------------------------------------------------------------------------------------- QuadraticForm  x' Q x
MATQ = fn("MAT_matrix", Ref, sym.RealMat)


@rule("den", "QuadraticForm")
def _(sp, r, E, PV):
    ip = sp.ip
    v = FV(sp, r)
    register_vector(sp, v, None, E, PV)
    n = VLEN(v)
    Q = MATQ(r)

    def col(j):
        return named_array(ip, "A_qfcol", [r, E, PV, j], n, lambda i, j=j: DENV(v, i, E, PV) * sym.msel(Q, i, j))
    outer = named_array(ip, "A_qf", [r, E, PV], n, lambda j: psum(ip, col(j), n) * DENV(v, j, E, PV))
    ip.path.assume(sp.S.DEN(r, E, PV) == psum(ip, outer, n))


@rule("wf", "QuadraticForm")
def _(sp, r):
    sp.ip.path.assume(WF(r) == vec_wf(sp, FV(sp, r)))


@rule("dom", "QuadraticForm")
def _(sp, r, E, PV):
    _dom_vec(sp, r, E, PV, [FV(sp, r)])


@rule("occ", "QuadraticForm")
def _(sp, r, w):
    _occ_vec(sp, r, w, [FV(sp, r)])


# ------------------------------------------------------------------------------------------- SYN of vector nodes
from .specfns import SYN      # noqa: E402


def vec_syn(sp, v):
    n = VLEN(v)
    register_vector(sp, v)
    alls = named_forall(sp.ip, "SYNALL", [v], n, lambda k: SYN(ELEME(v, k)))
    return z3.Or(sp.K.is_kind(v, "VectorVariable"), alls(n))


for _k in ("VectorSum", "LinearCombination"):
    @rule("syn", _k)
    def _(sp, r):
        sp.ip.path.assume(SYN(r) == vec_syn(sp, FV(sp, r)))

# kinds the LP extraction routines have no arm for: a degree <= 1 must never be reported for them
for _k in ("L2Norm", "L1Norm", "VectorUnarySum", "ElementwiseUnary", "MatrixSum", "FrobeniusNorm", "VectorExpressionSum",
           "DotProduct", "QuadraticForm", "ElementwisePower"):
    @rule("syn", _k)
    def _(sp, r):
        sp.ip.path.assume(z3.Not(SYN(r)))


@rule("syn", "VectorPowerSum")
def _(sp, r):
    # after the D24 repair the extraction routines have an arm for sum(x ** k) with k = 1 (sum of the variables) and k = 0
    # (the constant len(x)); on the unrepaired tree these arms are missing and the clauses that use them are refuted
    pw = FPOWER(r)
    sp.ip.path.assume(SYN(r) == z3.Or(pw == 0, pw == 1))
