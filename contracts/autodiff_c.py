"""Contracts for optyx.core.autodiff (C02, C15, C17 and the pieces C03/C12/C14 rely on)."""
from __future__ import annotations

import ast

import z3

from pyvc import sym
from pyvc.contracts import T
from pyvc.spec import BINARY_OPS, UNARY_OPS
from pyvc.values import ClassRef, FuncRef, PDict

from .specfns import Spec as _Spec


class Spec(_Spec):
    """Gradient-family contracts are stated at an arbitrary parameter valuation (C12/P2): the default valuation of every
    spec function used here is PVX, not the current store."""
    @property
    def PV(self):
        return self.PVX

M = "optyx.core.autodiff"
SCALAR_LEAVES = ["Constant", "Variable", "Parameter"]


def scalar_node_cases(src) -> list[str]:
    """Every scalar expression kind found by the scan; BinaryOp/UnaryOp split by operator."""
    out = list(SCALAR_LEAVES)
    out += [f"BinaryOp:{op}" for op in BINARY_OPS]
    out += [f"UnaryOp:{op}" for op in UNARY_OPS]
    for k in src.expression_kinds():
        if k in SCALAR_LEAVES or k in ("BinaryOp", "UnaryOp", "ElementwisePower", "ElementwiseUnary"):
            continue
        out.append(k)
    return out


def node_type(node: str) -> T:
    if ":" in node:
        cls, op = node.split(":", 1)
        return T.obj(cls, exact=True, known={"op": op})
    return T.obj(node, exact=True)


def registered_gradient_classes(src) -> dict[str, str]:
    """class name -> key of the rule, from the @register_gradient(X) decorators in the real source."""
    out = {}
    for fi in src.funcs.values():
        for d in fi.decorators:
            if d.startswith("register_gradient(") and fi.module == M:
                out[d[len("register_gradient("):-1]] = fi.key
    return out


def install(reg, src):
    rules = registered_gradient_classes(src)
    reg.registered_gradient = rules

    # module state built by the decorators at import time (S17): the registry dict
    def init_globals(ip):
        d = PDict()
        for cls, key in rules.items():
            d.items[("class", cls)] = FuncRef(src.funcs[key])
        ip.path.globals[f"{M}._gradient_registry"] = d
    reg.global_inits = getattr(reg, "global_inits", []) + [init_globals]

    reg.mark_inline(f"{M}:_is_zero", f"{M}:_is_one", f"{M}:has_gradient_rule", f"{M}:apply_gradient_rule",
                    "optyx.core.expressions:_ensure_expr")
    for f in ["sin", "cos", "tan", "exp", "log", "sqrt", "abs_", "tanh", "sinh", "cosh"]:
        reg.mark_inline(f"optyx.core.functions:{f}")

    def no_new_vars(c, sp, res, sources):
        """G3: every variable of the result occurs in one of the sources.  Proved at the arbitrary name of the path; when a
        contract is applied the fact is registered for every name the caller reasons about."""
        from .problem_c import NM, forall_name
        gen = lambda nm: z3.Implies(sp.occ(res, nm), z3.Or(*[sp.occ(s_, nm) for s_ in sources]) if sources else z3.BoolVal(False))
        if c.verifying:
            return gen(NM(c.ip))
        forall_name(c.ip, gen)
        return z3.BoolVal(True)
    reg.no_new_vars = no_new_vars

    # ------------------------------------------------------------------ simplifiers
    def simp2(name, combine, zero_rule, domain=None):
        @reg.contract(f"{M}:{name}", props=["C02", "C17", "C03"])
        def _(c):
            sp = Spec(c.ip)
            l = c.arg("left" if name != "_simplify_pow" else "base", T.expr())
            r = c.arg("right" if name != "_simplify_pow" else "exp", T.expr())
            c.returns(T.expr())
            c.requires(sp.wf(l), sp.wf(r), name="well-formed operands")
            c.ensures("wf", lambda res: sp.wf(res))
            dl, dr = sp.den(l, sp.E, sp.PVX), sp.den(r, sp.E, sp.PVX)
            guard = domain(sp, l, r, dl, dr) if domain else z3.BoolVal(True)
            c.ensures("den", lambda res: z3.Implies(guard, sp.den(res, sp.E, sp.PVX) == combine(sp, dl, dr)))
            if zero_rule is not None:
                c.ensures("zero", lambda res: z3.Implies(zero_rule(sp.is_zero(l), sp.is_zero(r)), sp.is_zero(res)))
            c.ensures("vars", lambda res: no_new_vars(c, sp, res, [l, r]))
        return _

    simp2("_simplify_add", lambda sp, a, b: a + b, lambda zl, zr: z3.And(zl, zr))
    simp2("_simplify_sub", lambda sp, a, b: a - b, lambda zl, zr: z3.And(zl, zr))
    simp2("_simplify_mul", lambda sp, a, b: a * b, lambda zl, zr: z3.Or(zl, zr))
    simp2("_simplify_div", lambda sp, a, b: a / b, lambda zl, zr: zl, domain=lambda sp, l, r, a, b: b != 0)
    # x**0 -> 1, x**1 -> x, 1**n -> 1 hold for every real pow; the code's `0**n -> 0` arm is only right for n > 0
    # (found by the design spike): the honest clause keeps that arm out of the equality.
    simp2("_simplify_pow", lambda sp, a, b: sp.ip.models.pow_term(sp.ip, a, b), None,
          domain=lambda sp, l, r, a, b: z3.Not(z3.And(sp.is_zero(l), b <= 0)))

    @reg.contract(f"{M}:_simplify_neg", props=["C02", "C17", "C03"])
    def _(c):
        sp = Spec(c.ip)
        e = c.arg("expr", T.expr())
        c.returns(T.expr())
        c.requires(sp.wf(e), name="well-formed operand")
        c.ensures("wf", lambda res: sp.wf(res))
        c.ensures("den", lambda res: sp.den(res, sp.E, sp.PVX) == -sp.den(e, sp.E, sp.PVX))
        c.ensures("zero", lambda res: z3.Implies(sp.is_zero(e), sp.is_zero(res)))
        c.ensures("vars", lambda res: no_new_vars(c, sp, res, [e]))

    # ------------------------------------------------------------------ gradient family
    def grad_contract(c, sp, e, wrt):
        """G1 + G2 (taken from the property statement), shared by gradient, _gradient_cached, _gradient_iterative,
        apply_gradient_rule and every registered rule."""
        w = sp.name(wrt)
        c.returns(T.expr())
        c.decreases(e)
        c.ensures("G1", lambda res: z3.Implies(sp.reg(e, w, sp.E, sp.PVX), sp.den(res, sp.E, sp.PVX) == sp.dv(e, w, sp.E, sp.PVX)))
        c.ensures("G2", lambda res: z3.Implies(z3.Not(sp.occ(e, w)), sp.is_zero(res)))
        c.ensures("wf", lambda res: sp.wf(res))
        c.ensures("G3", lambda res: no_new_vars(c, sp, res, [e]))
        if not c.verifying:
            # definitional link used by the derivative compilers (C03): DOMD(e, w) names "the derivative tree built for
            # (e, w) is inside its domain"; the tree is a function of (e, w), so the name is well defined
            DOMD = sym.fn("DOMD", sym.Ref, sym.Name, sym.EnvSort, sym.PVSort, sym.B)
            c.ensures("DOMD", lambda res: DOMD(sp.ref(e), w, sp.E, sp.PVX) == sp.dom(res, sp.E, sp.PVX))
        return w

    cases = scalar_node_cases(src)

    def wf_tree(c, sp, e):
        """Well-formed tree (A5/A7): operators come from the operator tables; Constant values are real scalars."""
        pass

    @reg.contract(f"{M}:_gradient_cached", props=["C02", "C12", "C17"], cases={"node": cases}, group="grad", rank=3)
    def _(c):
        sp = Spec(c.ip)
        node = c.choose("node", cases)
        e = c.arg("expr", node_type(node) if node else None)
        wrt = c.arg("wrt", T.obj("Variable"))
        c.requires(sp.wf(e), name="well-formed scalar expression")
        grad_contract(c, sp, e, wrt)

    @reg.contract(f"{M}:gradient", props=["C02", "C12", "C17"], cases={"node": cases}, group="grad", rank=4)
    def _(c):
        sp = Spec(c.ip)
        node = c.choose("node", cases)
        e = c.arg("expr", node_type(node) if node else None)
        wrt = c.arg("wrt", T.obj("Variable"))
        c.requires(sp.wf(e), name="well-formed scalar expression")
        grad_contract(c, sp, e, wrt)

    @reg.contract(f"{M}:_gradient_iterative", props=["C02", "C15"], cases={"node": cases}, group="grad", rank=3,
                  bounded="worklist with results keyed by id(): block clauses are proved in contracts/iterative_c.py, "
                          "the traversal (no KeyError, root reached) is covered by the bounded stand-in")
    def _(c):
        sp = Spec(c.ip)
        node = c.choose("node", cases)
        e = c.arg("expr", node_type(node) if node else None)
        wrt = c.arg("wrt", T.obj("Variable"))
        c.requires(sp.wf(e), name="well-formed scalar expression")
        grad_contract(c, sp, e, wrt)

    @reg.contract(f"{M}:_estimate_tree_depth", props=["C15"],
                  trusted="returns some int and writes nothing (frame scan: no attribute/subscript stores in the body); "
                          "its value only selects between two twins that meet the same contract")
    def _(c):
        c.arg("expr"); c.arg("max_check", default=500); c.arg("full_traversal", default=False)
        c.returns(T.int_())

    reg.grad_contract = grad_contract
    install_rules(reg, src)
    install_replay(reg, src)


# ======================================================================================= registered vector rules
def install_rules(reg, src):
    from .problem_c import NM as NM_
    from .seqtheory import (OCCV, REGALL, VLEN, ELEMV, ELEME, DENV, DVV, register_vector, psum, add_index)
    from .vecspec import dv_array, FV
    R_ = f"{M}:_register_vector_gradient_rules."
    grad_contract = reg.grad_contract
    VK = ["VectorVariable", "VectorExpression"]

    def setup(c, cls, vec_field="vector", known=None):
        sp = Spec(c.ip)
        e = c.arg("expr", T.obj(cls, exact=True, known=known))
        wrt = c.arg("wrt", T.obj("Variable"))
        c.requires(sp.wf(e), name="well-formed scalar expression")
        w = grad_contract(c, sp, e, wrt)
        return sp, e, wrt, w

    def fix_kind(c, sp, vref, kind):
        if c.verifying:
            c.assume(sp.K.is_kind(vref, kind))
            sp.S.learn_kind(c.ip, vref, kind)

    def acc_inv(sp, e, w, v, arrname, extra_regall=None):
        """Invariant of an accumulating loop  result = result + term_i  (G1 prefix, G2 prefix, WF)."""
        r = sp.ref(e)
        D = dv_array(sp, arrname, r, w)
        def inv(st):
            res = st.var("result")
            regs = REGALL(v, w, sp.E, sp.PV, st.i)
            if extra_regall is not None:
                regs = z3.And(regs, extra_regall(st.i))
            return [z3.Implies(regs, sp.den(res) == sp.S.PSUM(D, st.i)),
                    z3.Implies(z3.Not(OCCV(v, w, st.i)), sp.is_zero(res)),
                    sp.wf(res), vars_so_far(sp, res, [v], st.i)]
        return inv

    def vars_so_far(sp, res, vecs, i):
        """G3 inside an accumulating loop: every variable of the partial result occurs in one of the elements visited so far."""
        from .problem_c import NM
        nm = NM(sp.ip)
        for v_ in vecs:
            register_vector(sp, v_, nm)
        return z3.Implies(sp.occ(res, nm), z3.Or(*[OCCV(v_, nm, i) for v_ in vecs]))

    def isnone(x):
        from pyvc.values import SOpt
        if x is None:
            return z3.BoolVal(True)
        if isinstance(x, SOpt):
            return x.isnone
        return z3.BoolVal(False)

    def lookup_inv(v, w):
        return lambda st: z3.Not(OCCV(v, w, st.i))

    # ---- LinearCombination
    @reg.contract(R_ + "gradient_linear_combination", props=["C02", "C03"], cases={"vec": VK}, group="grad", rank=2)
    def _(c):
        sp, e, wrt, w = setup(c, "LinearCombination")
        v = FV(sp, sp.ref(e))
        fix_kind(c, sp, v, c.choose("vec", VK))
        if c.verifying:
            sp.dv(e, w); sp.occ(e, w)
            c.loop(1, lookup_inv(v, w))
            c.loop(2, acc_inv(sp, e, w, v, "D_lc"), havoc={"result": T.expr()})

    # ---- VectorSum (always a VectorVariable)
    @reg.contract(R_ + "gradient_vector_sum", props=["C02", "C03"], group="grad", rank=2)
    def _(c):
        sp, e, wrt, w = setup(c, "VectorSum")
        v = FV(sp, sp.ref(e))
        fix_kind(c, sp, v, "VectorVariable")
        if c.verifying:
            sp.dv(e, w); sp.occ(e, w)
            c.loop(1, lookup_inv(v, w))

    # ---- VectorExpressionSum
    @reg.contract(R_ + "gradient_vector_expression_sum", props=["C02", "C03"], group="grad", rank=2)
    def _(c):
        sp, e, wrt, w = setup(c, "VectorExpressionSum")
        v = FV(sp, sp.ref(e), "expression")
        fix_kind(c, sp, v, "VectorExpression")
        if c.verifying:
            sp.dv(e, w); sp.occ(e, w)
            c.loop(1, acc_inv(sp, e, w, v, "D_vesum"), havoc={"result": T.expr()})

    # ---- L2Norm / L1Norm
    @reg.contract(R_ + "gradient_l2_norm", props=["C02", "C03"], cases={"vec": VK}, group="grad", rank=2)
    def _(c):
        sp, e, wrt, w = setup(c, "L2Norm")
        v = FV(sp, sp.ref(e))
        fix_kind(c, sp, v, c.choose("vec", VK))
        if c.verifying:
            sp.dv(e, w); sp.occ(e, w)
            nrm = sp.den(e)
            c.loop(1, lookup_inv(v, w))
            r = sp.ref(e)
            D = dv_array(sp, "D_l2", r, w)
            def inv(st):
                res = st.var("result")
                return [z3.Implies(z3.And(REGALL(v, w, sp.E, sp.PV, st.i), nrm != 0), sp.den(res) == sp.S.PSUM(D, st.i) / nrm),
                        z3.Implies(z3.Not(OCCV(v, w, st.i)), sp.is_zero(res)), sp.wf(res),
                        z3.Implies(sp.occ(res, NM_(sp.ip)), sp.occ(e, NM_(sp.ip)))]
            c.loop(2, inv, havoc={"result": T.expr()})

    @reg.contract(R_ + "gradient_l1_norm", props=["C02", "C03"], cases={"vec": VK}, group="grad", rank=2)
    def _(c):
        sp, e, wrt, w = setup(c, "L1Norm")
        v = FV(sp, sp.ref(e))
        fix_kind(c, sp, v, c.choose("vec", VK))
        if c.verifying:
            sp.dv(e, w); sp.occ(e, w)
            c.loop(1, lookup_inv(v, w))
            NZ = sym.fn("NZALL", sym.Ref, sym.EnvSort, sym.PVSort, sym.I, sym.B)
            c.loop(2, acc_inv(sp, e, w, v, "D_l1", extra_regall=lambda i: NZ(v, sp.E, sp.PV, i)), havoc={"result": T.expr()})

    # ---- VectorPowerSum / VectorUnarySum (always VectorVariable)
    @reg.contract(R_ + "gradient_vector_power_sum", props=["C02", "C03"], group="grad", rank=2)
    def _(c):
        sp, e, wrt, w = setup(c, "VectorPowerSum")
        v = FV(sp, sp.ref(e))
        fix_kind(c, sp, v, "VectorVariable")
        if c.verifying:
            sp.dv(e, w); sp.occ(e, w)
            c.loop(1, lookup_inv(v, w))

    from pyvc.spec import VEC_UNARY_OPS

    @reg.contract(R_ + "gradient_vector_unary_sum", props=["C02", "C03"], cases={"op": VEC_UNARY_OPS}, group="grad", rank=2)
    def _(c):
        op = c.choose("op", VEC_UNARY_OPS)
        sp, e, wrt, w = setup(c, "VectorUnarySum", known={"op": op} if op else None)
        v = FV(sp, sp.ref(e))
        fix_kind(c, sp, v, "VectorVariable")
        if c.verifying:
            sp.dv(e, w); sp.occ(e, w)
            c.loop(1, lookup_inv(v, w))

    # ---- DotProduct
    @reg.contract(R_ + "gradient_dot_product", props=["C02", "C03"], cases={"left": VK, "right": VK}, group="grad", rank=2)
    def _(c):
        sp, e, wrt, w = setup(c, "DotProduct")
        r = sp.ref(e)
        l, rr = FV(sp, r, "left"), FV(sp, r, "right")
        fix_kind(c, sp, l, c.choose("left", VK))
        fix_kind(c, sp, rr, c.choose("right", VK))
        if c.verifying:
            sp.dv(e, w); sp.occ(e, w)
            lk, rk = c.case["left"], c.case["right"]
            if lk == "VectorVariable":
                c.loop(1, lambda st: [isnone(st.var("left_index")), z3.Not(OCCV(l, w, st.i))],
                       havoc={"left_index": T.opt(T.int_())})
            if rk == "VectorVariable":
                c.loop(2, lambda st: [isnone(st.var("right_index")), z3.Not(OCCV(rr, w, st.i))],
                       havoc={"right_index": T.opt(T.int_())})
            D = dv_array(sp, "D_dot", r, w)
            def inv(st):
                res = st.var("result")
                return [z3.Implies(z3.And(REGALL(l, w, sp.E, sp.PV, st.i), REGALL(rr, w, sp.E, sp.PV, st.i)),
                                   sp.den(res) == sp.S.PSUM(D, st.i)),
                        z3.Implies(z3.Not(z3.Or(OCCV(l, w, st.i), OCCV(rr, w, st.i))), sp.is_zero(res)), sp.wf(res),
                        z3.Implies(sp.occ(res, NM_(sp.ip)), sp.occ(e, NM_(sp.ip)))]
            c.loop(3, inv, havoc={"result": T.expr()})

    # ---- QuadraticForm: double loop over a numeric matrix; contract stated, body not yet within reach
    @reg.contract(R_ + "gradient_quadratic_form", props=["C02", "C03"], group="grad", rank=2,
                  trusted="double accumulation loop over Q + Q.T not yet under proof; exercised by the bounded stand-in")
    def _(c):
        setup(c, "QuadraticForm")


# ======================================================================================= replay support
def install_replay(reg, src):
    import random as _random
    import sys as _sys, os as _os
    _sys.path.insert(0, _os.path.join(_os.path.dirname(_os.path.dirname(_os.path.abspath(__file__))), "native"))
    import build as nbuild
    from pyvc.concretize import Concretizer, find_const

    def grad_conc(eng, ob, model, oid):
        cz = Concretizer(eng, model)
        e = find_const(ob, "expr!")
        w = find_const(ob, "wrt!")
        if e is None or w is None:
            return None
        erc = cz.expr(e)
        wname = cz.name(cz.S.F("name", sym.Name)(w))
        cz.env.setdefault(wname, 0.7)
        return {"family": "gradient", "fn": oid.split(" / ")[0], "args": [erc, {"cls": "Variable", "name": wname}],
                "clause": oid.split(" / ")[-1], "env": cz.env}

    def grad_search(eng, ob, oid, seed):
        rng = _random.Random(seed)
        case = oid.split(" / ")[1]
        pool = []
        want_root = case.split("=", 1)[1] if case.startswith("node=") else None
        tries = 0
        while len(pool) < 1200 and tries < 60000:
            tries += 1
            e = nbuild.rand_scalar(rng, 3)
            if want_root is not None:
                root = e["cls"] + (":" + e["op"] if e["cls"] in ("BinaryOp", "UnaryOp") else "")
                if root != want_root:
                    continue
            for wn in ("x", "v[0]", "v[1]", "q"):
                pool.append({"args": [e, {"cls": "Variable", "name": wn}]})
        fnkey = oid.split(" / ")[0]
        if "_register_vector_gradient_rules." in fnkey:
            want = {"gradient_linear_combination": "LinearCombination", "gradient_vector_sum": "VectorSum",
                    "gradient_vector_expression_sum": "VectorExpressionSum", "gradient_dot_product": "DotProduct",
                    "gradient_l2_norm": "L2Norm", "gradient_l1_norm": "L1Norm", "gradient_quadratic_form": "QuadraticForm",
                    "gradient_vector_power_sum": "VectorPowerSum", "gradient_vector_unary_sum": "VectorUnarySum"}[fnkey.split(".")[-1]]
            pool = []
            tries = 0
            while len(pool) < 1200 and tries < 40000:
                tries += 1
                e = nbuild.rand_vector_node(rng, 1)
                if e["cls"] != want:
                    continue
                for wn in ("v[0]", "v[1]", "v[2]", "x"):
                    pool.append({"args": [e, {"cls": "Variable", "name": wn}]})
        return {"mode": "search", "family": "gradient", "fn": fnkey, "clause": oid.split(" / ")[-1], "pool": pool,
                "seed": seed, "points": 2}

    for k in list(reg.contracts):
        if k.startswith(M + ":") and ("gradient" in k):
            reg.concretizers[k] = grad_conc
            reg.native_searches[k] = grad_search

    def simp_conc(eng, ob, model, oid):
        cz = Concretizer(eng, model)
        fnkey = oid.split(" / ")[0]
        op = fnkey.split("_simplify_")[1]
        names = {"pow": ("base!", "exp!"), "neg": ("expr!",)}.get(op, ("left!", "right!"))
        args = []
        for n in names:
            t = find_const(ob, n)
            if t is None:
                return None
            args.append(cz.expr(t))
        return {"family": "simplify", "op": op, "fn": fnkey, "args": args, "clause": oid.split(" / ")[-1], "env": cz.env}

    def simp_search(eng, ob, oid, seed):
        rng = _random.Random(seed)
        fnkey = oid.split(" / ")[0]
        op = fnkey.split("_simplify_")[1]
        k = 1 if op == "neg" else 2
        pool = [{"args": [nbuild.rand_scalar(rng, 2) for _ in range(k)]} for _ in range(1500)]
        return {"mode": "search", "family": "simplify", "op": op, "fn": fnkey, "clause": oid.split(" / ")[-1],
                "pool": pool, "seed": seed, "points": 2}

    for k in list(reg.contracts):
        if "_simplify_" in k:
            reg.concretizers[k] = simp_conc
            reg.native_searches[k] = simp_search
