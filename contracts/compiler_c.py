"""Contracts for optyx.core.compiler (C01, C12 and the value half of C15; C03/C19 closures further down)."""
from __future__ import annotations

import z3

from pyvc import sym
from pyvc.contracts import T
from pyvc.spec import BINARY_OPS, UNARY_OPS, VEC_UNARY_OPS
from pyvc.values import SArr, SInt, SMap, SReal, SpecFn, Closure, Unsupported, real_term, SSeq

from .specfns import Spec
from .autodiff_c import node_type

M = "optyx.core.compiler"
IDXS = z3.ArraySort(sym.Name, sym.I)
NAMESET = z3.ArraySort(sym.Name, sym.B)
DOMOF = sym.fn("DOMOF", IDXS, NAMESET)     # key set of an index map
NV = sym.fn("NVARS", IDXS, sym.I)          # length of the point arrays the index map is meant for


def INDOM(IDX, nm):
    return z3.Select(DOMOF(IDX), nm)


def fresh_var_indices(ip, hint="var_indices"):
    """An arbitrary injective map name -> position (any permutation, any superset): only `in`, `[]`, `.get`."""
    IDX = sym.fresh(hint, IDXS)
    return make_index_map(ip, IDX)


def make_index_map(ip, IDX):
    path = ip.path
    path.assume(NV(IDX) >= 0)

    def lookup(nm, IDX=IDX):
        t = z3.Select(IDX, nm)
        key = f"idxrange:{IDX}:{nm}"
        if key not in path.unfolded:
            path.unfolded.add(key)
            path.assume(z3.Implies(INDOM(IDX, nm), z3.And(t >= 0, t < NV(IDX))))
        return SInt(t)
    m = SMap(lambda nm, IDX=IDX: INDOM(IDX, nm), lookup, desc="var_indices")
    m.idx = IDX
    return m


def names_of_varlist(ip, S: SSeq):
    """NAMESET of a sequence of Variables + the facts  k in range -> name(V_k) in the set, distinct names, IDX[name V_k] = k."""
    from .seqtheory import seqs, _once, skolem
    tag = S.tag[2] if S.tag else None
    if tag is None:
        raise Unsupported("variable list without identity")
    NS = sym.fn("NAMES_OF", sym.Ref, NAMESET)(tag)
    n = ip.models.len_term(S.n)
    p = ip.path
    FN = sym.fn("F_name", sym.Ref, sym.Name)
    s = seqs(ip)

    def pw(k):
        if _once(ip, f"nameset:{tag}:{k}"):
            vk = S.get(k)
            p.assume(z3.Implies(z3.And(k >= 0, k < n), z3.Select(NS, FN(vk.ref))))
            for k2 in list(s.idx):
                if not k2.eq(k) and _once(ip, f"distinctvars:{tag}:{min(str(k), str(k2))}:{max(str(k), str(k2))}"):
                    v2 = S.get(k2)
                    p.assume(z3.Implies(z3.And(k >= 0, k < n, k2 >= 0, k2 < n, FN(vk.ref) == FN(v2.ref)), k == k2))
    if _once(ip, f"namesetreg:{tag}"):
        s.pointwise.append(pw)
    return NS


def index_map_of_varlist(ip, S: SSeq):
    """{v.name: i for i, v in enumerate(variables)} for a list of Variables with distinct names."""
    from .seqtheory import seqs, _once
    NS = names_of_varlist(ip, S)
    tag = S.tag[2]
    IDX = sym.fn("IDX_OF", sym.Ref, IDXS)(tag)
    n = ip.models.len_term(S.n)
    p = ip.path
    FN = sym.fn("F_name", sym.Ref, sym.Name)
    if _once(ip, f"idxof:{tag}"):
        p.assume(DOMOF(IDX) == NS)
        p.assume(NV(IDX) == n)

        def pw(k):
            if _once(ip, f"idxof:{tag}:{k}"):
                p.assume(z3.Implies(z3.And(k >= 0, k < n), z3.Select(IDX, FN(S.get(k).ref)) == k))
        seqs(ip).pointwise.append(pw)
    return make_index_map(ip, IDX)


def index_term(m: SMap):
    return m.idx


def point_for(ip, IDX, hint="x"):
    """A fresh point array of the right length together with the environment it denotes."""
    arr = sym.fresh(hint, sym.RealArr)
    ENV = sym.fresh("ENV_" + hint, sym.EnvSort)
    return SArr(arr, n=NV(IDX), envlink=(IDX, ENV, ip.path)), ENV


def compiled_fn(sp, e, IDX, what="value"):
    """The callable promised by a compiler contract: f(x) = den(e) at (env denoted by x, parameter store at call time)."""
    ip = sp.ip

    def call(ip2, x, *rest):
        if not isinstance(x, SArr) or x.shape is not None:
            raise Unsupported("compiled callable applied to a non 1-D array")
        if x.envlink is None:
            x.envlink = (IDX, sym.fresh("ENV_x", sym.EnvSort), ip2.path)
        ENV = x.envlink[1]
        sp2 = Spec(ip2)
        # what the compiler contracts prove: the value is the denotation at every point of the expression's domain (outside
        # it NumPy produces inf/nan, which real arithmetic does not model: A1)
        # a compiled callable is a function of the tree, the point and the parameter store: the same call gives the same value
        out = sym.fn("COMPILED_OUT", sym.Ref, sym.RealArr, sym.PVSort, sym.R)(sp2.ref(e), x.arr, sp2.PV)
        ip2.path.assume(z3.Implies(sp2.dom(e, ENV, sp2.PV), out == sp2.den(e, ENV, sp2.PV)))
        return SReal(out, "npfloat")
    return SpecFn(call, desc=f"compiled {what}", meta={"compiled_of": e})


def compile_cases(src):
    out = ["Constant", "Variable", "Parameter"] + [f"BinaryOp:{op}" for op in BINARY_OPS] + [f"UnaryOp:{op}" for op in UNARY_OPS]
    for k in src.expression_kinds():
        if k in ("Constant", "Variable", "Parameter", "BinaryOp", "UnaryOp"):
            continue
        if k in ("LinearCombination", "L2Norm", "L1Norm"):
            out += [f"{k}|VectorVariable", f"{k}|VectorExpression"]
        elif k == "DotProduct":
            out += [f"{k}|{a}|{b}" for a in ("VectorVariable", "VectorExpression") for b in ("VectorVariable", "VectorExpression")]
        elif k == "VectorUnarySum":
            out += [f"{k}:{op}" for op in VEC_UNARY_OPS]
        elif k in ("ElementwisePower", "ElementwiseUnary"):
            continue        # vector-valued: outside "scalar expression"
        elif k == "QuadraticForm":
            continue        # nested sums x'Qx: bounded stand-in only for now (listed in evidence)
        else:
            out.append(k)
    return out


def hashable_kinds(src):
    """Classes whose instances can be hashed: own __hash__, or Expression.__hash__ with `_hash` assigned by __init__."""
    from pyvc.spec import Schema
    ok = []
    for k in src.expression_kinds():
        own = src.classes[k].methods.get("__hash__")
        if own is not None:
            ok.append(k)
            continue
        init = src.find_method(k, "__init__")
        assigned = set()
        if init is not None:
            import ast
            for n in ast.walk(init.node):
                if isinstance(n, ast.Assign):
                    for t in n.targets:
                        if isinstance(t, ast.Attribute) and isinstance(t.value, ast.Name) and t.value.id == "self":
                            assigned.add(t.attr)
        if "_hash" in assigned:
            ok.append(k)
    return ok


COVERS = sym.fn("COVERS", sym.Ref, NAMESET, sym.B)


def _install_cov_rules():
    from .specfns import rule, kids
    from .seqtheory import register_vector, named_forall, VLEN, ELEMV, ELEME, FNAME

    @rule("cov", "Constant", "Parameter")
    def _(sp, r, DS):
        sp.ip.path.assume(COVERS(r, DS))

    @rule("cov", "Variable")
    def _(sp, r, DS):
        sp.ip.path.assume(COVERS(r, DS) == z3.Select(DS, sp.S.F("name", sym.Name)(r)))

    @rule("cov", "BinaryOp")
    def _(sp, r, DS):
        l, rr, _ = kids(sp, r)
        sp.ip.path.assume(COVERS(r, DS) == z3.And(COVERS(l, DS), COVERS(rr, DS)))

    @rule("cov", "UnaryOp")
    def _(sp, r, DS):
        sp.ip.path.assume(COVERS(r, DS) == COVERS(kids(sp, r)[2], DS))

    def vec_rule(fields):
        def f(sp, r, DS):
            conj = []
            for fld in fields:
                v = sp.S.F(fld, sym.Ref)(r)
                register_vector(sp, v)
                n = VLEN(v)
                allc = named_forall(sp.ip, "COVALL", [v, DS], n,
                                    lambda k, v=v: z3.If(sp.K.is_kind(v, "VectorVariable"), z3.Select(DS, FNAME(ELEMV(v, k))),
                                                         COVERS(ELEME(v, k), DS)))
                conj.append(allc(n))
                from .seqtheory import seqs as _sq, _once as _o1
                from .specfns import unfold as _unf

                def pw(k, v=v):
                    # request the coverage unfolding of the k-th element (emitted once its class is learned)
                    if _o1(sp.ip, f"covelem:{v}:{DS}:{k}"):
                        _unf(sp, "cov", ELEME(v, k), (DS,))
                _sq(sp.ip).pointwise.append(pw)
            sp.ip.path.assume(COVERS(r, DS) == z3.And(*conj))
        return f
    for k in ("VectorSum", "LinearCombination", "L2Norm", "L1Norm", "VectorPowerSum", "VectorUnarySum", "QuadraticForm",
              "ElementwisePower", "ElementwiseUnary"):
        rule("cov", k)(vec_rule(["vector"]))
    rule("cov", "VectorExpressionSum")(vec_rule(["expression"]))
    rule("cov", "DotProduct")(vec_rule(["left", "right"]))


_install_cov_rules()


def install(reg, src):
    from .analysis_c import setup_node
    for prop_ in ("C01", "C03", "C19"):
        reg.bounded_checks.setdefault(prop_, []).append({
            "name": "numpy-model", "script": "numpy_model_check.py", "timeout": 300,
            "bound": "300 (quick) / 5000 (thorough) seeded random arrays of length 1..6 per table entry",
            "why": "assumption A2: the closed-form statements the executor uses for NumPy calls (sum, dot, norm, power, gather, "
                   "scatter, clip, reshape, array construction, diag, nan_to_num, reductions over inf/nan) are sampled against "
                   "the installed NumPy; the table itself is assumed"})
    cases = compile_cases(src)
    hashok = hashable_kinds(src)

    def base(c, sp, case, with_names=False):
        e = setup_node(c, sp, case)
        vi = c.arg("var_indices", T.custom(lambda ip, hint: fresh_var_indices(ip)))
        IDX = index_term(vi)
        c.decreases(e)
        c.requires(sp.wf(e), name="well-formed scalar expression")
        # every variable of e is in the index map (V is a superset of vars(e)) -- instantiated at the names looked up
        w = sym.fresh("anyname", sym.Name) if c.verifying else None
        return e, vi, IDX

    def vars_in_dom(c, sp, e, IDX):
        """forall name. OCC(e,name) -> name in dom(var_indices); stated through a Skolem-free instance scheme: the
        implication is added for every name the body looks up (see `lookup hook`)."""
        path = c.ip.path
        path.ghost.setdefault("dom_of", []).append((sp.ref(e), IDX))

    def eval_contract(key, rank, bounded=None):
        @reg.contract(key, props=["C01", "C12", "C15"], cases={"node": cases}, group="compile", rank=rank, bounded=bounded)
        def _(c):
            sp = Spec(c.ip)
            case = c.choose("node", cases)
            e, vi, IDX = base(c, sp, case)
            c.requires(covers(sp, e, IDX), name="every variable of the expression is in the index map")
            c.returns(lambda cc: compiled_fn(sp, e, IDX))
            if c.verifying:
                def post(res):
                    ip = c.ip
                    # call-time heap: parameter values may have changed since the callable was built (C12)
                    ip.path.havoc_store("_value", sym.R)
                    x, ENV = point_for(ip, IDX)
                    sp2 = Spec(ip)
                    ip.path.assume(sp2.dom(e, ENV, sp2.PV))
                    out = ip.call(res, [x], {}, None)
                    if not isinstance(out, (SReal, SInt, int, float)):
                        return z3.BoolVal(False)
                    return real_term(out) == sp2.den(e, ENV, sp2.PV)
                c.ensures("value", post)
        return _

    def covers(sp, e, IDX):
        """COVERS(e, names): vars(e) is a subset of the name set.  Unfolded structurally like the other spec functions."""
        from .specfns import unfold
        r = sp.ref(e)
        DS = DOMOF(IDX) if IDX.sort() == IDXS else IDX
        unfold(sp, "cov", r, (DS,))
        return COVERS(r, DS)

    def covers_from_occ(sp, e, DS):
        """Bridge lemma (structural induction, lean: covers_iff_occ): if every name occurring in e is in DS then COVERS(e, DS);
        stated with a witness name at which all registered for-all-names facts are instantiated."""
        from .problem_c import witness_name
        ip = sp.ip
        r = sp.ref(e)
        key = f"covocc:{r}:{DS}"
        if key in ip.path.unfolded:
            return
        ip.path.unfolded.add(key)
        wn = witness_name(ip, "uncovered")
        ip.path.assume(z3.Or(covers(sp, e, DS), z3.And(sp.occ(e, wn), z3.Not(z3.Select(DS, wn)))))
    reg.covers_from_occ = covers_from_occ

    def covers_to_occ(sp, e, DS):
        """Converse bridge (same structural induction, lean: covers_iff_occ): COVERS(e, DS) and name occurs in e  =>  name in DS;
        registered for every name the path reasons about."""
        from .problem_c import forall_name
        ip = sp.ip
        r = sp.ref(e)
        key = f"occcov:{r}:{DS}"
        if key in ip.path.unfolded:
            return
        ip.path.unfolded.add(key)
        cv = covers(sp, e, DS)
        forall_name(ip, lambda nm: z3.Implies(z3.And(cv, sp.occ(e, nm)), z3.Select(DS, nm)))
    reg.covers_to_occ = covers_to_occ

    eval_contract(f"{M}:_build_evaluator", 1)
    eval_contract(f"{M}:_build_evaluator_iterative", 1,
                  bounded="positional result stack of a two-phase DFS; node blocks build the same closures as the recursive twin "
                          "(checked by the bounded stand-in on all tree shapes up to the stated size)")

    # vector evaluators: f(x)[k] = value of the k-th element
    @reg.contract(f"{M}:_build_vector_evaluator", props=["C01", "C12"], cases={"vec": ["VectorVariable", "VectorExpression"]},
                  group="compile", rank=1)
    def _(c):
        sp = Spec(c.ip)
        vk = c.choose("vec", ["VectorVariable", "VectorExpression"])
        vec = c.arg("vec", T.obj(vk, exact=True) if vk else None)
        vi = c.arg("var_indices", T.custom(lambda ip, hint: fresh_var_indices(ip)))
        IDX = index_term(vi)
        from .seqtheory import register_vector, named_forall, VLEN, ELEMV, ELEME, FNAME, DENV
        v = sp.ref(vec)
        c.decreases(vec)
        register_vector(sp, v)
        n = VLEN(v)
        K = sp.K
        DS = DOMOF(IDX)
        allc = named_forall(c.ip, "COVALL", [v, DS], n,
                            lambda k: z3.If(K.is_kind(v, "VectorVariable"), z3.Select(DS, FNAME(ELEMV(v, k))), COVERS(ELEME(v, k), DS)))
        from .vecspec import vec_wf
        c.requires(vec_wf(sp, v), name="well-formed vector")
        c.requires(allc(n), name="every variable of the vector is in the index map")

        def mk(cc):
            def call(ip2, x):
                if x.envlink is None:
                    x.envlink = (IDX, sym.fresh("ENV_x", sym.EnvSort), ip2.path)
                ENV = x.envlink[1]
                sp2 = Spec(ip2)
                register_vector(sp2, v, None, ENV, sp2.PV)
                return SSeq(n, lambda k: SReal(DENV(v, k if not isinstance(k, int) else z3.IntVal(k), ENV, sp2.PV), "npfloat"),
                            "ndarray", "vector-evaluator", tag=("denv", v, ENV))
            return SpecFn(call, "compiled vector")
        c.returns(mk)
        if c.verifying:
            def post(res):
                ip = c.ip
                ip.path.havoc_store("_value", sym.R)
                x, ENV = point_for(ip, IDX)
                sp2 = Spec(ip)
                out = ip.call(res, [x], {}, None)
                S_ = ip.models.as_seq(out)
                register_vector(sp2, v, None, ENV, sp2.PV)
                sk = sym.fresh("sk_elem", sym.I)
                from .seqtheory import add_index
                add_index(ip, sk)
                ip.path.assume(z3.And(sk >= 0, sk < n))
                from .vecspec import VECDOM
                ip.path.assume(VECDOM(sp2, v, ENV, sp2.PV)(n))
                return [ip.models.len_term(S_.n) == n, real_term(S_.get(sk)) == DENV(v, sk, ENV, sp2.PV)]
            c.ensures("elements", post)

    # ---- compile_expression / _compile_cached / compile_to_dict_function
    def var_list(ip, hint):
        """Ordered variable list with pairwise distinct names (any order, any superset)."""
        return T.seq(T.obj("Variable", exact=True)).fresh(ip, hint)

    @reg.contract(f"{M}:_estimate_tree_depth", props=["C15"],
                  trusted="returns some int and writes nothing (frame scan); only selects between twins with the same contract")
    def _(c):
        c.arg("expr")
        c.returns(T.int_())

    HASHOK = lambda sp, e: sp.K.is_any(sp.ref(e), hashok)

    @reg.contract(f"{M}:_compile_cached", props=["C01", "C12", "C14"], cases={"node": cases}, group="compile", rank=2)
    def _(c):
        sp = Spec(c.ip)
        case = c.choose("node", cases)
        e = setup_node(c, sp, case)
        names = c.arg("var_names", T.const(()))
        items = c.arg("var_indices_items", T.custom(lambda ip, hint: items_value(ip)))
        IDX = items.meta["idx"] if isinstance(items, SpecFn) else None
        if IDX is None:
            raise Unsupported("_compile_cached called with an untracked index-items tuple")
        c.decreases(e)
        c.requires(sp.wf(e), name="well-formed scalar expression")
        c.requires(covers(sp, e, IDX), name="every variable of the expression is in the index map")
        if not c.verifying:
            # lru_cache hashes its arguments before the body runs: Expression.__hash__ reads self._hash
            c.requires(HASHOK(sp, e), name="memo key hashable (_hash assigned by __init__)")
            # C14: Parameter.__eq__ is by name while the value lives in the object, so a closure memoised for one Parameter
            # object would be returned for another one of the same name (lemma:memo:_compile_cached covers the other kinds)
            c.requires(z3.Not(sp.K.is_kind(sp.ref(e), "Parameter")), name="a Parameter root is never memoised (C14)")
        c.returns(lambda cc: compiled_fn(sp, e, IDX))
        if c.verifying:
            def post(res):
                ip = c.ip
                ip.path.havoc_store("_value", sym.R)
                x, ENV = point_for(ip, IDX)
                sp2 = Spec(ip)
                ip.path.assume(sp2.dom(e, ENV, sp2.PV))
                out = ip.call(res, [x], {}, None)
                return real_term(out) == sp2.den(e, ENV, sp2.PV)
            c.ensures("value", post)

    def items_value(ip, IDX=None):
        """tuple(var_indices.items()) of an index map: only dict(...) of it is ever taken."""
        IDX = IDX if IDX is not None else sym.fresh("var_indices", IDXS)
        m = make_index_map(ip, IDX)
        return SpecFn(None, "index-items", meta={"idx": IDX, "as_dict": lambda ip2: m})
    reg.items_value = items_value
    reg.covers = covers
    reg.COVERS = COVERS
    reg.compiled_fn = compiled_fn
    reg.make_index_map = make_index_map
    reg.point_for = point_for
    reg.INDOM, reg.NV, reg.IDXS = INDOM, NV, IDXS
    install_top(reg, src)
    install_replay(reg, src)


def install_top(reg, src):
    """compile_expression / compile_to_dict_function (entry points taking the ordered variable list)."""
    from .analysis_c import setup_node
    import ast as _ast
    cases = compile_cases(src)

    def name_to_position_shape(e):
        """{<t>.name: <i> for <i>, <t> in enumerate(<seq>)}  with any identifiers: returns the AST of <seq>, else None."""
        if len(e.generators) != 1 or e.generators[0].ifs:
            return None
        g = e.generators[0]
        it = g.iter
        if not (isinstance(it, _ast.Call) and isinstance(it.func, _ast.Name) and it.func.id == "enumerate" and len(it.args) == 1
                and not it.keywords):
            return None
        tg = g.target
        if not (isinstance(tg, _ast.Tuple) and len(tg.elts) == 2 and all(isinstance(x, _ast.Name) for x in tg.elts)):
            return None
        i_name, t_name = tg.elts[0].id, tg.elts[1].id
        if not (isinstance(e.key, _ast.Attribute) and e.key.attr == "name" and isinstance(e.key.value, _ast.Name)
                and e.key.value.id == t_name):
            return None
        if not (isinstance(e.value, _ast.Name) and e.value.id == i_name):
            return None
        return it.args[0]

    def name_to_float_item_shape(e):
        """{<t>.name: float(<arr>[<i>]) for <i>, <t> in enumerate(<seq>)}: returns (AST of <seq>, AST of <arr>), else None."""
        if len(e.generators) != 1 or e.generators[0].ifs:
            return None
        g = e.generators[0]
        it = g.iter
        if not (isinstance(it, _ast.Call) and isinstance(it.func, _ast.Name) and it.func.id == "enumerate" and len(it.args) == 1
                and not it.keywords):
            return None
        tg = g.target
        if not (isinstance(tg, _ast.Tuple) and len(tg.elts) == 2 and all(isinstance(x, _ast.Name) for x in tg.elts)):
            return None
        i_name, t_name = tg.elts[0].id, tg.elts[1].id
        if not (isinstance(e.key, _ast.Attribute) and e.key.attr == "name" and isinstance(e.key.value, _ast.Name)
                and e.key.value.id == t_name):
            return None
        v = e.value
        if not (isinstance(v, _ast.Call) and isinstance(v.func, _ast.Name) and v.func.id == "float" and len(v.args) == 1 and not v.keywords):
            return None
        sub = v.args[0]
        if not (isinstance(sub, _ast.Subscript) and isinstance(sub.slice, _ast.Name) and sub.slice.id == i_name):
            return None
        if any(isinstance(n_, _ast.Name) and n_.id in (i_name, t_name) for n_ in _ast.walk(sub.value)):
            return None
        return it.args[0], sub.value

    def dict_hook(ip, e, fr, S):
        # {var.name: i for i, var in enumerate(variables)}  (any identifiers)
        txt = _ast.unparse(e)
        seq_ast = name_to_position_shape(e)
        if seq_ast is not None:
            vs = ip.ev(seq_ast, fr)
            if isinstance(vs, SSeq) and vs.tag:
                return index_map_of_varlist(ip, vs)
        shp = name_to_float_item_shape(e)
        if shp is not None:
            # {v.name: float(<array>[i]) for i, v in enumerate(<variables>)}: keys = names of the variable list, the value at
            # name V_k is <array>[k]
            from pyvc.values import SDict
            vs = ip.ev(shp[0], fr)
            xs_ = ip.models.as_seq(ip.ev(shp[1], fr))
            if not (isinstance(vs, SSeq) and vs.tag):
                raise Unsupported(f"dict comprehension {txt[:60]}")

            class _X:
                arr = None
            x = _X()
            x.arr = sym.fresh("values_src", sym.RealArr)
            from .seqtheory import define_array
            define_array(ip, x.arr, ip.models.len_term(vs.n), lambda k: real_term(xs_.get(k)), "code")
            NS = names_of_varlist(ip, vs)
            vals = sym.fresh("values_map", z3.ArraySort(sym.Name, sym.R))
            FNm = sym.fn("F_name", sym.Ref, sym.Name)
            n = ip.models.len_term(vs.n)
            from .seqtheory import seqs, _once

            def pw(k):
                if _once(ip, f"valuesmap:{vals}:{k}"):
                    ip.path.assume(z3.Implies(z3.And(k >= 0, k < n), z3.Select(vals, FNm(vs.get(k).ref)) == z3.Select(x.arr, k)))
            seqs(ip).pointwise.append(pw)
            return SDict(NS, vals)
        raise Unsupported(f"dict comprehension {txt[:60]}")
    reg.dict_comprehension_hook = dict_hook

    def varlist(c, name="variables"):
        return c.arg(name, T.seq(T.obj("Variable", exact=True)))

    @reg.contract(f"{M}:compile_expression", props=["C01", "C12", "C14"], cases={"node": cases}, group="compile", rank=3)
    def _(c):
        sp = Spec(c.ip)
        case = c.choose("node", cases)
        e = setup_node(c, sp, case)
        vs = varlist(c)
        if not isinstance(vs, SSeq):
            raise Unsupported("compile_expression with a concrete variable list (use the symbolic list)")
        NS = names_of_varlist(c.ip, vs)
        c.decreases(e)
        c.requires(sp.wf(e), name="well-formed scalar expression")
        if not c.verifying:
            reg.covers_from_occ(sp, e, NS)   # lemma instance: lets a caller establish coverage from "no new variables" facts
        c.requires(reg.covers(sp, e, NS), name="every variable of the expression is in the variable list")
        m = index_map_of_varlist(c.ip, vs)
        IDX = m.idx
        c.returns(lambda cc: compiled_fn(sp, e, IDX))
        if c.verifying:
            def post(res):
                ip = c.ip
                ip.path.havoc_store("_value", sym.R)
                x, ENV = point_for(ip, IDX)
                sp2 = Spec(ip)
                ip.path.assume(sp2.dom(e, ENV, sp2.PV))
                out = ip.call(res, [x], {}, None)
                return real_term(out) == sp2.den(e, ENV, sp2.PV)
            c.ensures("value", post)


def install_bounded_entry(reg):
    reg.bounded_checks.setdefault("C01", []).append({
        "name": "dict-entry", "script": "bounded_entry.py", "timeout": 300,
        "bound": "focus pool (~120 expressions) x 3 variable lists x 5 dictionaries with the same values (insertion order of V, "
                 "reversed, shuffled, an extra key first / last) x 1 point, compared with an independent evaluator",
        "why": "compile_to_dict_function (the dict-input wrapper around the proved compile_expression) has no contract: dictionary "
               "insertion order and len() of a symbolic dict are outside the executor's model"})


def install_replay(reg, src):
    install_bounded_entry(reg)
    import random as _random
    import sys as _sys, os as _os
    _sys.path.insert(0, _os.path.join(_os.path.dirname(_os.path.dirname(_os.path.abspath(__file__))), "native"))
    import build as nbuild
    from pyvc.concretize import Concretizer, find_const

    def conc(eng, ob, model, oid):
        cz = Concretizer(eng, model)
        e = find_const(ob, "expr!")
        if e is None:
            return None
        return {"family": "compile", "fn": oid.split(" / ")[0], "args": [cz.expr(e)], "clause": oid.split(" / ")[-1], "env": cz.env}

    def search(eng, ob, oid, seed):
        rng = _random.Random(seed)
        case = oid.split(" / ")[1]
        root = case.split("=", 1)[1].split("|")[0] if case.startswith("node=") else None
        pool, tries = [], 0
        while len(pool) < 800 and tries < 60000:
            tries += 1
            if root and root.split(":")[0] not in ("Constant", "Variable", "Parameter", "BinaryOp", "UnaryOp"):
                e = nbuild.rand_vector_node(rng, 2)
                if e["cls"] != root.split(":")[0] or (":" in root and e.get("op") != root.split(":")[1]):
                    continue
            else:
                e = nbuild.rand_scalar(rng, 3)
                r0 = e["cls"] + (":" + e["op"] if e["cls"] in ("BinaryOp", "UnaryOp") else "")
                if root and r0 != root:
                    continue
            pool.append({"args": [e]})
        if root in ("MatrixSum", "FrobeniusNorm"):
            pool = [{"args": [{"cls": "py", "expr": "MatrixVariable('M', 2, 2).sum()" if root == "MatrixSum"
                               else "frobenius_norm(MatrixVariable('M', 2, 2))"}]}]
        return {"mode": "search", "family": "compile", "fn": oid.split(" / ")[0], "clause": oid.split(" / ")[-1], "pool": pool,
                "seed": seed, "points": 2}

    for k in list(reg.contracts):
        if k.startswith(M + ":") and ("evaluator" in k or "compile" in k):
            reg.concretizers[k] = conc
            reg.native_searches[k] = search
