"""C03, part 2: the compiled derivative callables (compile_gradient, compile_jacobian and their helpers).

Statement proved for a returned callable f, for the arbitrary point x (environment E), the arbitrary parameter valuation
at call time and an arbitrary column k:

    e regular for V[k] at (E, PV)   and   the derivative tree optyx builds for (e, V[k]) is inside its domain at (E, PV)
        ==>   f(x)[k]  (resp. f(x)[0][k])  =  d[[e]]/dV[k] (E, PV)

The second hypothesis is A1 made explicit: outside the domain of the derivative tree NumPy yields inf/nan, which the real
arithmetic of the model does not represent (what the sanitiser does with them is property C19).
"""
from __future__ import annotations

import z3

from pyvc import sym
from pyvc.contracts import T, ListSpec
from pyvc.values import Obj, Opaque, PList, SArr, SBool, SInt, SOpt, SReal, SSeq, SpecFn, Unsupported, real_term

from .autodiff_c import Spec
from .compiler_c import IDXS, NV, DOMOF, names_of_varlist, index_map_of_varlist
from .seqtheory import skolem, index_used
from .jacrow_c import varlist, FN

AD = "optyx.core.autodiff"
CP = "optyx.core.compiler"
DOMD = sym.fn("DOMD", sym.Ref, sym.Name, sym.EnvSort, sym.PVSort, sym.B)    # the derivative tree built for (e, w) is in-domain


def install(reg, src):
    for prop_ in ("C03", "C12"):
        reg.bounded_checks.setdefault(prop_, []).append({
            "name": "jacobian", "script": "bounded_jacobian.py", "args": {"what": "jacobian"}, "timeout": 900,
            "bound": "pool of ~120 expressions (every node kind in a few contexts, vectors of length 3, a 2x2 matrix) x 4 variable "
                     "lists (own order, reversed, seeded permutation, superset, two interleaved supersets; for the nodes with index-array "
                     "fast paths every arrangement of their <= 3 variables alone and with one foreign variable) x 2 points, every "
                     "Parameter of the expression set "
                     "to a new value between compilation and the second point; compile_jacobian for 1 and 2 expressions and "
                     "compile_gradient compared with Richardson-extrapolated central differences of an independent evaluator",
            "why": "QuadraticForm / MatrixSum rows, the vectorised power / unary gradients and lists of 2+ expressions are stated but "
                   "not proved (nested sums over numeric matrices, matrix operands without a denotation, fancy-indexed closures)"})
    for prop_ in ("C17", "C12"):
        reg.bounded_checks.setdefault(prop_, []).append({
            "name": "hessian", "script": "bounded_jacobian.py", "args": {"what": "hessian"}, "timeout": 900,
            "bound": "same pool, variable lists and points (Parameters updated after compilation); compile_hessian compared with "
                     "second central differences, and checked for symmetry",
            "why": "compile_hessian's diagonal shortcuts and mirroring loop are not under proof"})
    # ---- link DOMD to the trees the differentiator returns (definitional: the tree is a function of (e, w))
    gc0 = reg.grad_contract

    def grad_contract_with_domd(c, sp, e, wrt):
        w = gc0(c, sp, e, wrt)
        if not c.verifying:
            c.ensures("DOMD", lambda res: DOMD(sp.ref(e), w, sp.E, sp.PVX) == sp.dom(res, sp.E, sp.PVX))
        return w
    reg.grad_contract_domd = grad_contract_with_domd

    def the_point(ip, sp, IDX, n_len=None):
        """The arbitrary point: x denotes the path's arbitrary environment E; the parameter store at call time is the
        arbitrary valuation PVX (both are unconstrained constants, so nothing is lost)."""
        arr = sym.fresh("x", sym.RealArr)
        x = SArr(arr, n=NV(IDX) if n_len is None else n_len, envlink=(IDX, sp.E, ip.path))     # one entry per listed variable
        ip.path.havoc_store("_value", sym.R)
        ip.path.assume(ip.path.store_of("_value", sym.R) == sp.PVX)
        return x

    def gradient_fn(sp0, e, vs, IDX, need_domd):
        """The callable promised by the gradient compilers: entry k of f(x) is the partial derivative wrt V[k] wherever e is
        regular for V[k] (and, on the symbolic path, the derivative tree is in-domain)."""
        def call(ip2, x, *rest):
            if not isinstance(x, SArr) or x.shape is not None:
                raise Unsupported("compiled gradient applied to a non 1-D array")
            if x.envlink is None:
                x.envlink = (IDX, sym.fresh("ENV_x", sym.EnvSort), ip2.path)
            ENV = x.envlink[1]
            sp2 = Spec(ip2)
            PV = ip2.path.store_of("_value", sym.R)          # parameter values at the time of the call (C12)
            n2 = ip2.models.len_term(vs.n)
            base = sym.fresh("grad_out", sym.RealArr)

            def get(k):
                kt = k if not isinstance(k, int) else z3.IntVal(k)
                wk = FN(vs.get(kt).ref)
                # raw spec symbols: the unfolding of DV / REG for this column is requested by whoever reasons about the
                # column (asking for it at every index term would feed the instantiation loop of the sequence theory)
                r_ = sp2.ref(e)
                hyp = sp2.S.REG(r_, wk, ENV, PV)
                if need_domd is not False and need_domd is not None:
                    hyp = z3.And(hyp, (DOMD if need_domd is True else need_domd)(r_, wk, ENV, PV))
                ip2.path.assume(z3.Implies(z3.And(kt >= 0, kt < n2, hyp), z3.Select(base, kt) == sp2.S.DV(r_, wk, ENV, PV)))
                return SReal(z3.Select(base, kt), "npfloat")
            return SSeq(n2, get, "ndarray", "gradient")
        return SpecFn(call, "compiled gradient", meta={"gradient_of": (e, vs, IDX)})
    reg.gradient_fn = gradient_fn

    # ---- compile_gradient
    @reg.contract(f"{CP}:compile_gradient", props=["C03", "C12"], cases={"kind": ["general", "VectorPowerSum", "VectorUnarySum"]})
    def _(c):
        ip = c.ip
        sp = Spec(ip)
        kind = c.choose("kind", ["general", "VectorPowerSum", "VectorUnarySum"])
        if c.verifying and kind != "general":
            e = c.arg("expr", T.obj(kind, exact=True))
        else:
            e = c.arg("expr", T.expr())
            if c.verifying:
                c.assume(z3.Not(sp.K.is_any(sp.ref(e), ["VectorPowerSum", "VectorUnarySum"])))
        vs = varlist(c)
        NS = names_of_varlist(ip, vs)
        c.requires(sp.wf(e), name="well-formed scalar expression")
        c.requires(reg.covers(sp, e, NS), name="every variable of the expression is in the variable list")
        if c.verifying:
            reg.covers_to_occ(sp, e, NS)
        m = index_map_of_varlist(ip, vs)
        IDX = m.idx
        n = ip.models.len_term(vs.n)
        c.returns(lambda cc: gradient_fn(sp, e, vs, IDX, True))
        if c.verifying:
            def post(res):
                x = the_point(ip, sp, IDX, n)
                k = skolem(ip, "sk_col", n)
                index_used(ip, k)
                ip.path.assume(z3.And(k >= 0, k < n))
                wk = FN(vs.get(k).ref)
                ip.path.assume(sp.reg(e, wk, sp.E, sp.PVX))
                ip.path.assume(DOMD(sp.ref(e), wk, sp.E, sp.PVX))
                out = ip.call(res, [x], {}, None)
                S = ip.models.as_seq(out)
                goals = [ip.models.len_term(S.n) == n]
                ip.path.assume(ip.models.len_term(S.n) == n)
                val = S.get(k)
                goals.append(real_term(val) == sp.dv(e, wk, sp.E, sp.PVX))
                ip.reg.saturate(ip)
                return goals
            c.ensures("gradient entry", post)

    # ---- vectorised gradients of sum(x**k) and sum(f(x))
    VEC_BOUNDED = ("closures over fancy-indexed NumPy arrays (full / sparse layouts x per-function derivative tables): the "
                   "scatter/gather model makes the proof search take minutes per case and still leaves cases open, so the "
                   "contract is stated and compared with finite differences by the bounded stand-in (native/bounded_jacobian.py)")

    def vec_grad_contract(key, cls, cases=None, known=None):
        @reg.contract(key, props=["C03", "C12"], cases=cases or {}, bounded=VEC_BOUNDED)
        def _(c):
            ip = c.ip
            sp = Spec(ip)
            kn = known(c) if known else None
            e = c.arg("expr", T.obj(cls, exact=True, known=kn))
            vs = varlist(c)
            NS = names_of_varlist(ip, vs)
            c.requires(sp.wf(e), name="well-formed scalar expression")
            c.requires(reg.covers(sp, e, NS), name="every variable of the expression is in the variable list")
            if c.verifying:
                reg.covers_to_occ(sp, e, NS)
                ip.path.ghost["occ_single"] = True
            m = index_map_of_varlist(ip, vs)
            IDX = m.idx
            n = ip.models.len_term(vs.n)
            c.returns(lambda cc: gradient_fn(sp, e, vs, IDX, False))
            if c.verifying:
                def post(res):
                    x = the_point(ip, sp, IDX, n)
                    k = skolem(ip, "sk_col", n)
                    index_used(ip, k)
                    ip.path.assume(z3.And(k >= 0, k < n))
                    wk = FN(vs.get(k).ref)
                    ip.path.assume(sp.reg(e, wk, sp.E, sp.PVX))
                    out = ip.call(res, [x], {}, None)
                    S = ip.models.as_seq(out)
                    goals = [ip.models.len_term(S.n) == n]
                    ip.path.assume(ip.models.len_term(S.n) == n)
                    val = S.get(k)
                    goals.append(real_term(val) == sp.dv(e, wk, sp.E, sp.PVX))
                    ip.reg.saturate(ip)
                    return goals
                c.ensures("gradient entry", post)
        return _
    vec_grad_contract(f"{CP}:_compile_vectorized_power_gradient", "VectorPowerSum")
    from pyvc.spec import VEC_UNARY_OPS
    vec_grad_contract(f"{CP}:_compile_vectorized_unary_gradient", "VectorUnarySum", cases={"op": list(VEC_UNARY_OPS)},
                      known=lambda c: ({"op": c.choose("op", list(VEC_UNARY_OPS))} if c.choose("op", list(VEC_UNARY_OPS)) else None))

    # ---- compile_jacobian: the m x n matrix of partial derivatives (proved for one and for two expressions)
    JKINDS = ["general", "VectorPowerSum", "VectorUnarySum"]

    @reg.contract(f"{AD}:compile_jacobian", props=["C03", "C09", "C10", "C14", "C12"], cases={"__combos__": [{"m": 1, "kind": k_} for k_ in JKINDS]},
                  note="proved for a single expression (every call site in the library passes one); lists of several expressions "
                       "multiply the paths beyond the quick budget and are covered by the bounded stand-in only")
    def _(c):
        ip = c.ip
        sp = Spec(ip)
        mm, kind = (c.case.get("m"), c.case.get("kind")) if c.verifying else (None, None)
        if c.verifying:
            if kind == "general":
                es = [T.expr().fresh(ip, f"e{k}") for k in range(mm)]
                if mm == 1:
                    c.assume(z3.Not(sp.K.is_any(sp.ref(es[0]), ["VectorPowerSum", "VectorUnarySum"])))
            else:
                es = [T.obj(kind, exact=True).fresh(ip, "e0")]
            exprs = c.arg("exprs", T.const(PList(es)))
        else:
            exprs = c.arg("exprs")
            if not isinstance(exprs, PList):
                raise Unsupported("compile_jacobian with a symbolic-length list of expressions")
            es = list(exprs.items)
        vs = varlist(c)
        NS = names_of_varlist(ip, vs)
        for e in es:
            c.requires(sp.wf(e), name="well-formed scalar expression")
            c.requires(reg.covers(sp, e, NS), name="every variable of the expression is in the variable list")
            if c.verifying:
                reg.covers_to_occ(sp, e, NS)
        m = index_map_of_varlist(ip, vs)
        IDX = m.idx
        n = ip.models.len_term(vs.n)

        from .jacrow_c import DOMJ as DOMJ_

        def jac_fn():
            def call(ip2, x, *rest):
                rows = [reg.gradient_fn(Spec(ip2), e, vs, IDX, DOMJ_).fn(ip2, x) for e in es]
                return SpecFn(None, "jacobian matrix", meta={"rows": rows, "getitem": lambda ip3, key: mat_get(ip3, rows, key),
                                                             "methods": {"flatten": lambda ip3: flat(rows)}, "row": rows[0]})
            return SpecFn(call, "compiled jacobian", meta={"jacobian_of": list(es)})

        def flat(rows):
            if len(rows) == 1:
                return rows[0]
            raise Unsupported("flatten of a jacobian with several rows")

        def mat_get(ip3, rows, key):
            if isinstance(key, tuple) and len(key) == 2 and isinstance(key[0], int):
                return ip3.models.getitem(ip3, rows[key[0]], key[1])
            if isinstance(key, int):
                return rows[key]
            raise Unsupported("jacobian indexing")
        c.returns(lambda cc: jac_fn())
        if c.verifying:
            from .jacrow_c import DOMJ
            JFN = f"{AD}:compile_jacobian.jacobian_fn"
            tagn = sym.fresh("JROWDONE", sym.B).decl().name().replace("!", "_")

            def row_done(st, i_row):
                """forall k < j . result[i_row, k] = compiled_elements[i_row][k](x)"""
                res_ = st.var("result")
                x_ = st.var("x")
                fns = ip.models.getitem(ip, st.var("compiled_elements"), i_row)
                marr = res_.arr

                def pred(k):
                    f = ip.models.getitem(ip, fns, SInt(k))
                    v = ip.call(f, [x_], {}, None)
                    return sym.msel(marr, z3.IntVal(i_row), k) == real_term(v)
                return lambda bound: prefix_forall(ip, f"{tagn}_{i_row}", [marr], bound, pred)

            def inv(st):
                i_cur = st.var("i")
                if not isinstance(i_cur, int):
                    raise Unsupported("outer loop of jacobian_fn is expected to be unrolled")
                goals = [row_done(st, i_cur)(st.i)]
                for i_prev in range(i_cur):
                    goals.append(row_done(st, i_prev)(n))
                return goals
            c.loop(2, inv, owner=JFN)

            def post(res):
                x = the_point(ip, sp, IDX, n)
                k = skolem(ip, "sk_col", n)
                index_used(ip, k)
                ip.path.assume(z3.And(k >= 0, k < n))
                wk = FN(vs.get(k).ref)
                # definition of the environment denoted by x, at the column's variable
                ip.path.assume(z3.Select(x.arr, z3.Select(IDX, wk)) == z3.Select(sp.E, wk))
                out = ip.call(res, [x], {}, None)
                goals = []
                for i, e in enumerate(es):
                    hyp = z3.And(sp.reg(e, wk, sp.E, sp.PVX), DOMJ(sp.ref(e), wk, sp.E, sp.PVX))
                    val = ip.models.getitem(ip, out, (i, SInt(k)))
                    goals.append(z3.Implies(hyp, real_term(val) == sp.dv(e, wk, sp.E, sp.PVX)))
                ip.reg.saturate(ip)
                return goals
            c.ensures("jacobian entry", post)

    # ---- _is_scaled_variable_pattern: (c, True) only if every row entry is  c * V[k]  (either operand order)
    from .seqtheory import named_forall, prefix_forall, seqs as _seqs, _once as _once1

    @reg.contract(f"{AD}:_is_scaled_variable_pattern", props=["C03"])
    def _(c):
        ip = c.ip
        sp = Spec(ip)
        row = c.arg("jacobian_row", T.seq(T.expr()))
        vs = varlist(c)
        if not isinstance(row, SSeq):
            raise Unsupported("_is_scaled_variable_pattern with a concrete row")
        n = ip.models.len_term(vs.n)
        E, PV = sp.E, sp.PVX

        def entry_is(k, sc):
            kt = k if not isinstance(k, int) else z3.IntVal(k)
            el = row.get(kt)
            return sp.den(el, E, PV) == sc * z3.Select(E, FN(vs.get(kt).ref))
        tagname = sym.fresh("SCALEDROW", sym.B).decl().name().replace("!", "_")

        def scaled(sc):
            return named_forall(ip, tagname, [sc], n, lambda k: entry_is(k, sc))
        if c.verifying:
            for k_ in range(0):
                pass

            def inv(st):
                sc = st.var("scale")
                if sc is None:
                    return [st.i == 0]
                if isinstance(sc, SOpt):
                    scv = real_term(sc.val)
                    return [z3.If(sc.isnone, st.i == 0, z3.And(st.i > 0, scaled(scv)(st.i)))]
                return [z3.And(st.i > 0, scaled(real_term(sc))(st.i))]
            c.loop(1, inv, havoc={"scale": T.opt(T.real("pynum")), "c": T.real("pynum")})
        c.returns(lambda cc: SOpt(sym.fresh("pattern_none", sym.B), (SReal(sym.fresh("pattern_scale", sym.R), "pynum"), True)))

        def post(res):
            if res is None:
                return z3.BoolVal(True)
            guard = z3.BoolVal(True)
            if isinstance(res, SOpt):
                guard, res = z3.Not(res.isnone), res.val
            if not (isinstance(res, tuple) and len(res) == 2):
                return z3.BoolVal(False)
            sc = real_term(res[0])
            if c.verifying:
                k = skolem(ip, "sk_pat", n)
                index_used(ip, k)
                g = z3.Implies(z3.And(guard, k >= 0, k < n), z3.And(ip.models.len_term(row.n) == n, entry_is(k, sc)))
                ip.reg.saturate(ip)
                return g
            # applied: the fact for every position, instantiated at the index terms in use
            def pw(k):
                if _once1(ip, f"pattern:{tagname}:{k}"):
                    ip.path.guards.append(z3.And(k >= 0, k < n))
                    try:
                        f = entry_is(k, sc)
                    finally:
                        ip.path.guards.pop()
                    ip.path.assume(z3.Implies(z3.And(guard, k >= 0, k < n), f))
            _seqs(ip).pointwise.append(pw)
            return z3.Implies(guard, ip.models.len_term(row.n) == n)
        c.ensures("every entry is scale * V[k]", post)

    # ---- compute_hessian (C17): H[i][j] is the tree gradient(g_i, V[j]) of the first-pass tree g_i = gradient(e, V[i]).
    #      Statement: H[i][j] is well formed and, wherever g_i is regular for V[j], its value is d[[g_i]]/dV[j]; g_i equals
    #      d[[e]]/dV[i] on the regular set of e (G1).  That the derivative of g_i is then the second partial derivative of e
    #      is the analytic fact "functions that agree on an open set have the same derivative there" (not a proof obligation).
    HELEM = sym.fn("HESS_ELEM", sym.Ref, sym.I, sym.I, sym.Ref)
    HFIRST = sym.fn("HESS_FIRST", sym.Ref, sym.I, sym.Ref)

    def first_ok(sp, e, wi, g):
        return [z3.Implies(sp.reg(e, wi, sp.E, sp.PVX), sp.den(g, sp.E, sp.PVX) == sp.dv(e, wi, sp.E, sp.PVX)), sp.wf(g)]

    def second_ok(sp, g, wj, h):
        return [z3.Implies(sp.reg(g, wj, sp.E, sp.PVX), sp.den(h, sp.E, sp.PVX) == sp.dv(g, wj, sp.E, sp.PVX)), sp.wf(h)]

    @reg.contract(f"{AD}:compute_hessian", props=["C17"])
    def _(c):
        ip = c.ip
        sp = Spec(ip)
        e = c.arg("expr", T.expr())
        vs = varlist(c)
        n = ip.models.len_term(vs.n)
        c.requires(sp.wf(e), name="well-formed scalar expression")
        base = sym.fresh("hessian", sym.Ref)
        name_of = lambda k: FN(vs.get(k if not isinstance(k, int) else z3.IntVal(k)).ref)

        def entry(i, j, assume=True):
            it = i if not isinstance(i, int) else z3.IntVal(i)
            jt = j if not isinstance(j, int) else z3.IntVal(j)
            h = Opaque(HELEM(base, it, jt), "Expression")
            # witness first-pass tree: an opaque one for callers, the real grad[i] while the body is under proof
            g = state["grad_at"](it) if (c.verifying and state.get("grad_at")) else Opaque(HFIRST(base, it), "Expression")
            if assume:
                inr = z3.And(it >= 0, it < n, jt >= 0, jt < n)
                for f in first_ok(sp, e, name_of(it), g) + second_ok(sp, g, name_of(jt), h):
                    ip.path.assume(z3.Implies(inr, f))
            return h

        state = {}

        def row_seq(i):
            return SSeq(n, lambda j: entry(i, j), "list", "hessian row", tag=("hessrow", base))
        c.returns(lambda cc: SSeq(n, lambda i: row_seq(i), "list", "hessian", tag=("hessian", base)))
        if c.verifying:
            # the first-pass list is a lazily evaluated comprehension; inside the loops its i-th entry is the witness g_i
            def grad_i(st_or_fr, i):
                ok, gl = st_or_fr.lookup("grad") if hasattr(st_or_fr, "lookup") else (True, st_or_fr.var("grad"))
                return ip.models.as_seq(gl).get(i)

            def inner_spec(i_term, frame_getter):
                def spec_elem(j):
                    return entry(i_term, j)

                def equal(ip2, appended, j):
                    g = frame_getter()
                    return second_ok(sp, g, name_of(j), appended) + first_ok(sp, e, name_of(i_term), g)
                return ListSpec(spec_elem, equal, "row")

            def outer_equal(ip2, appended, i):
                # the appended row is the finished inner list: check an arbitrary column of it
                S = ip2.models.as_seq(appended)
                goals = [ip2.models.len_term(S.n) == n]
                j = skolem(ip2, "sk_hcol", n)
                index_used(ip2, j)
                ip2.path.assume(z3.And(j >= 0, j < n, ip2.models.len_term(S.n) == n))
                h = S.get(j)
                g = state["grad_at"](i)
                goals += second_ok(sp, g, name_of(j), h) + first_ok(sp, e, name_of(i), g)
                return goals

            def outer_inv(st):
                state["grad_at"] = lambda i: ip.models.as_seq(st.var("grad")).get(i)
                return []
            c.loop(1, outer_inv, havoc={"hessian": ListSpec(lambda i: row_seq(i), outer_equal, "hessian"), "row": None})

            def inner_inv(st):
                from pyvc.values import num_term
                state["i"] = num_term(st.var("i"))       # the outer iteration this inner loop belongs to
                return []
            c.loop(2, inner_inv, havoc={"row": inner_spec_dyn(state, entry, second_ok, first_ok, sp, e, name_of)})

            def post(res):
                S = ip.models.as_seq(res)
                goals = [ip.models.len_term(S.n) == n]
                return goals
            c.ensures("one row per variable", post)


def inner_spec_dyn(state, entry, second_ok, first_ok, sp, e, name_of):
    """ListSpec of the inner `row.append(gradient(grad[i], variables[j]))` loop; i is the outer iteration under check."""
    def spec_elem(j):
        return entry(state["i"], j)

    def equal(ip2, appended, j):
        g = state["grad_at"](state["i"])
        return second_ok(sp, g, name_of(j), appended) + first_ok(sp, e, name_of(state["i"]), g)
    return ListSpec(spec_elem, equal, "row")
