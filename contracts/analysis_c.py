"""Contracts for optyx.analysis: degree classification (C04) and, further down, LP extraction (C05)."""
from __future__ import annotations

import z3

from pyvc import sym
from pyvc.contracts import T
from pyvc.spec import BINARY_OPS, UNARY_OPS
from pyvc.values import SInt, SOpt, SReal

from .specfns import Spec
from .autodiff_c import node_type

M = "optyx.analysis"
LEAVES = ["Constant", "Variable", "Parameter"]


def degree_cases(src) -> list[str]:
    out = list(LEAVES) + [f"BinaryOp:{op}" for op in BINARY_OPS] + [f"UnaryOp:{op}" for op in UNARY_OPS]
    for k in src.expression_kinds():
        if k in LEAVES or k in ("BinaryOp", "UnaryOp"):
            continue
        if k in ("LinearCombination", "VectorSum", "L2Norm", "L1Norm"):
            out += [f"{k}|VectorVariable", f"{k}|VectorExpression"]
        elif k in ("DotProduct",):
            out += [f"{k}|{a}|{b}" for a in ("VectorVariable", "VectorExpression") for b in ("VectorVariable", "VectorExpression")]
        elif k == "QuadraticForm":
            out += [f"{k}|VectorVariable", f"{k}|VectorExpression"]
        else:
            out.append(k)
    return out


def degree_post(sp, e):
    """res = d (not None)  =>  d >= 0 and the formula is a polynomial of total degree <= d (property C04)."""
    def post(res):
        if res is None:
            return z3.BoolVal(True)
        if isinstance(res, SOpt):
            d = res.val.t
            return z3.Implies(z3.Not(res.isnone), z3.And(d >= 0, sp.ispoly(e), sp.sdeg(e) <= d))
        d = res.t if isinstance(res, SInt) else z3.IntVal(int(res)) if isinstance(res, int) else None
        if d is None:
            if isinstance(res, SReal):
                return z3.And(z3.IsInt(res.t), res.t >= 0, sp.ispoly(e), sym.to_real(sp.sdeg(e)) <= res.t)
            return z3.BoolVal(False)
        return z3.And(d >= 0, sp.ispoly(e), sp.sdeg(e) <= d)
    return post


def setup_node(c, sp, case):
    """Root expression for a degree case `Kind[:op][|vectorkind...]`."""
    if case is None:
        return c.arg("expr", None)
    parts = case.split("|")
    e = c.arg("expr", node_type(parts[0]))
    base_kind = parts[0].split(":")[0]
    fixed = {"VectorSum": ("vector", "VectorVariable"), "VectorPowerSum": ("vector", "VectorVariable"),
             "VectorUnarySum": ("vector", "VectorVariable"), "ElementwisePower": ("vector", "VectorVariable"),
             "ElementwiseUnary": ("vector", "VectorVariable"), "VectorExpressionSum": ("expression", "VectorExpression")}
    if base_kind in fixed and len(parts) == 1:
        f, k = fixed[base_kind]
        v = sp.S.F(f, sym.Ref)(sp.ref(e))
        c.assume(sp.K.is_kind(v, k))          # constructor invariant: these nodes are only built over that vector class
        sp.S.learn_kind(c.ip, v, k)
    if len(parts) > 1:
        r = sp.ref(e)
        fields = ["left", "right"] if parts[0] == "DotProduct" else ["vector"]
        for f, k in zip(fields, parts[1:]):
            v = sp.S.F(f, sym.Ref)(r)
            c.assume(sp.K.is_kind(v, k))
            sp.S.learn_kind(c.ip, v, k)
    return e


def install(reg, src):
    cases = degree_cases(src)
    reg.assumption("A7 (C04): no division by a literal Constant(0) inside the tree (x/0 has an empty domain)")

    def deg_contract(key, rank, bounded=None, extra_args=()):
        @reg.contract(key, props=["C04", "C15"] if "iterative" in key else ["C04"], cases={"node": cases}, group="deg",
                      rank=rank, bounded=bounded)
        def _(c):
            sp = Spec(c.ip)
            case = c.choose("node", cases)
            for a in extra_args:
                c.arg(a, T.int_())
            e = setup_node(c, sp, case)
            c.decreases(e)
            c.requires(wf_div(sp, e), name="no division by the literal constant 0")
            c.returns(T.opt(T.int_()))
            c.ensures("poly", degree_post(sp, e))
            if c.verifying and case:
                install_loops(c, sp, e, case)
        return _

    def wf_div(sp, e):
        return sp.nodiv0(e)

    def install_loops(c, sp, e, case):
        from .vecspec import vec_deg, FV
        kind = case.split("|")[0]
        if kind in ("LinearCombination", "VectorSum") and case.endswith("VectorExpression"):
            v = FV(sp, sp.ref(e))
            allp, mx = vec_deg(sp, v)
            sp.ispoly(e)
            def inv(st):
                md = st.var("max_deg")
                mdt = md.t if isinstance(md, SInt) else z3.IntVal(md)
                return [mdt >= 0, allp(st.i), mx(st.i) <= mdt]
            # loop ordinals in _compute_degree_impl: 1 = LinearCombination, 2 = VectorSum
            c.loop(1 if kind == "LinearCombination" else 2, inv, havoc={"d": T.opt(T.int_())})

    deg_contract(f"{M}:_compute_degree_impl", 1)
    deg_contract(f"{M}:_compute_degree_cached", 2, extra_args=("expr_id",))
    deg_contract(f"{M}:compute_degree", 3)
    deg_contract(f"{M}:_compute_degree_iterative", 2,
                 bounded="positional result stack of a three-phase DFS: node blocks are compared with the recursive rule by the "
                         "bounded stand-in (all tree shapes up to the stated size); see DESIGN.md C15 layer 3")

    @reg.contract(f"{M}:_estimate_tree_depth", props=["C15"],
                  trusted="returns some int and writes nothing (frame scan); only selects between twins with the same contract")
    def _(c):
        c.arg("expr"); c.arg("max_depth", default=500)
        c.returns(T.int_())

    # ---- Expression.degree (memo field _degree), is_linear / is_quadratic
    @reg.contract("optyx.core.expressions:Expression.degree", props=["C04"], cases={"memo": ["unset", "set"]})
    def _(c):
        sp = Spec(c.ip)
        e = c.arg("self", T.expr())
        c.requires(wf_div(sp, e), name="no division by the literal constant 0")
        c.returns(T.opt(T.int_()))
        c.ensures("poly", degree_post(sp, e))
        memo = c.choose("memo", ["unset", "set"])
        if c.verifying:
            reg.degree_memo_setup(c, sp, e, memo)

    def memo_inv(sp, e):
        """Invariant of the memo slot: whatever is stored for e is a sound answer (None / -1 sentinel / degree bound)."""
        p = sp.ip.path
        r = sp.ref(e)
        has = z3.Select(p.store_of("_degree!has", sym.B), r)
        non = z3.Select(p.store_of("_degree!none", sym.B), r)
        val = z3.Select(p.store_of("_degree", sym.I), r)
        return z3.Implies(z3.And(has, z3.Not(non)), z3.Or(val == -1, z3.And(val >= 0, sp.ispoly(e), sp.sdeg(e) <= val)))

    def degree_memo_setup(c, sp, e, memo):
        p = sp.ip.path
        r = sp.ref(e)
        has = z3.Select(p.store_of("_degree!has", sym.B), r)
        non = z3.Select(p.store_of("_degree!none", sym.B), r)
        if memo == "set":
            c.assume(has, z3.Not(non))
        else:
            c.assume(z3.Or(z3.Not(has), non))
        c.assume(memo_inv(sp, e))
        c.ensures("memo invariant kept", lambda res: memo_inv(sp, e))
    reg.degree_memo_setup = degree_memo_setup
    reg.assumption("C04: the memo slot Expression._degree is written only by Expression.degree and Variable.__init__ "
                   "(source scan); its invariant is assumed on entry and re-established on exit")

    def lin_contract(key, bound, argname="expr"):
        @reg.contract(key, props=["C04", "C05", "C08"])
        def _(c):
            sp = Spec(c.ip)
            e = c.arg(argname, T.expr())
            c.requires(wf_div(sp, e), name="no division by the literal constant 0")
            c.returns(T.bool_())
            from pyvc.values import SBool
            def post(res):
                t = res.t if isinstance(res, SBool) else z3.BoolVal(bool(res))
                return z3.Implies(t, z3.And(sp.ispoly(e), sp.sdeg(e) <= bound))
            c.ensures("poly", post)
    lin_contract(f"{M}:is_linear", 1)
    lin_contract(f"{M}:is_quadratic", 2)
    lin_contract("optyx.core.expressions:Expression.is_linear", 1, argname="self")
    reg.wf_div = wf_div
    install_replay(reg, src)


def install_replay(reg, src):
    import random as _random
    import sys as _sys, os as _os
    _sys.path.insert(0, _os.path.join(_os.path.dirname(_os.path.dirname(_os.path.abspath(__file__))), "native"))
    import build as nbuild
    from pyvc.concretize import Concretizer, find_const

    def deg_conc(eng, ob, model, oid):
        cz = Concretizer(eng, model)
        cz.degree_mode = True
        e = find_const(ob, "expr!")
        if e is None:
            e = find_const(ob, "self!")
        if e is None:
            return None
        fnkey = oid.split(" / ")[0]
        args = [cz.expr(e)]
        if fnkey.endswith("_compute_degree_cached"):
            args = [0] + args
        return {"family": "degree", "fn": fnkey, "args": args, "clause": oid.split(" / ")[-1], "env": cz.env}

    def deg_search(eng, ob, oid, seed):
        rng = _random.Random(seed)
        fnkey = oid.split(" / ")[0]
        pool = []
        case = oid.split(" / ")[1]
        root = case.split("=", 1)[1].split("|")[0] if case.startswith("node=") else None
        tries = 0
        while len(pool) < 1500 and tries < 60000:
            tries += 1
            if root and ":" not in root and root not in ("Constant", "Variable", "Parameter"):
                e = nbuild.rand_vector_node(rng, 2)
                if e["cls"] != root:
                    continue
            else:
                e = nbuild.rand_scalar(rng, 3)
                if root:
                    r0 = e["cls"] + (":" + e["op"] if e["cls"] in ("BinaryOp", "UnaryOp") else "")
                    if r0 != root:
                        continue
            pool.append({"args": ([0, e] if fnkey.endswith("_compute_degree_cached") else [e])})
        return {"mode": "search", "family": "degree", "fn": fnkey, "clause": oid.split(" / ")[-1], "pool": pool,
                "seed": seed, "points": 1}

    for k in list(reg.contracts):
        if k.startswith(M + ":") and "degree" in k:
            reg.concretizers[k] = deg_conc
            reg.native_searches[k] = deg_search
